"""C03 - concurrent LRI/LRU operations are atomic (serializable) under every interleaving.

Tie between the Lean theorem (C03.serializable: protected operations are atomic under every
schedule) and the code:
  (i)  translator (class LockAnalysis): AST of LRI/LRU -> Generated/C03_CacheLocks.lean: per public method the raw
       references (private state / C-level dict mutators / bare cache; cache operations invoked) each with
       "inside a lock region?" and "in a loop?", where a lock region is `with self._lock:` (or a local alias),
       `self._lock.acquire(); try: ... finally: self._lock.release()`, a locking decorator, or a call of a private
       helper that is itself wholly locked; where `self._lock` is assigned and with what; which lock-requiring helpers are reachable
       outside a region; which dict mutators are not overridden.  Lean recomputes the judgement from the raw
       references and re-proves `lock_discipline_from_refs`, `all_state_methods_protected`, `public_methods_atomic`,
       `lock_created_once_reentrant`, `helpers_only_under_lock`, `no_inherited_mutators` by `decide` every run;
       the methods it rejects become the targets of the intensified (focus) search;
  (ii) acceptance: real threads under the deterministic opcode-level scheduler (bv/sched.py); at every
       entry of a ring helper the running thread must own the cache's lock (dynamic lock-set);
  (iii) correspondence: the observed run (results of every locked operation + final contents + final
       eviction order) must equal what the Lean C02 model computes for the same operations executed
       atomically in the order in which they took the lock (the linearisation the theorem promises).
Independent oracle: the observed outcome must be one of the outcomes of the real code run
SEQUENTIALLY over all merges of the threads' programs (no model involved).
"""
import ast
import atexit
import itertools
import json
import os
import re
import select
import subprocess
import sys

from bv import common, sched
from bv.common import Property, Failure, time_limit, exc_name

READERS = {'len', 'contains', 'keys', 'items', 'values', 'iter'}
DICT_MUTATORS = ['__setitem__', '__delitem__', 'pop', 'popitem', 'clear', 'update', 'setdefault',
                 '__ior__']
STATE_ATTRS = {'_link_lookup', '_anchor'}
# C-level dict methods that read the WHOLE dict in several steps and call back into Python between them (the values'
# / keys' __eq__): through super() they are references to the cache's state like the mutators - "a single C-level
# call" is not atomic
DICT_WHOLE_READS = ['__eq__', '__ne__']


_KRE = re.compile(r'k(\d+)\Z')


class VObj:
    """a stored VALUE whose `==` is implemented in Python: C code comparing two stored values (`dict.__eq__`) calls
    back into the interpreter, where a thread switch can happen - a scheduling point of the run (sched.user_point)"""
    __slots__ = ('v',)

    def __init__(self, v):
        self.v = v

    def __eq__(self, other):
        sched.user_point()
        r = isinstance(other, VObj) and self.v == other.v
        sched.user_point()
        return r

    def __ne__(self, other):
        return not self.__eq__(other)

    __hash__ = None

    def __repr__(self):
        return 'V(%r)' % (self.v,)


class KObj:
    """a KEY whose `__hash__` / `__eq__` are implemented in Python (every dict lookup with a non-identical equal key
    calls them)"""
    __slots__ = ('k',)

    def __init__(self, k):
        self.k = k

    def __hash__(self):
        sched.user_point()
        return hash(self.k)

    def __eq__(self, other):
        sched.user_point()
        r = isinstance(other, KObj) and self.k == other.k
        sched.user_point()
        return r

    def __ne__(self, other):
        return not self.__eq__(other)

    def __repr__(self):
        return 'K(%r)' % (self.k,)


class KStr(str):
    """a str KEY (usable as a keyword name: `cache.update(**{KStr('k1'): v})`) with Python-level `__hash__` / `__eq__`"""
    __slots__ = ()

    def __hash__(self):
        sched.user_point()
        return str.__hash__(self)

    def __eq__(self, other):
        sched.user_point()
        return str.__eq__(self, other)

    def __ne__(self, other):
        r = self.__eq__(other)
        return r if r is NotImplemented else not r


def _ident(x):
    return x


KEY_KINDS = {'int': _ident, 'str': lambda k: 'k%d' % k, 'obj': KObj, 'strobj': lambda k: KStr('k%d' % k)}
VAL_KINDS = {'int': _ident, 'obj': VObj}
KW_KEY_KINDS = ('str', 'strobj')        # keyword names must be strings


def codec(case):
    """(key encoder, value encoder) of a case: the model's integer keys / values are REPRESENTED in the real run as
    ints (default), strings 'k<n>', or objects with Python-level __hash__ / __eq__; `canon` maps them back"""
    return KEY_KINDS[case.get('keys', 'int')], VAL_KINDS[case.get('vals', 'int')]


def mk_cache(cu, cls, max_size, on_miss, init, K=_ident, V=_ident):
    om = (lambda key: V(canon(key) * 10 + 7)) if on_miss else None
    c = getattr(cu, cls)(max_size=max_size, on_miss=om)
    for k, v in init:
        c[K(k)] = V(v)
    return c


def canon(v):
    if isinstance(v, (list, tuple)):
        return [canon(x) for x in v]
    if isinstance(v, dict):
        return sorted([canon(k), canon(x)] for k, x in v.items())
    if isinstance(v, VObj):
        return canon(v.v)
    if isinstance(v, KObj):
        return canon(v.k)
    if isinstance(v, str):
        m = _KRE.match(v)
        return int(m.group(1)) if m else str(v)
    if v is None or isinstance(v, (int, bool)):
        return v
    return repr(v)


def _other_cache(cache, pairs, K, V):
    other = type(cache)(max_size=len(pairs) + 1)
    for k, v in pairs:
        other[K(k)] = V(v)
    return other


def apply_op(cache, op, K=_ident, V=_ident):
    kind = op[0]
    if kind == 'set':
        cache[K(op[1])] = V(op[2])
        return None
    if kind == 'get':
        return cache[K(op[1])]
    if kind == 'getd':
        return cache.get(K(op[1]), V(99))
    if kind == 'del':
        del cache[K(op[1])]
        return None
    if kind == 'pop':
        return cache.pop(K(op[1]))
    if kind == 'popd':
        return cache.pop(K(op[1]), V(99))
    if kind == 'setdefault':
        return cache.setdefault(K(op[1]), V(op[2]))
    if kind == 'update':
        cache.update([(K(k), V(v)) for k, v in op[1]])
        return None
    if kind == 'updated':        # mapping argument: the `E.keys()` branch of update()
        cache.update(dict((K(k), V(v)) for k, v in op[1]))
        return None
    if kind == 'updatec':        # another (thread-private) LRU as argument: keys() + __getitem__ of that cache
        cache.update(_other_cache(cache, op[1], K, V))
        return None
    if kind == 'updatek':        # keyword form: update(**kw) / update(pairs, **kw)
        kw = dict((K(k), V(v)) for k, v in op[2])
        if op[1]:
            cache.update([(K(k), V(v)) for k, v in op[1]], **kw)
        else:
            cache.update(**kw)
        return None
    if kind == 'updatekd':       # update(mapping, **kw)
        cache.update(dict((K(k), V(v)) for k, v in op[1]), **dict((K(k), V(v)) for k, v in op[2]))
        return None
    if kind == 'copyp':          # copy(), then everything observable about the copy: items in dict order, class,
        c2 = cache.copy()        # capacity, and its eviction order (probed on the private copy)
        return [canon(list(c2.items())), type(c2).__name__, c2.max_size, probe_order(c2, c2.max_size, K, V)]
    if kind == 'popitem':
        return canon(cache.popitem())
    if kind == 'clear':
        cache.clear()
        return None
    if kind == 'copy':
        c2 = cache.copy()
        return sorted(canon(list(c2.items())))
    if kind == 'eq':
        return cache == dict((K(k), V(v)) for k, v in op[1])
    if kind == 'ne':
        return cache != dict((K(k), V(v)) for k, v in op[1])
    if kind == 'eqc':            # compared with another (thread-private) cache
        return cache == _other_cache(cache, op[1], K, V)
    if kind == 'nec':
        return cache != _other_cache(cache, op[1], K, V)
    if kind == 'ior':
        cache |= dict((K(k), V(v)) for k, v in op[1])
        return None
    if kind == 'len':
        return len(cache)
    if kind == 'contains':
        return K(op[1]) in cache
    if kind == 'keys':
        return sorted(canon(list(cache.keys())))
    raise ValueError(op)


def probe_order(cache, max_size, K=_ident, V=_ident):
    """final eviction order through the public API: insert fresh keys, record what vanishes"""
    order = []
    for i in range(2 * max_size + 2):
        before = set(canon(list(cache.keys())))
        cache[K(1000 + i)] = V(0)
        after = set(canon(list(cache.keys())))
        gone = sorted(before - after)
        order.append(gone)
        if len(cache) > max_size:
            order.append('OVER')
            break
    return order


def merges(progs):
    """all interleavings of the programs that respect each thread's order, as lists of tids"""
    counts = [len(p) for p in progs]

    def rec(rem):
        if not any(rem):
            yield []
            return
        for i, r in enumerate(rem):
            if r:
                rem2 = list(rem)
                rem2[i] -= 1
                for rest in rec(rem2):
                    yield [i] + rest
    return rec(counts)


PURE_GLOBAL_OK = True   # calls of module-level / builtin names are not cache operations


def _is_self(n):
    return isinstance(n, ast.Name) and n.id == 'self'


def _is_super_call(n):
    return isinstance(n, ast.Call) and isinstance(n.func, ast.Name) and n.func.id == 'super'


class LockAnalysis:
    """Lock discipline of LRI / LRU read off the AST, independent of how the lock is written down.

    Lock regions of a function:   `with self._lock:` (or a local alias of it) body;
                                  `self._lock.acquire()` immediately followed by `try: … finally: self._lock.release()`
                                  (try body, handlers and else-branch; the finally block up to the release);
                                  a method decorated with a module-level decorator whose wrapper is
                                  `with self._lock: return fn(self, …)` (the whole body);
                                  a call `self._h(args)` of a private helper that is itself *self-locking* (has a
                                  region and touches nothing outside it) - bound methods of self passed as arguments
                                  are allowed if the helper uses the parameter only inside its own region.
    A node *touches* state if it refers to a private attribute of self (other than the lock and self-locking
    helpers), calls a C-level dict mutator through super(), iterates / hands out the bare cache, or calls a
    locally bound callable (a parameter or local that may hold a bound method) that is not a bound public method.
    """

    def __init__(self, tree):
        self.classes = {}
        for node in tree.body:
            if isinstance(node, ast.ClassDef) and node.name in ('LRI', 'LRU'):
                self.classes[node.name] = {fn.name: fn for fn in node.body if isinstance(fn, ast.FunctionDef)}
        self._lockmap = {}
        self._self_locking = {}
        self._oprefs = {}
        self._outnodes = {}
        self.locking_decorators = set()
        for node in tree.body:
            if isinstance(node, ast.FunctionDef) and self._is_locking_decorator(node):
                self.locking_decorators.add(node.name)
        self.lock_assigned_in = []
        self.lock_ctors = []
        for cname in ('LRI', 'LRU'):
            for fname, fn in self.classes.get(cname, {}).items():
                for n in ast.walk(fn):
                    if isinstance(n, (ast.Assign, ast.AugAssign, ast.AnnAssign)):
                        tgts = n.targets if isinstance(n, ast.Assign) else [n.target]
                        for t in tgts:
                            for tt in ast.walk(t):
                                if isinstance(tt, ast.Attribute) and tt.attr == '_lock' and _is_self(tt.value):
                                    self.lock_assigned_in.append('%s.%s' % (cname, fname))
                                    v = getattr(n, 'value', None)
                                    if isinstance(v, ast.Call) and isinstance(v.func, ast.Name):
                                        self.lock_ctors.append(v.func.id)
                                    elif isinstance(v, ast.Call) and isinstance(v.func, ast.Attribute):
                                        self.lock_ctors.append(v.func.attr)
                                    else:
                                        self.lock_ctors.append('?')

    @staticmethod
    def _is_locking_decorator(dec):
        """def dec(fn): def wrapper(self, *a, **kw): with self._lock: return fn(self, *a, **kw) ; return wrapper"""
        if len(dec.args.args) != 1:
            return False
        fname = dec.args.args[0].arg
        inner = [n for n in dec.body if isinstance(n, ast.FunctionDef)]
        if len(inner) != 1 or not inner[0].args.args:
            return False
        w = inner[0]
        sname = w.args.args[0].arg
        body = [b for b in w.body if not (isinstance(b, ast.Expr) and isinstance(b.value, ast.Constant))]
        if len(body) != 1 or not isinstance(body[0], ast.With):
            return False
        wi = body[0]
        if not any(isinstance(it.context_expr, ast.Attribute) and it.context_expr.attr == '_lock' and
                   isinstance(it.context_expr.value, ast.Name) and it.context_expr.value.id == sname for it in wi.items):
            return False
        calls_fn = any(isinstance(n, ast.Call) and isinstance(n.func, ast.Name) and n.func.id == fname and n.args and
                       isinstance(n.args[0], ast.Name) and n.args[0].id == sname for b in wi.body for n in ast.walk(b))
        returns_wrapper = any(isinstance(n, ast.Return) and isinstance(n.value, ast.Name) and n.value.id == w.name
                              for n in dec.body)
        return calls_fn and returns_wrapper

    # ---- method resolution
    def resolve(self, cname, mname):
        for c in ([cname, 'LRI'] if cname == 'LRU' else [cname]):
            fn = self.classes.get(c, {}).get(mname)
            if fn is not None:
                return c, fn
        return None, None

    @staticmethod
    def _private(name):
        return name.startswith('_') and not name.startswith('__')

    # ---- lock regions
    @staticmethod
    def _locals_of(fn):
        names = {a.arg for a in fn.args.args + fn.args.kwonlyargs + fn.args.posonlyargs}
        if fn.args.vararg:
            names.add(fn.args.vararg.arg)
        if fn.args.kwarg:
            names.add(fn.args.kwarg.arg)
        for n in ast.walk(fn):
            if isinstance(n, ast.Name) and isinstance(n.ctx, ast.Store):
                names.add(n.id)
        names.discard('self')
        return names

    @staticmethod
    def _lock_aliases(fn):
        al = set()
        for n in ast.walk(fn):
            if isinstance(n, ast.Assign) and len(n.targets) == 1 and isinstance(n.targets[0], ast.Name):
                v = n.value
                if isinstance(v, ast.Attribute) and v.attr == '_lock' and _is_self(v.value):
                    al.add(n.targets[0].id)
        return al

    def _is_lock(self, e, aliases):
        if isinstance(e, ast.Attribute) and e.attr == '_lock' and _is_self(e.value):
            return True
        return isinstance(e, ast.Name) and e.id in aliases

    def _lock_call(self, stmt, what, aliases):
        if not isinstance(stmt, ast.Expr):
            return False
        c = stmt.value
        return isinstance(c, ast.Call) and isinstance(c.func, ast.Attribute) and c.func.attr == what \
            and self._is_lock(c.func.value, aliases)

    def lockmap(self, cname, fn):
        """id(node) -> True for every node of `fn` inside a lock region; also 'form' and 'irregular'"""
        key = (cname, id(fn))
        if key in self._lockmap:
            return self._lockmap[key]
        m = {'forms': set(), 'irregular': False, 'locked': set()}
        self._lockmap[key] = m
        aliases = self._lock_aliases(fn)

        def mark(node):
            for n in ast.walk(node):
                m['locked'].add(id(n))

        def unmark_closures(node):
            # a nested function / lambda may run later, outside the region
            for n in ast.walk(node):
                if isinstance(n, (ast.FunctionDef, ast.Lambda, ast.AsyncFunctionDef)) and n is not fn:
                    for x in ast.walk(n):
                        m['locked'].discard(id(x))

        def stmts(body):
            i = 0
            while i < len(body):
                st = body[i]
                if isinstance(st, ast.With) and any(self._is_lock(it.context_expr, aliases) for it in st.items):
                    m['forms'].add('with')
                    for b in st.body:
                        mark(b)
                elif self._lock_call(st, 'acquire', aliases):
                    nxt = body[i + 1] if i + 1 < len(body) else None
                    rel = None
                    if isinstance(nxt, ast.Try):
                        for j, f in enumerate(nxt.finalbody):
                            if self._lock_call(f, 'release', aliases):
                                rel = j
                                break
                    if rel is None:
                        m['irregular'] = True       # acquire without the try/finally release right behind it
                    else:
                        m['forms'].add('acquire-finally')
                        for b in nxt.body + nxt.orelse + nxt.finalbody[:rel]:
                            mark(b)
                        for h in nxt.handlers:
                            mark(h)
                        stmts(nxt.finalbody[rel + 1:])
                        i += 1
                elif self._lock_call(st, 'release', aliases):
                    m['irregular'] = True
                else:
                    for field in ('body', 'orelse', 'finalbody'):
                        sub = getattr(st, field, None)
                        if isinstance(sub, list) and sub and isinstance(sub[0], ast.stmt):
                            stmts(sub)
                    for h in getattr(st, 'handlers', []) or []:
                        stmts(h.body)
                i += 1
        if any(isinstance(d, ast.Name) and d.id in self.locking_decorators for d in fn.decorator_list):
            m['forms'].add('decorator')         # the whole call runs inside the decorator's `with self._lock:`
            for b in fn.body:
                mark(b)
        stmts(fn.body)
        # delegation to a self-locking private helper
        for n in ast.walk(fn):
            if id(n) in m['locked'] or not isinstance(n, ast.Call):
                continue
            f = n.func
            if isinstance(f, ast.Attribute) and _is_self(f.value) and self._private(f.attr):
                hc, h = self.resolve(cname, f.attr)
                if h is not None and h is not fn and self.self_locking(hc if cname != 'LRU' else cname, h):
                    m['forms'].add('delegates')
                    m['locked'].add(id(n))
                    m['locked'].add(id(f))
                    m['locked'].add(id(f.value))
                    params = [a.arg for a in h.args.args][1:]
                    for idx, a in enumerate(n.args):
                        if isinstance(a, ast.Attribute) and _is_self(a.value) and idx < len(params) \
                                and self._param_only_in_region(cname, h, params[idx]):
                            m['locked'].add(id(a))      # bound method handed to a helper that calls it under the lock
                            m['locked'].add(id(a.value))
        unmark_closures(fn)
        return m

    def regions_on_a_path(self, cname, fn):
        """the largest number of SEPARATE outermost lock regions one execution of `fn` can pass through (branches of
        an `if` are alternatives, a region inside a loop counts twice): two regions in one call are two separately
        atomic pieces - check-then-act - even if every single reference is under the lock"""
        aliases = self._lock_aliases(fn)

        def delegating(st):
            # an expression / return / assignment statement that calls a self-locking private helper
            if not isinstance(st, (ast.Expr, ast.Return, ast.Assign, ast.AugAssign, ast.AnnAssign)):
                return 0
            k = 0
            for n in ast.walk(st):
                if isinstance(n, ast.Call) and isinstance(n.func, ast.Attribute) and _is_self(n.func.value) \
                        and self._private(n.func.attr):
                    hc, h = self.resolve(cname, n.func.attr)
                    if h is not None and h is not fn and self.self_locking(cname, h):
                        k += 1
            return k

        def seq(body):
            total, i = 0, 0
            while i < len(body):
                st = body[i]
                if isinstance(st, ast.With) and any(self._is_lock(it.context_expr, aliases) for it in st.items):
                    total += 1
                elif self._lock_call(st, 'acquire', aliases) and i + 1 < len(body) and isinstance(body[i + 1], ast.Try):
                    total += 1
                    i += 1
                elif isinstance(st, ast.If):
                    total += max(seq(st.body), seq(st.orelse))
                elif isinstance(st, (ast.For, ast.While, ast.AsyncFor)):
                    total += 2 * seq(st.body) + seq(st.orelse)
                elif isinstance(st, ast.Try):
                    total += seq(st.body) + max([seq(h.body) for h in st.handlers] + [seq(st.orelse)]) + \
                        seq(st.finalbody)
                elif isinstance(st, ast.With):
                    total += seq(st.body)
                else:
                    total += delegating(st)
                i += 1
            return total
        if any(isinstance(d, ast.Name) and d.id in self.locking_decorators for d in fn.decorator_list):
            return 1
        return seq(fn.body)

    def _param_only_in_region(self, cname, h, pname):
        m = self.lockmap(cname, h)
        return all(id(n) in m['locked'] for n in ast.walk(h) if isinstance(n, ast.Name) and n.id == pname
                   and isinstance(n.ctx, ast.Load))

    # ---- touching nodes
    def touching_nodes(self, cname, fn):
        """nodes of fn that touch cache state (see class doc); each as (node, why)"""
        out = []
        local_names = self._locals_of(fn)
        bound_public = set()
        for n in ast.walk(fn):
            if isinstance(n, ast.Assign) and len(n.targets) == 1 and isinstance(n.targets[0], ast.Name):
                v = n.value
                if isinstance(v, ast.Attribute) and _is_self(v.value) and not self._private(v.attr):
                    bound_public.add(n.targets[0].id)
        for n in ast.walk(fn):
            if isinstance(n, ast.Attribute) and _is_self(n.value):
                a = n.attr
                if a == '_lock' or not self._private(a):
                    continue
                hc, h = self.resolve(cname, a)
                if h is not None and h is not fn and self.self_locking(cname, h):
                    continue
                out.append((n, 'self.' + a))
            elif isinstance(n, ast.Call):
                f = n.func
                if isinstance(f, ast.Attribute) and _is_super_call(f.value) and \
                        (f.attr in DICT_MUTATORS or f.attr in DICT_WHOLE_READS):
                    out.append((n, 'super().' + f.attr))
                elif isinstance(f, ast.Name) and f.id in local_names and f.id not in bound_public:
                    out.append((n, 'call of local ' + f.id))
                elif any(_is_self(a) for a in n.args) or any(_is_self(k.value) for k in n.keywords):
                    if not (isinstance(f, ast.Name) and f.id in ('isinstance', 'id', 'type', 'callable', 'getattr',
                                                                 'hasattr')):
                        out.append((n, 'bare self handed to a callable'))
            elif isinstance(n, (ast.For, ast.comprehension)) and _is_self(n.iter):
                out.append((n, 'iterates self'))
        return out

    def self_locking(self, cname, fn):
        key = (cname, id(fn))
        if key in self._self_locking:
            return bool(self._self_locking[key])
        self._self_locking[key] = False      # cycle guard: a helper is not self-locking through itself
        m = self.lockmap(cname, fn)
        ok = bool(m['forms'] - {'delegates'}) and not m['irregular'] and \
            all(id(n) in m['locked'] for n, _ in self.touching_nodes(cname, fn))
        self._self_locking[key] = ok
        return ok

    # ---- operations invoked outside the lock
    def outside_ops(self, cname, fn):
        m = self.lockmap(cname, fn)
        local_names = self._locals_of(fn)
        loops = set()
        for n in ast.walk(fn):
            if isinstance(n, (ast.For, ast.While)):
                for b in n.body:
                    for x in ast.walk(b):
                        loops.add(id(x))
            elif isinstance(n, (ast.ListComp, ast.SetComp, ast.DictComp, ast.GeneratorExp)):
                for x in ast.walk(n):
                    loops.add(id(x))
        total = 0
        why = []

        self._oprefs[(cname, id(fn))] = oprefs = []
        self._outnodes[(cname, id(fn))] = outnodes = []

        def count(n, what):
            nonlocal total
            oprefs.append((what, id(n) in m['locked'], id(n) in loops))
            if id(n) in m['locked']:
                return
            outnodes.append(n)
            total += 2 if id(n) in loops else 1
            why.append(what)
        for n in ast.walk(fn):
            if isinstance(n, ast.Subscript) and _is_self(n.value):
                count(n, 'self[…]')
            elif isinstance(n, ast.Call):
                f = n.func
                if isinstance(f, ast.Attribute) and _is_self(f.value) and not self._private(f.attr):
                    if self.resolve(cname, f.attr)[1] is not None or (
                            f.attr != '__class__' and callable(getattr(dict, f.attr, None))):
                        count(n, 'self.%s()' % f.attr)
                elif isinstance(f, ast.Attribute) and _is_super_call(f.value):
                    count(n, 'super().%s()' % f.attr)
                elif isinstance(f, ast.Attribute) and isinstance(f.value, ast.Name) and f.value.id == 'dict' and \
                        n.args and _is_self(n.args[0]):
                    count(n, 'dict.%s(self, …)' % f.attr)
                elif isinstance(f, ast.Name) and f.id in local_names:
                    count(n, 'call of local %s' % f.id)
                elif any(_is_self(a) for a in n.args) and not (isinstance(f, ast.Name) and f.id in (
                        'isinstance', 'id', 'type', 'callable', 'getattr', 'hasattr', 'super')):
                    count(n, 'self handed to %s' % (getattr(f, 'id', None) or getattr(f, 'attr', '?')))
            elif isinstance(n, ast.Attribute) and _is_self(n.value) and not self._private(n.attr) \
                    and isinstance(n.ctx, ast.Load):
                # a bound public method taken without being called on the spot
                c, h = self.resolve(cname, n.attr)
                if (h is not None or n.attr in DICT_MUTATORS) and not self._is_callee(fn, n):
                    count(n, 'bound self.%s' % n.attr)
            elif isinstance(n, ast.Compare):
                operands = [n.left] + list(n.comparators)
                for i, op in enumerate(n.ops):
                    if isinstance(op, (ast.In, ast.NotIn)) and _is_self(operands[i + 1]):
                        count(n, 'in self')
                    elif isinstance(op, (ast.Eq, ast.NotEq, ast.Lt, ast.LtE, ast.Gt, ast.GtE)) and \
                            (_is_self(operands[i]) or _is_self(operands[i + 1])):
                        count(n, 'self == …')
            elif isinstance(n, (ast.For, ast.comprehension)) and _is_self(n.iter):
                count(n, 'iterates self')
        return total, why

    def outside_statements(self, cname, fn):
        """WHICH statements of `fn` refer to state / invoke cache operations outside every lock region, and which
        parameters of `fn` they (and the headers of the loops / conditions around them) read: [(line, source text,
        {parameter forms})] with forms from 'pos' (a positional parameter), 'varargs', 'kwonly', 'kw' (the **kwargs
        dict).  Tells the directed search which ARGUMENT FORM of the method reaches the unlocked statement."""
        m = self.lockmap(cname, fn)
        self.outside_ops(cname, fn)
        nodes = [n for n, _ in self.touching_nodes(cname, fn) if id(n) not in m['locked']] + \
            list(self._outnodes.get((cname, id(fn)), []))
        parents = {}
        for n in ast.walk(fn):
            for c in ast.iter_child_nodes(n):
                parents[id(c)] = n
        a = fn.args
        form = {x.arg: 'pos' for x in a.posonlyargs + a.args}
        form.update({x.arg: 'kwonly' for x in a.kwonlyargs})
        if a.vararg:
            form[a.vararg.arg] = 'varargs'
        if a.kwarg:
            form[a.kwarg.arg] = 'kw'
        form.pop('self', None)
        out, seen = [], set()
        for n in nodes:
            reads, stmt, x = set(), None, n
            while x is not None and x is not fn:
                if isinstance(x, ast.stmt):
                    if stmt is None:
                        stmt = x
                    if isinstance(x, (ast.For, ast.AsyncFor)):
                        hdr = [x.iter, x.target]
                    elif isinstance(x, (ast.While, ast.If)):
                        hdr = [x.test]
                    elif isinstance(x, (ast.With, ast.Try, ast.FunctionDef)):
                        hdr = []
                    else:
                        hdr = [x]
                    for h in hdr:
                        reads |= {y.id for y in ast.walk(h) if isinstance(y, ast.Name) and y.id in form}
                x = parents.get(id(x))
            if stmt is not None and id(stmt) not in seen:
                seen.add(id(stmt))
                try:
                    txt = ast.unparse(stmt).split('\n')[0]
                except Exception:
                    txt = '?'
                out.append((getattr(stmt, 'lineno', 0), txt, sorted({form[r] for r in reads})))
        return sorted(out)

    @staticmethod
    def _is_callee(fn, attr_node):
        for n in ast.walk(fn):
            if isinstance(n, ast.Call) and n.func is attr_node:
                return True
        return False

    # ---- the table
    def public_methods(self):
        for cname in ('LRI', 'LRU'):
            for name, fn in self.classes.get(cname, {}).items():
                if name == '__init__' or self._private(name):
                    continue    # constructor (object not shared yet) and private helpers
                yield cname, name, fn

    def rows(self):
        rows = []
        for cname, name, fn in self.public_methods():
            m = self.lockmap(cname, fn)
            touch = self.touching_nodes(cname, fn)
            # `touches` keeps the old, coarse meaning: ANY reference to private state / helpers / dict mutators
            coarse = bool(touch) or any(isinstance(n, ast.Attribute) and _is_self(n.value) and self._private(n.attr)
                                        and n.attr != '_lock' for n in ast.walk(fn))
            outside = [w for n, w in touch if id(n) not in m['locked']]
            nops, why = self.outside_ops(cname, fn)
            region = bool(m['forms'])
            form = '+'.join(sorted(m['forms'])) or 'none'
            if m['irregular']:
                form += '+irregular'
            refs = [(w, True, False, id(n) in m['locked'], False) for n, w in touch]
            for n in ast.walk(fn):      # private references that are not touching: self-locking helpers
                if isinstance(n, ast.Attribute) and _is_self(n.value) and self._private(n.attr) and n.attr != '_lock' \
                        and not any(n is t for t, _ in touch):
                    refs.append(('self.%s (self-locking helper)' % n.attr, True, False, True, False))
            refs += [(w, False, True, lk, lp) for w, lk, lp in self._oprefs.get((cname, id(fn)), [])]
            # every lock region after the first on one path is one more separately atomic piece of the call
            extra = max(0, self.regions_on_a_path(cname, fn) - 1)
            refs += [('lock region no. %d on one path' % (i + 2), False, True, False, False) for i in range(extra)]
            nops += extra
            why += ['%d separate lock regions on one path' % (extra + 1)] * bool(extra)
            rows.append({'cls': cname, 'name': name, 'touches': coarse, 'refs': refs, 'irregular': m['irregular'],
                         'locked': region and not outside and not m['irregular'], 'region': region, 'form': form,
                         'outside_ops': nops, 'outside_touch': outside, 'outside_why': why})
        return rows

    @staticmethod
    def row_ok(r):
        """exactly what the Lean theorems all_state_methods_protected / public_methods_atomic demand"""
        if r['touches'] and not r['locked']:
            return False
        return r['outside_ops'] == 0 or (r['outside_ops'] == 1 and not r['region'] and not r['touches'])

    def lock_requiring_helpers(self):
        out = []
        for cname in ('LRI', 'LRU'):
            for name, fn in self.classes.get(cname, {}).items():
                if self._private(name) and not self.self_locking(cname, fn) and name not in out:
                    out.append(name)
        return out

    def helper_reached_unlocked(self):
        """(public or self-locking method, helper) pairs: a lock-requiring helper referenced outside a region"""
        need = set(self.lock_requiring_helpers())
        out = []
        for cname in ('LRI', 'LRU'):
            for name, fn in self.classes.get(cname, {}).items():
                if name == '__init__' or (self._private(name) and not self.self_locking(cname, fn)):
                    continue
                m = self.lockmap(cname, fn)
                for n in ast.walk(fn):
                    if isinstance(n, ast.Attribute) and _is_self(n.value) and n.attr in need and id(n) not in m['locked']:
                        out.append(('%s.%s' % (cname, name), n.attr))
        return out


def inherited_check(an):
    return [m for m in DICT_MUTATORS if m not in an.classes.get('LRI', {})]


class C03(Property):
    PID = 'C03'
    QUICK_BUDGET_S = 40
    THOROUGH_BUDGET_S = 800
    RULE = ('a case = cache class, max_size (1-3), on_miss, initial content, how the integer keys / values of the model are '
            'represented in the real run (ints; strings; key objects / str subclasses with Python-level __hash__ and __eq__; '
            'value objects with Python-level __eq__), 2-3 thread programs of 1-3 public-API operations each (24 kinds: item '
            'get/set/del, get, pop, popitem, setdefault, clear, update from pairs / a mapping / another cache / keyword '
            'arguments / pairs or a mapping plus keyword arguments, |=, == and != against a dict or another cache, copy, copy '
            'observed through dict order + class + capacity + eviction order, len / in / keys), and a schedule = every choice '
            'of the scheduler, whose scheduling points are the bytecode boundaries inside cacheutils AND the Python-level '
            '__hash__ / __eq__ callbacks C code makes under a method of the shared cache: a single (thorough: double) '
            'pre-emption placed at a given point, a focus schedule (victim thread pre-empted at its k-th point INSIDE a given '
            'method, the other threads then run as far as they get), or a seeded sticky random walk. Families, in this order: '
            '10 adversarial programs (keyword-form update against a writer of the same keys / a reader of several; == and != '
            'against a mix of the contents before and after a multi-key writer, over values / keys with Python-level __eq__; '
            'object keys under item operations) x every point inside the victim method; 19 fixed conflict programs x '
            'placements; every public method of the translator table in its call forms as focus victim against evicting / '
            'deleting / clearing / same-key-writing adversaries; random programs. Non-trivial = at least one pre-emption '
            'happened while some thread was inside a cache operation (a thread blocked on the lock or was switched out '
            'mid-operation); distinct = distinct (programs, representation, realised schedule).')
    ASSUMPTIONS = ['CPython pre-empts threads only between bytecode instructions (GIL); a C-level dict operation is atomic '
                   'EXCEPT where it calls back into Python-level code of keys / values (__hash__, __eq__) - those callbacks '
                   'are scheduling points of the harness and separate steps of the Lean model (Callbacks.lean)',
                   'threading.RLock is a correct re-entrant lock (replaced by a '
                   'scheduler-aware equivalent in the harness)', 'free-threaded builds are out of scope']
    EXTRA_TRUSTED = ['bv/sched.py opcode-level scheduler + lock-set monitor', 'C02 Lean model (the atomic step '
                     'function the linearised run is compared with)']
    CORRESPONDENCE_NAME = ('real interleaved run (results, final contents, eviction order, lock-set) vs Lean C02 '
                           'model stepping the same operations atomically in lock-acquisition order')

    def __init__(self, tier, seed):
        super().__init__(tier, seed)
        import boltons.cacheutils as cu
        self.cu = cu
        self._serial_cache = {}
        self._obs_cache = {}
        self._warm = False
        self._local = os.environ.get('BV_C03_CHILD') == '1'    # the child process runs the scheduled executions itself
        self._child = None

    def warm_up(self):
        """CPython 3.12 instruments a code object for per-opcode tracing lazily: the first traced execution
        of a function may deliver no opcode events.  Run every operation kind once under the scheduler and
        check that pre-emption points are being delivered before any case is judged."""
        if self._warm:
            return
        self._warm = True
        if not self._local:
            return          # the child process warms itself up when it starts
        ops = [['set', 1, 1], ['get', 1], ['getd', 2], ['set', 2, 1], ['set', 3, 1], ['del', 3], ['popd', 1],
               ['setdefault', 4, 1], ['update', [[1, 1], [2, 2]]], ['popitem'], ['copy'], ['eq', [[1, 1]]],
               ['get', 4], ['pop', 2], ['clear']]
        for rep in range(2):
            for cls in ('LRI', 'LRU'):
                for om in (False, True):
                    case = {'cls': cls, 'max': 2, 'on_miss': om, 'init': [], 'progs': [ops, ops],
                            'sched': {'kind': 'random', 'seed': rep, 'sticky': 0.8}}
                    obs = self.impl(case)
        self._obs_cache.clear()
        if obs.get('steps', 0) < 200:
            raise common.InfraError('opcode tracing is not delivering pre-emption points (steps=%r)' % obs.get('steps'))

    # ------------------------------------------------------------------ translator
    def regen(self):
        src = open(os.path.join(common.REPO, 'boltons', 'cacheutils.py')).read()
        an = LockAnalysis(ast.parse(src))
        self._analysis = an
        rows = an.rows()
        # methods whose discipline the Lean theorems will reject -> the deep search is directed at them
        self._flagged = [(r['cls'], r['name']) for r in rows if not an.row_ok(r)]
        self._state_funcs = an.lock_requiring_helpers()
        # which statements of the rejected methods are outside the lock, and through which argument form they are reached
        self._hints = {}
        for cname, name, fn in an.public_methods():
            if (cname, name) in self._flagged:
                self._hints[(cname, name)] = an.outside_statements(cname, fn)
        self._lock_anomaly = (not an.lock_assigned_in or any(c != 'RLock' for c in an.lock_ctors) or
                              any(w.split('.')[1] not in ('__init__', '__new__') for w in an.lock_assigned_in) or
                              bool(an.helper_reached_unlocked()) or bool(inherited_check(an)))
        for where in an.lock_assigned_in:       # a lock (re)created outside the constructor: aim at its callers
            hname = where.split('.')[1]
            if hname not in ('__init__', '__new__'):
                for cname, name, fn in an.public_methods():
                    if (name == hname or any(isinstance(n, ast.Attribute) and n.attr == hname for n in ast.walk(fn))) \
                            and (cname, name) not in self._flagged:
                        self._flagged.append((cname, name))
        inherited = [m for m in DICT_MUTATORS if m not in an.classes.get('LRI', {})]
        lines = ['/- GENERATED by harness/bv/props/c03.py from boltons/cacheutils.py (AST of LRI / LRU). Do not edit. -/',
                 'namespace Generated.C03', '',
                 '/-- one reference inside a method body, as read off the AST: `touch` = it refers to private state /',
                 '    a C-level dict mutator / the bare cache; `op` = it invokes a cache operation on self;',
                 '    `underLock` = it lies inside a lock region; `inLoop` = inside a loop or comprehension -/',
                 'structure Ref where', '  what : String', '  touch : Bool', '  op : Bool', '  underLock : Bool',
                 '  inLoop : Bool', 'deriving Repr, DecidableEq', '',
                 '/-- one public method of LRI / LRU (constructor and private helpers excluded).',
                 '    `touches`: its body refers to private state (ring, link table, any `self._x`), to a C-level dict',
                 '      mutator through `super()`, or iterates / hands out the bare cache;',
                 '    `locked`: it has a lock region (`with self._lock:` / `self._lock.acquire(); try: … finally:',
                 '      self._lock.release()` / a call of a private helper that is itself wholly locked) and NO such',
                 '      reference lies outside the lock regions; `region`: it has a lock region; `form`: how the lock',
                 '      is taken; `outsideOps`: number of cache operations (self[k], k in self, self.m(…), super().m(…),',
                 '      len(self), …; counted twice inside a loop) invoked outside every lock region. -/',
                 'structure Method where', '  cls : String', '  name : String',
                 '  touches : Bool', '  locked : Bool', '  region : Bool', '  form : String', '  outsideOps : Nat',
                 '  irregular : Bool', '  refs : List Ref',
                 'deriving Repr, DecidableEq', '',
                 'def methods : List Method := [']

        def b(x):
            return str(bool(x)).lower()
        for i, r in enumerate(rows):
            refs = ', '.join('⟨"%s", %s, %s, %s, %s⟩' % (w.replace('"', "'"), b(t), b(o), b(lk), b(lp))
                             for w, t, o, lk, lp in r['refs'])
            lines.append('  ⟨"%s", "%s", %s, %s, %s, "%s", %d, %s,\n    [%s]⟩%s' % (
                r['cls'], r['name'], b(r['touches']), b(r['locked']), b(r['region']), r['form'], r['outside_ops'],
                b(r['irregular']), refs, ',' if i < len(rows) - 1 else ''))
        lines += [']', '', '/-- dict mutators that LRI does not override (they would bypass the ring and the lock) -/',
                  'def inheritedMutators : List String := [%s]' % ', '.join('"%s"' % m for m in inherited), '',
                  '/-- the methods that assign `self._lock`, and the callables they assign -/',
                  'def lockAssignedIn : List String := [%s]' % ', '.join('"%s"' % m for m in an.lock_assigned_in),
                  'def lockCtors : List String := [%s]' % ', '.join('"%s"' % m for m in an.lock_ctors), '',
                  '/-- private helpers that must only run under the lock (they touch state and take no lock themselves),',
                  '    and the public / self-locking methods from which each is reachable OUTSIDE a lock region -/',
                  'def helpersNeedingLock : List String := [%s]' % ', '.join('"%s"' % m for m in self._state_funcs),
                  'def helperReachedUnlocked : List (String × String) := [%s]' % ', '.join(
                      '("%s", "%s")' % p for p in an.helper_reached_unlocked()), '',
                  'end Generated.C03', '']
        return {'C03_CacheLocks.lean': '\n'.join(lines)}

    # ------------------------------------------------------------------ generation
    KEYS = [1, 2, 3, 4]

    def rand_op(self, rng, on_miss, kw_ok=False):
        k = rng.choice(self.KEYS)
        r = rng.random()
        pairs = [[rng.choice(self.KEYS), rng.randint(0, 9)] for _ in range(rng.randint(1, 3))]
        kwp = [[rng.choice(self.KEYS), rng.randint(0, 9)] for _ in range(rng.randint(1, 3))]
        kwform = [['updatek', [], kwp], ['updatek', pairs, kwp], ['updatekd', pairs, kwp]][rng.randrange(3)] \
            if kw_ok else ['updated', pairs + kwp]
        table = [(0.20, ['set', k, rng.randint(0, 9)]), (0.04, kwform), (0.01, ['eqc', pairs]), (0.01, ['nec', pairs]), (0.10, ['get', k]), (0.09, ['getd', k]), (0.06, ['del', k]),
                 (0.05, ['popd', k]), (0.02, ['pop', k]), (0.07, ['setdefault', k, rng.randint(0, 9)]),
                 (0.04, ['update', pairs]), (0.03, ['updated', pairs]), (0.03, ['updatec', pairs]),
                 (0.02, ['ior', pairs]), (0.04, ['popitem']), (0.03, ['clear']), (0.03, ['copy']),
                 (0.03, ['copyp']), (0.03, ['len']), (0.03, ['contains', k]), (0.01, ['keys']),
                 (0.02, ['eq', pairs[:1]]), (0.01, ['ne', pairs[:1]])]
        acc = 0.0
        for w, op in table:
            acc += w
            if r < acc:
                return op
        return ['set', k, 0]

    def rand_programs(self, rng, nthreads, maxops):
        cls = rng.choice(['LRI', 'LRU'])
        m = rng.choice([1, 2, 2, 3])
        on_miss = rng.random() < 0.3
        init = [[k, 0] for k in rng.sample(self.KEYS, rng.randint(0, min(m, 3)))]
        # how the model's integer keys / values are represented in the real run
        kk = rng.choice(['int'] * 6 + ['str', 'str', 'obj', 'strobj'])
        vk = rng.choice(['int', 'int', 'int', 'obj'])
        progs = [[self.rand_op(rng, on_miss, kk in KW_KEY_KINDS) for _ in range(rng.randint(1, maxops))]
                 for _ in range(nthreads)]
        base = {'cls': cls, 'max': m, 'on_miss': on_miss, 'init': init, 'progs': progs}
        if kk != 'int':
            base['keys'] = kk
        if vk != 'int':
            base['vals'] = vk
        return base

    FIXED = [
        # eviction race: both threads insert a new key into a full cache
        {'cls': 'LRU', 'max': 2, 'on_miss': False, 'init': [[1, 0], [2, 0]], 'progs': [[['set', 3, 1]], [['set', 4, 2]]]},
        {'cls': 'LRI', 'max': 1, 'on_miss': False, 'init': [], 'progs': [[['set', 1, 1], ['set', 2, 1]], [['set', 3, 2]]]},
        # lookup that reorders vs insert that evicts
        {'cls': 'LRU', 'max': 2, 'on_miss': False, 'init': [[1, 0], [2, 0]], 'progs': [[['get', 1]], [['set', 3, 5]]]},
        # on_miss insertion vs delete
        {'cls': 'LRU', 'max': 2, 'on_miss': True, 'init': [[1, 0]], 'progs': [[['get', 2]], [['del', 1], ['set', 2, 9]]]},
        {'cls': 'LRI', 'max': 2, 'on_miss': False, 'init': [[1, 0], [2, 0]], 'progs': [[['pop', 1]], [['update', [[3, 1], [4, 1]]]]]},
        {'cls': 'LRU', 'max': 2, 'on_miss': False, 'init': [[1, 0], [2, 0]], 'progs': [[['copy']], [['set', 3, 1], ['del', 2]]]},
        {'cls': 'LRI', 'max': 2, 'on_miss': False, 'init': [[1, 0]], 'progs': [[['setdefault', 2, 5]], [['setdefault', 2, 6]], [['popitem']]]},
        {'cls': 'LRU', 'max': 2, 'on_miss': False, 'init': [[1, 0], [2, 0]], 'progs': [[['clear']], [['set', 3, 1]]]},
        # update() fed from another cache / a mapping while a second thread deletes and re-inserts
        {'cls': 'LRU', 'max': 2, 'on_miss': False, 'init': [[1, 0], [2, 0]], 'progs': [[['updatec', [[3, 1], [1, 5]]]], [['del', 1], ['set', 4, 2]]]},
        {'cls': 'LRI', 'max': 2, 'on_miss': False, 'init': [[1, 0]], 'progs': [[['updated', [[2, 1], [3, 1]]]], [['ior', [[4, 2]]]]]},
        # setdefault on a cache with on_miss (nested __getitem__ -> on_miss -> __setitem__) vs eviction
        {'cls': 'LRU', 'max': 2, 'on_miss': True, 'init': [[1, 0], [2, 0]], 'progs': [[['setdefault', 3, 5]], [['set', 4, 1], ['get', 1]]]},
        {'cls': 'LRI', 'max': 1, 'on_miss': True, 'init': [[1, 0]], 'progs': [[['getd', 2]], [['setdefault', 3, 1]]]},
        # copy() (items, dict order, eviction order of the copy) while the source is mutated
        {'cls': 'LRU', 'max': 3, 'on_miss': False, 'init': [[1, 0], [2, 0], [3, 0]], 'progs': [[['copyp']], [['get', 1], ['set', 4, 1]]]},
        {'cls': 'LRI', 'max': 2, 'on_miss': False, 'init': [[1, 0], [2, 0]], 'progs': [[['copyp']], [['pop', 1], ['set', 3, 3]]]},
        # three threads
        {'cls': 'LRU', 'max': 2, 'on_miss': False, 'init': [[1, 0], [2, 0]], 'progs': [[['set', 3, 1]], [['get', 1]], [['del', 2]]]},
        {'cls': 'LRI', 'max': 2, 'on_miss': True, 'init': [[1, 0]], 'progs': [[['get', 2]], [['set', 3, 1]], [['popitem']]]},
        {'cls': 'LRU', 'max': 1, 'on_miss': False, 'init': [[1, 0]], 'progs': [[['get', 1]], [['set', 2, 2]], [['setdefault', 1, 4]]]},
        # unlocked inherited readers racing with an evicting insert (known finding C03-readers)
        {'cls': 'LRU', 'max': 2, 'on_miss': False, 'init': [[1, 0], [2, 0]], 'progs': [[['set', 3, 1]], [['len']]]},
        {'cls': 'LRI', 'max': 2, 'on_miss': False, 'init': [[1, 0], [2, 0]], 'progs': [[['set', 3, 1]], [['contains', 1], ['contains', 3]]]},
    ]

    # Small adversarial families generated FIRST in the stream.  (victim thread 0, the method pre-empted, base case):
    # the victim is pre-empted at EVERY scheduling point inside that method (opcode boundaries inside cacheutils and
    # the Python-level __hash__ / __eq__ callbacks of keys and values), the other thread(s) then run.
    ADVERSARIAL = [
        # keyword-form update(): two writers with overlapping keys (a mix of the two is no sequential outcome)
        ('update', {'cls': 'LRU', 'max': 3, 'on_miss': False, 'init': [], 'keys': 'str',
                    'progs': [[['updatek', [], [[1, 1], [2, 2]]]], [['updated', [[1, 7], [2, 9]]]]]}),
        ('update', {'cls': 'LRI', 'max': 2, 'on_miss': False, 'init': [[1, 0]], 'keys': 'str',
                    'progs': [[['updatek', [[1, 1]], [[2, 2], [3, 3]]]], [['updatek', [], [[2, 7], [3, 9]]]]]}),
        ('update', {'cls': 'LRU', 'max': 2, 'on_miss': False, 'init': [[1, 0], [2, 0]], 'keys': 'strobj', 'vals': 'obj',
                    'progs': [[['updatekd', [[1, 5]], [[2, 5]]]], [['copy']]]}),
        ('update', {'cls': 'LRI', 'max': 3, 'on_miss': False, 'init': [[3, 0]], 'keys': 'str',
                    'progs': [[['updatek', [], [[1, 1], [2, 1], [3, 1]]]], [['eq', [[1, 1], [2, 1], [3, 0]]], ['del', 1]]]}),
        # == / != while a writer replaces several values: stored values (keys) with a Python-level __eq__ make the
        # comparison pre-emptible between two items; the comparand is a mix of the contents before and after
        ('__eq__', {'cls': 'LRU', 'max': 2, 'on_miss': False, 'init': [[1, 0], [2, 0]], 'vals': 'obj',
                    'progs': [[['eq', [[1, 0], [2, 5]]]], [['update', [[1, 5], [2, 5]]]]]}),
        ('__eq__', {'cls': 'LRI', 'max': 3, 'on_miss': False, 'init': [[1, 0], [2, 0], [3, 0]], 'vals': 'obj', 'keys': 'obj',
                    'progs': [[['eqc', [[1, 0], [2, 0], [3, 4]]]], [['updated', [[1, 4], [2, 4], [3, 4]]]]]}),
        ('__ne__', {'cls': 'LRI', 'max': 2, 'on_miss': False, 'init': [[1, 0], [2, 0]], 'keys': 'obj',
                    'progs': [[['ne', [[1, 0], [2, 5]]]], [['updatec', [[1, 5], [2, 5]]]]]}),
        ('__ne__', {'cls': 'LRU', 'max': 3, 'on_miss': False, 'init': [[1, 0], [2, 0], [3, 0]], 'vals': 'obj', 'keys': 'strobj',
                    'progs': [[['nec', [[1, 0], [2, 7], [3, 7]]]], [['updatek', [[2, 7]], [[1, 7], [3, 7]]]]]}),
        # keys with a Python-level __hash__ / __eq__ under the ordinary item operations (every lookup is pre-emptible)
        ('__setitem__', {'cls': 'LRU', 'max': 2, 'on_miss': False, 'init': [[1, 0], [2, 0]], 'keys': 'obj',
                         'progs': [[['set', 3, 1]], [['set', 4, 2], ['get', 1]]]}),
        ('get', {'cls': 'LRI', 'max': 1, 'on_miss': True, 'init': [[1, 0]], 'keys': 'obj', 'vals': 'obj',
                 'progs': [[['getd', 2]], [['setdefault', 3, 1]]]}),
    ]

    def adversarial_cases(self, only=None, stride_after=40):
        live = [(base, 0, fn) for fn, base in self.ADVERSARIAL if only is None or fn in only]
        yield from self._focus_sweep(live, list(range(0, stride_after)) + list(range(stride_after, 600, 3)))

    def _focus_sweep(self, live, ks, tails=0):
        for k in ks:
            nxt = []
            for base, victim, fn in live:
                case = dict(base, sched={'kind': 'focus', 'victim': victim, 'fn': fn, 'k': k})
                obs = self.impl(case)
                yield case
                if obs.get('focus_hit'):
                    nxt.append((base, victim, fn))
                    for _ in range(tails):
                        yield dict(base, sched={'kind': 'focus', 'victim': victim, 'fn': fn, 'k': k,
                                                'tail': self.rng.randrange(1 << 30)})
            live = nxt
            if not live:
                return

    def schedules_for(self, base, rng, systematic, nrandom, dense=False):
        """yield cases = base + schedule"""
        n = len(base['progs'])
        if systematic:
            # measure the length of an unpreempted run, then place one pre-emption at every step
            for first in range(n):
                probe = dict(base, sched={'kind': 'preempt', 'first': first, 'points': []})
                obs = self.impl(probe)
                steps = obs.get('steps', 0)
                stride = 1 if self.thorough else max(1, steps // (60 if dense else 35))
                off = 0 if self.thorough else self.rng.randrange(stride)
                for p in range(off, steps, stride):
                    yield dict(base, sched={'kind': 'preempt', 'first': first, 'points': [p]})
                if self.thorough and n == 2 and steps < 500:
                    pts = list(range(0, steps, max(1, steps // 25)))
                    for a, b in itertools.combinations(pts, 2):
                        yield dict(base, sched={'kind': 'preempt', 'first': first, 'points': [a, b]})
        for _ in range(nrandom):
            yield dict(base, sched={'kind': 'random', 'seed': rng.randrange(1 << 30),
                                    'sticky': rng.choice([0.5, 0.9, 0.97])})

    def cases(self, budget_s):
        rng = self.rng
        self.warm_up()
        # (0) the small adversarial families first: keyword-form update, == / != over values and keys with Python-level
        #     __eq__ / __hash__ (pre-emption inside the C-level dict call), every scheduling point inside the victim
        yield from self.adversarial_cases()
        # (1) fixed conflict programs: EVERY single pre-emption placement (thorough: also pairs) + random walks
        for base in self.FIXED + ([b for _f, b in self.ADVERSARIAL] if self.thorough else []):
            yield from self.schedules_for(base, rng, systematic=True, nrandom=10 if not self.thorough else 60,
                                          dense=True)
        # (2) every public method of the translator's table as the victim of a pre-emption at its k-th own
        #     instruction, against an evicting / deleting / clearing second thread
        table = [(r['cls'], r['name']) for r in (self._analysis.rows() if getattr(self, '_analysis', None) else [])]
        # (2a) clear() re-initialises all private state: overlap it with waiters, then let the victim / a third thread
        #      go on (pre-emption inside clear, then a seeded random tail)
        yield from self.focus_cases([t for t in table if t[1] == 'clear'], full=self.thorough, tails=2, followup=True,
                                    stride=1 if self.thorough else 3)
        if not self.thorough:
            yield from self.focus_cases(table, full=False, stride=3)
        # (3) random programs (2-3 threads) x sticky random walks
        n = 150 if not self.thorough else 3000
        for i in range(n):
            base = self.rand_programs(rng, rng.choice([2, 2, 3]), 2 if i % 3 else 3)
            yield from self.schedules_for(base, rng, systematic=(self.thorough and i % 10 == 0),
                                          nrandom=6 if not self.thorough else 12)
        if self.thorough:       # the largest family last: all sizes, keys, adversaries, every k (may be cut by the budget)
            yield from self.focus_cases(table, full=True, stride=1)

    # ---- directed search: pre-empt INSIDE the methods the translator reports as not (wholly) protected
    @staticmethod
    def ops_for(name, k, full=True, forms=()):
        """the calls of public method `name` on key k, in EVERY argument form the harness has (full), else one per
        method; `forms` = the parameter forms through which the translator says an unlocked statement is reached
        ('kw': the **kwargs dict, 'pos': a positional parameter): those call forms come first / are the ones kept"""
        k2 = k % 4 + 1
        upd = [['update', [[k, 7], [k2, 8]]], ['updatek', [], [[k, 7], [k2, 8]]], ['updatek', [[k, 7]], [[k2, 8], [3, 8]]],
               ['updatekd', [[k2, 8]], [[k, 7], [3, 7]]], ['updated', [[k, 7], [k2, 8]]], ['updatec', [[k, 7], [k2, 8]]]]
        if 'kw' in forms:
            upd = [o for o in upd if o[0] in ('updatek', 'updatekd')] + \
                ([o for o in upd if o[0] not in ('updatek', 'updatekd')] if full else [])
        elif not full:
            upd = upd[:2]
        ops = {'__getitem__': [['get', k]], 'get': [['getd', k]], '__setitem__': [['set', k, 7]],
               '__delitem__': [['del', k]], 'pop': [['popd', k], ['pop', k]], 'popitem': [['popitem']],
               'clear': [['clear']], 'copy': [['copy'], ['copyp']], 'setdefault': [['setdefault', k, 7]],
               'update': upd, '__ior__': [['ior', [[k, 7], [k2, 8]]]],
               '__eq__': [['eq', [[k, 0]]], ['eqc', [[k, 0]]]], '__ne__': [['ne', [[k, 0]]], ['nec', [[k, 0]]]],
               '__contains__': [['contains', k]],
               '__len__': [['len']], 'keys': [['keys']], '__iter__': [['keys']]}.get(name, [])
        return ops if full or name == 'update' else ops[:1]

    @staticmethod
    def _mixes(kind, m, after=5):
        """== / != of a cache {1: 0 … m: 0} against the first j items unchanged and the rest already replaced by
        `after` - contents the cache has neither before nor after the writer that replaces ALL values"""
        return [([kind, [[i, 0] for i in range(1, j + 1)] + [[i, after] for i in range(j + 1, m + 1)]],
                 [['update', [[i, after] for i in range(1, m + 1)]]]) for j in range(1, m)]

    def focus_bases(self, flagged, full=True):
        """(base case, victim tid, method name) for every method in `flagged` = [(cls, name)]"""
        out = []
        hints = getattr(self, '_hints', None) or {}
        for cls, name in flagged:
            classes = [cls] if cls == 'LRU' else ['LRI', 'LRU']
            oms = [False, True] if name in ('__getitem__', 'get', 'setdefault') else [False]
            forms = {f for _ln, _txt, fs in hints.get((cls, name), []) for f in fs}
            for c in classes:
                if c == 'LRU' and cls == 'LRI' and name in self._analysis.classes.get('LRU', {}):
                    continue        # overridden: LRU has its own row
                for m in ((1, 2, 3) if full else (2,)):
                    init = [[k, 0] for k in range(1, m + 1)]
                    fresh = [[5 + i, 1] for i in range(m)]
                    for om in (oms if full else oms[-1:]):
                        if name in ('__eq__', '__ne__'):
                            # whole-dict comparison against a mix of the contents before / after a writer; values and
                            # keys with a Python-level __eq__ are what makes the comparison pre-emptible
                            for kind in (['eq', 'eqc'] if name == '__eq__' else ['ne', 'nec'])[:2 if full else 1]:
                                for vop, adv in self._mixes(kind, max(m, 2)):
                                    for kinds in ({'vals': 'obj'}, {'keys': 'obj'}, {'keys': 'strobj', 'vals': 'obj'}):
                                        out.append((dict({'cls': c, 'max': max(m, 2), 'on_miss': om,
                                                          'init': [[k, 0] for k in range(1, max(m, 2) + 1)],
                                                          'progs': [[vop], adv]}, **kinds), 0, name))
                        for key in (sorted({1, m, 4}) if full else [1]):
                            for vop in self.ops_for(name, key, full, forms):
                                advs = [[['update', fresh]], [['set', p[0], p[1]] for p in fresh], [['del', key]],
                                        [['clear']], [['set', key, 9]], [['popitem']], [vop]]
                                if not full:
                                    advs = [advs[0], advs[2], advs[3]]
                                if vop[0] in ('update', 'updated', 'updatec', 'updatek', 'updatekd', 'ior'):
                                    # a second writer of the SAME keys (a mix of the two is no sequential outcome), and
                                    # a reader of several of them
                                    ks = list(dict.fromkeys(q[0] for part in vop[1:] for q in part))
                                    advs = [[['updated', [[q, 9] for q in ks]]], [['copy']]] + advs
                                if vop[0] in ('updatek', 'updatekd'):
                                    kindss = [{'keys': 'str'}] + ([{'keys': 'strobj', 'vals': 'obj'}] if full else [])
                                elif full and name in ('__setitem__', '__getitem__', '__delitem__', 'pop', 'get',
                                                       'setdefault', 'update', '__eq__', '__ne__'):
                                    kindss = [{}, {'keys': 'obj', 'vals': 'obj'}]
                                else:
                                    kindss = [{}]
                                for adv in advs:
                                    for kinds in kindss:
                                        out.append((dict({'cls': c, 'max': m, 'on_miss': om, 'init': init,
                                                          'progs': [[vop], adv]}, **kinds), 0, name))
        return out

    def focus_cases(self, flagged, max_k=400, full=True, stride=1, tails=0, followup=False):
        live = self.focus_bases(flagged, full)
        if followup:
            # the victim goes on with a second operation and a third thread joins: needed when the damage done inside
            # the victim's method only shows later (e.g. a lock swapped by clear(): a waiter on the OLD lock and a
            # newcomer on the NEW one are then both inside)
            more = []
            for base, victim, fn in live:
                m = base['max']
                p0, p1 = base['progs']
                more.append((dict(base, progs=[p0 + [['set', 7, 3]], p1]), victim, fn))
                more.append((dict(base, progs=[p0, p1, [['set', 8, 4], ['get', 1]]]), victim, fn))
            live = more + live
        self.rng.shuffle(live)
        live.sort(key=lambda b: b[0]['max'])          # boundary size first
        off = self.rng.randrange(stride) if stride > 1 else 0
        yield from self._focus_sweep(live, range(off, max_k, stride), tails)

    def deep_cases(self, budget_s):
        rng = self.rng
        self.warm_up()
        flagged = getattr(self, '_flagged', None) or []
        if flagged:
            self.stats['directed_at'] = ['%s.%s' % f for f in flagged]
            self.stats['directed_statements'] = {'%s.%s' % k: [list(x) for x in v]
                                                 for k, v in (getattr(self, '_hints', None) or {}).items()}
            names = {n for _c, n in flagged} | ({'__ne__'} if any(n == '__eq__' for _c, n in flagged) else set())
            # first the hand-written adversarial programs of exactly the rejected methods, then the generated ones in
            # the call forms that reach the statements the translator found outside the lock (boundary size only)
            yield from self.adversarial_cases(only=names)
            yield from self.focus_cases(flagged, full=False)
            if getattr(self, '_lock_anomaly', False):
                yield from self.focus_cases(flagged, full=False, tails=3, followup=True, stride=2)
            yield from self.focus_cases(flagged)
            yield from self.focus_cases(flagged, full=False, tails=2, followup=True)
        for base in self.FIXED:
            yield from self.schedules_for(base, rng, systematic=True, nrandom=40)
        while True:
            base = self.rand_programs(rng, rng.choice([2, 3]), 3)
            yield from self.schedules_for(base, rng, systematic=rng.random() < 0.3, nrandom=10)

    # ------------------------------------------------------------------ implementation under the scheduler
    def chooser(self, sd, n):
        import random as _r
        if sd['kind'] == 'list':
            ch = list(sd['choices'])

            def choose(step, runnable):
                return ch[step] if step < len(ch) and ch[step] in runnable else runnable[0]
            return choose
        if sd['kind'] == 'random':
            r = _r.Random(sd['seed'])
            sticky = sd.get('sticky', 0.9)
            state = {'cur': None}

            def choose(step, runnable):
                if state['cur'] in runnable and r.random() < sticky:
                    return state['cur']
                state['cur'] = r.choice(runnable)
                return state['cur']
            return choose
        if sd['kind'] == 'focus':
            # pre-empt the victim thread INSIDE method `fn`: let it run until it has executed `k` instructions
            # while `fn` is on its stack (helpers called from `fn` count), then run the other threads (each as far
            # as it gets: to completion or until it blocks on the lock), then resume the victim.  `again` = number
            # of instructions after which the victim is pre-empted a second time (None = never).
            victim, fn, k = sd['victim'], sd['fn'], sd['k']
            tail = _r.Random(sd['tail']) if sd.get('tail') is not None else None
            st = {'phase': 0, 'count': 0, 'hit': False, 'cur': None, 'sched': None}

            def choose(step, runnable):
                s_ = st['sched']
                if st['phase'] == 0:
                    if victim not in runnable:
                        return runnable[0]
                    w = s_.where[victim] if s_ is not None else None
                    if w and fn in w:
                        if st['count'] >= k:
                            st['phase'] = 1
                            st['hit'] = True
                        else:
                            st['count'] += 1
                            return victim
                    else:
                        return victim
                if st['phase'] == 1:
                    others = [t for t in runnable if t != victim]
                    if others:
                        if st['cur'] not in others:
                            st['cur'] = others[0]
                        return st['cur']
                    st['phase'] = 2
                if tail is not None:        # afterwards: a seeded sticky random walk over whoever can run
                    if st['cur'] in runnable and tail.random() < 0.8:
                        return st['cur']
                    st['cur'] = tail.choice(runnable)
                    return st['cur']
                return victim if victim in runnable else runnable[0]

            def attach(s_):
                st['sched'] = s_
                s_.track_stack = True
            choose.attach = attach
            choose.state = st
            return choose
        # preempt: run `first` (then round-robin) and switch to the next runnable thread at the given steps
        pts = set(sd['points'])
        state = {'cur': sd['first']}

        def choose(step, runnable):
            if step in pts or state['cur'] not in runnable:
                later = [t for t in runnable if t > state['cur']] + [t for t in runnable if t <= state['cur']]
                nxt = [t for t in later if t != state['cur']] or later
                state['cur'] = nxt[0]
            return state['cur']
        return choose

    # Every scheduled execution of the real code runs in a CHILD PROCESS (one long-lived child, JSON lines over pipes):
    # if the code under test - or CPython's tracing machinery under it - kills the interpreter (signal, os._exit,
    # abort) or blocks for good, that is an OBSERVATION of the case ('died': 'signal 11' / 'exit 3' / 'timeout'), the
    # parent survives, restarts the child, and the decision logic still runs.
    CHILD_REPLY_TIMEOUT_S = 400

    def _start_child(self):
        env = dict(os.environ, BV_C03_CHILD='1')
        code = 'from bv.props.c03 import child_main; child_main()'
        self._child = subprocess.Popen([sys.executable, '-u', '-c', code, self.tier, str(self.seed)],
                                       stdin=subprocess.PIPE, stdout=subprocess.PIPE, env=env)
        atexit.register(self._stop_child)
        line = self._read_child(120)
        if line is None or line.get('ready') is not True:
            self._stop_child()
            raise common.InfraError('C03 child process did not start: %r' % (line,))

    def _stop_child(self):
        c, self._child = self._child, None
        if c is not None:
            try:
                c.kill()
                c.wait(timeout=10)
            except Exception:
                pass

    def _read_child(self, timeout):
        c = self._child
        r, _, _ = select.select([c.stdout], [], [], timeout)
        if not r:
            return None
        line = c.stdout.readline()
        if not line:
            return None
        try:
            return json.loads(line)
        except ValueError:
            return None

    def _ask_child(self, case):
        """observation of `case` from the child, or {'died': how} if the child was killed by it"""
        if self._child is None or self._child.poll() is not None:
            self._start_child()
        c = self._child
        try:
            c.stdin.write((json.dumps(case) + '\n').encode())
            c.stdin.flush()
            reply = self._read_child(self.CHILD_REPLY_TIMEOUT_S)
        except (BrokenPipeError, OSError):
            reply = None
        if reply is not None and 'obs' in reply:
            return reply['obs']
        rc = c.poll()
        if rc is None:
            how = 'timeout (no answer within %d s; killed)' % self.CHILD_REPLY_TIMEOUT_S
        else:
            how = ('signal %d' % -rc) if rc < 0 else ('exit %d' % rc)
        self._stop_child()
        return {'died': how, 'results': [], 'steps': 0}

    def impl(self, case):
        if self._local:
            return self._impl_local(case)
        key = self.key(case)
        if key in self._obs_cache:
            return self._obs_cache[key]
        if getattr(self, '_deaths_in_a_row', 0) >= 5:      # the child dies on everything: do not spawn two per case
            obs = {'died': 'not attempted: the child process died on each of the 5 preceding cases', 'results': [],
                   'steps': 0}
            self._obs_cache[key] = obs
            return obs
        obs = self._ask_child(case)
        self._deaths_in_a_row = (getattr(self, '_deaths_in_a_row', 0) + 1) if 'died' in obs else 0
        if 'died' in obs:                       # once more, in a fresh child
            self.stats['child_died'] = self.stats.get('child_died', 0) + 1
            first = obs['died']
            obs = self._ask_child(case)
            if 'died' in obs:
                obs['died_first'] = first
            else:
                self.stats['child_died_not_reproduced'] = self.stats.get('child_died_not_reproduced', 0) + 1
        if obs.get('step_limit'):
            # a run that hit the step limit leaves its workers parked in the child for good (sched.dispatch): start a
            # fresh child now and then so that they do not pile up
            self._frozen_runs = getattr(self, '_frozen_runs', 0) + 1
            if self._frozen_runs % 100 == 0:
                self._stop_child()
        if len(self._obs_cache) > 20000:
            self._obs_cache.clear()
        self._obs_cache[key] = obs
        return obs

    def _impl_local(self, case):
        if not self._warm:
            self.warm_up()
        key = self.key(case)
        if key in self._obs_cache:
            return self._obs_cache[key]
        cu = self.cu
        obs = {}
        try:
            K, V = codec(case)
            progs = [[(lambda c, op=op: canon(apply_op(c, op, K, V))) for op in p] for p in case['progs']]
            ch = self.chooser(case['sched'], len(progs))
            with time_limit(30):
                r = sched.run(cu, progs, ch,
                              lambda: mk_cache(cu, case['cls'], case['max'], case['on_miss'], case['init'], K, V),
                              max_steps=60000, state_funcs=getattr(self, '_state_funcs', None))
            cache = r['cache']
            obs = {'results': r['results'], 'steps': r['steps'], 'deadlock': r['deadlock'],
                   'step_limit': r['step_limit'], 'acquire_log': r['acquire_log'],
                   'lockset': [list(x) for x in r['lockset_violations']],
                   'switches': sum(1 for a, b in zip(r['schedule'], r['schedule'][1:]) if a != b),
                   'schedule_len': len(r['schedule'])}
            if r.get('stuck'):
                obs['stuck'] = True
            if r.get('foreign_acquires'):
                obs['foreign_acquires'] = r['foreign_acquires']
            if r.get('user_points'):
                obs['user_points'] = r['user_points']
            if hasattr(ch, 'state'):
                obs['focus_hit'] = bool(ch.state['hit'])
            try:
                with time_limit(5):
                    obs['final'] = sorted(canon(list(dict.items(cache))))
                    obs['len'] = len(cache)
                    obs['order'] = probe_order(cache, case['max'], K, V)
            except Exception as e:  # cache unusable afterwards
                obs['unusable'] = exc_name(e)
        except Exception as e:
            obs = {'exc': exc_name(e), 'results': [], 'steps': 0}
        if len(self._obs_cache) > 20000:
            self._obs_cache.clear()
        self._obs_cache[key] = obs
        return obs

    # ------------------------------------------------------------------ independent oracle: real serial runs
    def serial_outcomes(self, case):
        k = self.key({k2: v for k2, v in case.items() if k2 != 'sched'})
        if k in self._serial_cache:
            return self._serial_cache[k]
        cu = self.cu
        outs = {}
        K, V = codec(case)
        for order in merges(case['progs']):
            c = mk_cache(cu, case['cls'], case['max'], case['on_miss'], case['init'], K, V)
            idx = [0] * len(case['progs'])
            res = [[] for _ in case['progs']]
            for t in order:
                op = case['progs'][t][idx[t]]
                idx[t] += 1
                try:
                    res[t].append(['ok', canon(apply_op(c, op, K, V))])
                except Exception as e:
                    res[t].append(['exc', exc_name(e)])
            final = sorted(canon(list(dict.items(c))))
            order_probe = probe_order(c, case['max'], K, V)
            outs[self._okey(res, final, order_probe)] = order
        if len(self._serial_cache) > 5000:
            self._serial_cache.clear()
        self._serial_cache[k] = outs
        return outs

    @staticmethod
    def _okey(res, final, order):
        import json
        return json.dumps([res, final, order], sort_keys=True)

    def _mask_readers(self, case, res):
        out = []
        for t, rs in enumerate(res):
            row = []
            for i, r in enumerate(rs):
                op = case['progs'][t][i] if i < len(case['progs'][t]) else ['?']
                row.append(['reader'] if op[0] in READERS else r)
            out.append(row)
        return out

    def oracle(self, case, obs):
        self._nt = False
        if 'exc' in obs:
            return Failure('harness', 'scheduled run failed: %s' % obs['exc'])
        if 'died' in obs:
            # the interpreter running this case was killed, twice.  When the lock discipline read off the source is
            # already rejected, that is behaviour of the changed code worth reporting (a cache operation that takes
            # the interpreter down is an exception no sequential run raises / an unusable cache); on a tree whose
            # discipline is intact it is a problem of the machinery, not a verdict.
            if getattr(self, '_flagged', None) or getattr(self, '_lock_anomaly', False):
                return Failure('crash', 'the process executing this case died (%s; first attempt: %s)' % (
                    obs['died'], obs.get('died_first')))
            raise common.InfraError('C03 child process died twice on case %r: %s' % (case, obs['died']))
        if obs.get('stuck'):
            return Failure('deadlock', 'a thread blocked outside the scheduler for 60 s (schedule %r)' % (case['sched'],))
        if obs.get('deadlock'):
            return Failure('deadlock', 'all threads blocked (schedule %r)' % (case['sched'],))
        if obs.get('step_limit'):
            return Failure('livelock', 'the run exceeded the limit of 60000 scheduling points: under this schedule an '
                           'operation does not terminate (results so far %r)' % (obs.get('results'),))
        if 'unusable' in obs:
            return Failure('unusable', 'cache unusable after the run: %s' % obs['unusable'])
        if obs['len'] > case['max'] or 'OVER' in obs['order']:
            return Failure('exceeds_max', 'len %d > max_size %d after the run' % (obs['len'], case['max']))
        serial = self.serial_outcomes(case)
        self._nt = obs.get('switches', 0) >= 1 and obs['steps'] > 0
        self.stats['runs'] = self.stats.get('runs', 0) + 1
        self.stats['steps'] = self.stats.get('steps', 0) + obs['steps']
        self.stats['switches'] = self.stats.get('switches', 0) + obs.get('switches', 0)
        if obs.get('user_points'):
            self.stats['user_points'] = self.stats.get('user_points', 0) + obs['user_points']
            self.stats['runs_with_user_points'] = self.stats.get('runs_with_user_points', 0) + 1
        if self._okey(obs['results'], obs['final'], obs['order']) in serial:
            return None
        # not a serial outcome.  Is the deviation confined to unlocked inherited readers?
        masked = {self._okey(self._mask_readers(case, __import__('json').loads(k)[0]),
                             __import__('json').loads(k)[1], __import__('json').loads(k)[2]) for k in serial}
        if self._okey(self._mask_readers(case, obs['results']), obs['final'], obs['order']) in masked:
            return Failure('reader_not_atomic', 'an unlocked inherited reader (len / in / keys) returned a value no '
                           'sequential execution gives: results %r' % (obs['results'],))
        return Failure('not_serializable', 'results %r final %r order %r is not the outcome of any of the %d sequential '
                       'executions' % (obs['results'], obs['final'], obs['order'], len(serial)))

    def nontrivial(self, case, obs):
        return getattr(self, '_nt', False)

    # known finding: len()/in/keys() are inherited from dict, take no lock and can observe the intermediate
    # state of a concurrent locked operation (e.g. between the eviction and the insertion of __setitem__)
    def finding_reader_not_atomic(self, case, failure):
        return failure.tag == 'reader_not_atomic'

    # ------------------------------------------------------------------ correspondence with the Lean C02 model
    @staticmethod
    def _ptxt(pairs):
        return ','.join('%d.%d' % (k, v) for k, v in pairs) or '-'

    def line(self, case):
        obs = self._obs_cache.get(self.key(case))
        if obs is None or 'exc' in obs or 'died' in obs or obs.get('stuck') or 'unusable' in obs or obs.get('deadlock') \
                or obs.get('step_limit'):
            return None
        serial_ops = self._linearised(case, obs)
        if serial_ops is None:
            return None
        toks = ['1' if case['cls'] == 'LRU' else '0', str(case['max']), '1' if case['on_miss'] else '0',
                self._ptxt(case['init'])]
        for _t, _i, op in serial_ops:
            k = op[0]
            if k == 'set':
                toks.append('s:%d:%d' % (op[1], op[2]))
            elif k == 'get':
                toks.append('g:%d' % op[1])
            elif k == 'getd':
                toks.append('G:%d:99' % op[1])
            elif k == 'del':
                toks.append('d:%d' % op[1])
            elif k == 'pop':
                toks.append('p:%d' % op[1])
            elif k == 'popd':
                toks.append('P:%d:99' % op[1])
            elif k == 'setdefault':
                toks.append('D:%d:%d' % (op[1], op[2]))
            elif k == 'update':
                toks.append('u:' + self._ptxt(op[1]))
            elif k in ('updated', 'updatec'):   # a mapping yields each key once: first position, last value
                last = dict((a, b) for a, b in op[1])
                toks.append('u:' + self._ptxt([[a, last[a]] for a in dict.fromkeys(a for a, _ in op[1])]))
            elif k in ('updatek', 'updatekd'):  # positional part (a list keeps repeated keys, a mapping yields each key
                #                                      once), then the keyword dict in its order
                if case.get('keys', 'int') not in KW_KEY_KINDS:
                    return None                 # keyword names must be strings: outside the model's domain
                pos = op[1] if k == 'updatek' else self._dedup(op[1])
                toks.append('U:%s:%s' % (self._ptxt(pos), self._ptxt(self._dedup(op[2]))))
            elif k == 'copyp':
                toks.append('K')
            elif k == 'popitem':
                toks.append('I')
            elif k == 'clear':
                toks.append('c')
            elif k == 'copy':
                toks.append('C')
            elif k in ('eq', 'eqc'):            # the comparand is a mapping: each key once
                toks.append('e:' + self._ptxt(self._dedup(op[1])))
            elif k in ('ne', 'nec'):
                toks.append('n:' + self._ptxt(self._dedup(op[1])))
            elif k == 'ior':                    # `cache |= dict(pairs)`: the dict yields each key once
                last = dict((a, b) for a, b in op[1])
                toks.append('i:' + self._ptxt([[a, last[a]] for a in dict.fromkeys(a for a, _ in op[1])]))
            else:
                return None
        return ' '.join(toks)

    @staticmethod
    def _dedup(pairs):
        """what a dict built from `pairs` yields: each key once, at its first position, with its last value"""
        last = dict((a, b) for a, b in pairs)
        return [[a, last[a]] for a in dict.fromkeys(a for a, _ in pairs)]

    def _linearised(self, case, obs):
        """locked operations in lock-acquisition order (unlocked readers are not part of the model run)"""
        idx = [0] * len(case['progs'])
        ops = []
        for t in obs['acquire_log']:
            p = case['progs'][t]
            while idx[t] < len(p) and p[idx[t]][0] in READERS:
                idx[t] += 1
            if idx[t] >= len(p):
                return None
            ops.append((t, idx[t], p[idx[t]]))
            idx[t] += 1
        return ops

    def render(self, case, obs):
        serial_ops = self._linearised(case, obs) or []
        outs = []
        for t, i, op in serial_ops:
            try:
                r = obs['results'][t][i]
            except IndexError:
                outs.append('?')
                continue
            if r[0] == 'exc':
                outs.append('!' + r[1])
            else:
                v = r[1]
                if v is None:
                    outs.append('N')
                elif v is True:
                    outs.append('t')
                elif v is False:
                    outs.append('f')
                elif isinstance(v, int):
                    outs.append('v%d' % v)
                elif op[0] == 'copyp' and isinstance(v, list) and len(v) == 4:
                    outs.append('K%s/%s/%s/%s' % (self._ptxt(v[0]), v[1], v[2], self._order_txt(v[3])))
                elif op[0] == 'popitem' and isinstance(v, list) and len(v) == 2 and all(isinstance(x, int) for x in v):
                    outs.append('p%d.%d' % (v[0], v[1]))
                elif isinstance(v, list) and all(isinstance(x, list) and len(x) == 2 and
                                                 all(isinstance(y, int) for y in x) for x in v):
                    outs.append('L' + self._ptxt(v))
                else:       # a value no model run can produce (e.g. the repr of a private sentinel)
                    outs.append('X' + repr(v).replace(' ', ''))
        order = self._order_txt(obs.get('order', []))
        txt = (','.join(outs) or '-') + '|' + self._ptxt(obs.get('final', [])) + '|' + order
        if obs.get('lockset'):
            txt += ' LOCKSET-VIOLATION %r' % (obs['lockset'][:3],)
        return txt

    @staticmethod
    def _order_txt(order):
        return ';'.join(('+'.join(str(x) for x in g) or '-') if isinstance(g, list) else str(g) for g in order)

    def shrink(self, case):
        progs = case['progs']
        for t in range(len(progs)):
            for i in range(len(progs[t])):
                if sum(len(p) for p in progs) > 2:
                    np = [list(p) for p in progs]
                    del np[t][i]
                    if all(np) or len([p for p in np if p]) >= 2:
                        yield dict(case, progs=[p for p in np if p])
        if case['init']:
            yield dict(case, init=case['init'][:-1])
        for f in ('vals', 'keys'):      # plain ints instead of objects / strings, where the programs allow it
            if case.get(f, 'int') != 'int' and not (f == 'keys' and any(
                    op[0] in ('updatek', 'updatekd') for p in progs for op in p)):
                yield {k: v for k, v in case.items() if k != f}

    def describe(self, case):
        return case


def child_main():
    """the child process: read one case per line on stdin, answer {'obs': …} per line on the original stdout"""
    tier, seed = sys.argv[1], int(sys.argv[2])
    out = os.fdopen(os.dup(1), 'w')
    os.dup2(2, 1)                       # anything the code under test prints goes to stderr, not into the protocol
    sys.stdout = sys.stderr
    common.ensure_repo_on_path()
    prop = C03(tier, seed)
    prop._local = True
    prop.regen()                        # the translator's list of lock-requiring helpers (nothing is written)
    # (the warm-up runs with the first case: if the code under test kills the process even there, the parent sees
    #  it as the death of that case, not as a child that cannot start)
    out.write(json.dumps({'ready': True}) + '\n')
    out.flush()
    for line in sys.stdin:
        line = line.strip()
        if not line:
            continue
        obs = prop._impl_local(json.loads(line))
        out.write(json.dumps({'obs': obs}) + '\n')
        out.flush()


PROPERTY = C03
