"""C01 - OrderedMultiDict behaves as an insertion-ordered list of (key, value) pairs.

A case is one whole history on two registers: `s` (the dictionary under test) and `t` (a second
OMD of the same class used as argument, copy target and comparison partner).  After EVERY op all
readers of `s` are dumped.  Keys and values travel as small ids (class of ==-equal Python objects);
the Python objects behind an id rotate through alias forms (1 / 1.0 / True).

  impl()   runs the history on the real class (dictutils.OrderedMultiDict, urlutils.QueryParamDict,
           and the textual copy of OrderedMultiDict inside urlutils.py loaded standalone)
  line()   the same history in the line protocol of lean/BoltonsVerif/C01/Driver.lean
  oracle() replays the history on two plain Python lists of pairs - no boltons code, no Lean model
"""
import ast
import collections
import collections.abc
import copy
import importlib.util
import itertools
import os
import pickle
import sys
import types

from bv import common
from bv.common import Property, Failure, time_limit, exc_name, CaseTimeout

NK = 4                    # key ids 0..3
NONE_V = 4                # value id of None (what setdefault(k) inserts)
KEY_FORMS = {
    'S': [['a'], ['b'], ['c'], ['d']],
    'I': [[0, 0.0, False], [1, 1.0, True], [2, 2.0], [3, 3.0]],
    'N': [['a'], ['b'], [None], [(1, 'x')]],
    'F': [[0, False, 0.0], [''], [()], [None]],                       # every key is falsy
}
VAL_FORMS = {
    'S': [[0], [1], [2], [3], [None]],
    'I': [[0, 0.0, False], [1, 1.0, True], [2, 2.0], [3, 3.0], [None]],
    'N': [[0], [1], [2], [3], [None]],
    'F': [[0, False, 0.0], [''], [()], [frozenset()], [None]],        # every value is falsy
}
KWARG_IDS = {'S': [0, 1, 2, 3], 'I': [], 'N': [0, 1], 'F': []}
CLASSES = ['D', 'Q', 'U', 'UQ']
COPY_KINDS = ['copy', 'cc', 'dc', 'p0', 'p1', 'p2', 'p3', 'p4', 'p5']
PAIR_KINDS = ['l', 'g', 't', 'i', 'z']          # + 'x': a generator that yields the pairs and then raises Boom
ADDLIST_KINDS = ['l', 'i', 't', 'g', 'r']       # + 'x': a generator that yields the values and then raises Boom
_STANDALONE = 'bv_c01_urlutils_standalone'
DEFAULT = type('Default', (), {'__repr__': lambda self: '<DEFAULT>'})()
# objects handed in as `default`: the private sentinel of boltons is falsy, so falsy caller defaults are the
# interesting ones; none of them is a value of any universe (None is used only in None-free histories)
FALSY_DEFAULTS = [b'', 0j, range(0)]
JUNK = 'junk'                                   # what the harness scribbles into its own lists afterwards


class Boom(Exception):
    """raised by the harness's own iterables half way through an argument"""


class PlainMapping(collections.abc.Mapping):
    """a mapping that is not a dict: the three abstract methods, everything else from the ABC"""

    def __init__(self, d):
        self._d = dict(d)

    def __getitem__(self, k):
        return self._d[k]

    def __iter__(self):
        return iter(self._d)

    def __len__(self):
        return len(self._d)


class RaisingMapping(collections.abc.Mapping):
    """a mapping that delivers its first `n` items and then raises Boom - from `__getitem__` (style 0) or from the
    iterator of its keys (style 1); it has one more key than it delivers"""

    def __init__(self, items, extra_key, style):
        self._items = list(items)
        self._extra = extra_key
        self._style = style
        self._served = 0

    def __getitem__(self, k):
        for kk, v in self._items:
            if kk == k:
                if self._served >= len(self._items):
                    raise Boom('mapping failed')
                self._served += 1
                return v
        raise Boom('mapping failed')        # (style 2: the key after the delivered ones - a key the receiver may hold)

    def __iter__(self):
        for k, _ in self._items:
            yield k
        if self._style == 1:
            raise Boom('mapping failed')
        yield self._extra

    def __len__(self):
        return len(self._items) + 1

    def keys(self):         # a plain iterator over the keys (not a KeysView: no len, one pass)
        return iter(self)


# mappings with __missing__ (they answer `m[k]` for keys they do not have): form -> value id of the answer
MISSING_FORMS = {'c': 0, 'd0': 0, 'dn': NONE_V}


# malformed items inside an iterable of pairs (what comes after them is never reached)
MALFORMED = [lambda: ('lonely',), lambda: 5, lambda: ('a', 'b', 'c'), lambda: ([], 1), lambda: None, lambda: ({}, 0)]
# calls that raise on their first look at the argument: nothing may change
REJECTS = ['add', 'set', 'del', 'addlist', 'addlist_int', 'pop', 'popall', 'poplast', 'sd', 'upd_none', 'upd_int',
           'ext_none', 'ext_int', 'ior_int', 'new2', 'upd_pairs_unhashable_first']

MAPPING_FORMS = [dict, collections.OrderedDict, collections.UserDict, lambda d: types.MappingProxyType(dict(d)),
                 PlainMapping, dict]
_SUBCLASS = {}


def _subclass_of(cls):
    """a trivial subclass (an OMD argument need not be of the receiver's exact class)"""
    if cls not in _SUBCLASS:
        _SUBCLASS[cls] = type('Sub' + cls.__name__, (cls,), {})
    return _SUBCLASS[cls]


def _raising(items):
    for x in items:
        yield x
    raise Boom('argument iterable failed')


def _classes():
    """the classes under test; the copy of OrderedMultiDict inside urlutils.py is only used by
    boltons when dictutils cannot be imported, so it is loaded standalone"""
    common.ensure_repo_on_path()
    from boltons import dictutils, urlutils
    mod = sys.modules.get(_STANDALONE)
    if mod is None:
        spec = importlib.util.spec_from_file_location(_STANDALONE, os.path.join(common.REPO, 'boltons', 'urlutils.py'))
        mod = importlib.util.module_from_spec(spec)
        sys.modules[_STANDALONE] = mod          # pickle looks classes up by module name
        spec.loader.exec_module(mod)
    return {'D': dictutils.OrderedMultiDict, 'Q': urlutils.QueryParamDict,
            'U': mod.OrderedMultiDict, 'UQ': mod.QueryParamDict}


def _kmap(forms):
    m = {}
    for i, fs in enumerate(forms):
        for f in fs:
            m[f] = i
    return m


KMAP = {u: _kmap(f) for u, f in KEY_FORMS.items()}
VMAP = {u: _kmap(f) for u, f in VAL_FORMS.items()}



# --------------------------------------------------------------------------- translator: static effect table
# `regen()` reads the CURRENT source of both copies of the class and regenerates, for every public method, whether it may
# write (a) the dict's own storage, (b) the linked list / its cell index.  Props.lean proves over that table (by `decide`)
# that no public method writes one structure without the other, that the readers the model treats as pure functions of
# the state write nothing, that every mutator the model has an operation for is there and writes both, and that no dict
# mutator is inherited unchanged.  The analysis is transitive (private helpers, module-level helpers, local aliases of
# bound methods) and does not depend on attribute or helper names.

DICT_MUT = ('__setitem__', '__delitem__', 'setdefault', 'pop', 'popitem', 'clear', 'update', '__ior__')
DICT_INNER = ('__getitem__', 'get', 'setdefault', 'pop', 'items', 'values', 'popitem')   # hand out the stored value lists
MUTATING = {'append', 'extend', 'insert', 'pop', 'remove', 'clear', 'sort', 'reverse', 'setdefault', 'update',
            'popitem', 'add', 'discard', '__setitem__', '__delitem__', '__iadd__'}
FRESH = {'sorted', 'list', 'tuple', 'set', 'frozenset', 'dict', 'len', 'iter', 'bool', 'repr', 'str', 'int', 'max', 'min',
         'isinstance', 'callable', 'getattr', 'hasattr', 'type', 'next', 'zip', 'zip_longest', 'range', 'enumerate', 'id'}
LINK_NAMES = {'PREV', 'NEXT', 'SPREV', 'SNEXT'}
D, L = 'dict', 'll'


def _is_super_call(e):
    return isinstance(e, ast.Call) and isinstance(e.func, ast.Name) and e.func.id == 'super'


def _is_self(e):
    return isinstance(e, ast.Name) and e.id == 'self'


class FnEffects:
    """flow-insensitive effect analysis of one function: which of the two structures (the dict's own storage / the
    linked list with its cell index, i.e. every instance attribute) it may write, and which other functions it calls"""

    def __init__(self, fn, method_names, module_funcs, state_attrs=None, is_method=True):
        self.fn, self.methods, self.funcs, self.state = fn, method_names, module_funcs, state_attrs
        self.taint = {}          # local name -> set of D / L / 'P:<parameter name>'
        self.alias = {}          # local name -> ('super', m) | ('self', m) | ('meth', taint, attr) | ('superobj',)
        self.writes = set()
        self.calls = set()       # (('self', m) | ('func', f), positional argument taints, keyword argument taints)
        a = fn.args
        params = [x.arg for x in a.posonlyargs + a.args]
        self.params = params[1:] if is_method else params           # without self / cls
        for name in self.params + [x.arg for x in a.kwonlyargs] + [x.arg for x in (a.vararg, a.kwarg) if x is not None]:
            self.taint[name] = {'P:' + name}                          # symbolic: whatever the caller passes here
        for _ in range(4):       # a few rounds: names may be used before the assignment that taints them (loops)
            for st_ in fn.body:
                self.visit(st_)
                # the one flow-sensitive step: a statement at the TOP level of the body that rebinds a name to a new
                # object (`v = list(v)`) ends what the name stood for - for everything that follows
                if isinstance(st_, ast.Assign) and len(st_.targets) == 1 and isinstance(st_.targets[0], ast.Name) \
                        and isinstance(st_.value, ast.Call) and isinstance(st_.value.func, ast.Name) \
                        and st_.value.func.id in FRESH and st_.value.func.id not in self.alias:
                    self.taint.pop(st_.targets[0].id, None)

    def is_state(self, attr):
        if attr in self.methods or attr.startswith('__'):
            return False
        return self.state is None or attr in self.state

    # ---- taint of an expression: may evaluating it hand out (part of) one of the structures?
    def t(self, e):
        if e is None:
            return set()
        if isinstance(e, ast.Name):
            return set(self.taint.get(e.id, ()))
        if isinstance(e, ast.Attribute):
            if _is_self(e.value):
                return {L} if self.is_state(e.attr) else set()
            return self.t(e.value)
        if isinstance(e, ast.Subscript):
            if isinstance(e.slice, ast.Slice):
                return set()                      # a slice of a list is a copy
            if _is_self(e.value):
                self.calls.add((('self', '__getitem__'), (), ()))
                return set()
            return self.t(e.value)
        if isinstance(e, ast.Call):
            f = e.func
            argt = tuple(frozenset(self.t(a)) for a in e.args)                    # (records the self-calls inside, too)
            kwt = tuple(sorted((k.arg or '**', frozenset(self.t(k.value))) for k in e.keywords))
            if isinstance(f, ast.Name):
                al = self.alias.get(f.id)
                if al:
                    return self.call_alias(al, argt, kwt)
                if f.id in self.funcs:
                    self.calls.add((('func', f.id), argt, kwt))
                    return set().union(*argt) if argt else set()
                if f.id in FRESH:
                    return set()
                return set().union(*argt) if argt else set()
            if isinstance(f, ast.Attribute):
                al = self.alias_of(f)
                if al[0] == 'super' and al[1] in ('__setitem__', 'setdefault') and len(e.args) >= 2:
                    # the dict's values are the per-key LISTS: storing an object that came in as an argument (not a new
                    # list display / copy around it) makes the dictionary share a container with its caller
                    x = e.args[-1]
                    if not isinstance(x, (ast.List, ast.Tuple, ast.ListComp)):
                        self.writes |= {'K' + p for p in argt[-1] if p.startswith('P:')}
                        if al[1] == 'setdefault':
                            return self.call_alias(al, argt, kwt) | set(argt[-1])
                return self.call_alias(al, argt, kwt)
            return set()
        if isinstance(e, (ast.ListComp, ast.SetComp, ast.GeneratorExp, ast.DictComp)):
            for g in e.generators:
                self.bind(g.target, self.t(g.iter))
                for c in g.ifs:
                    self.t(c)
            if isinstance(e, ast.DictComp):
                self.t(e.key)
                return self.t(e.value)            # keys are hashable: what can be written through is the values
            return self.t(e.elt)
        if isinstance(e, (ast.Tuple, ast.List, ast.Set)):
            return set().union(*[self.t(x) for x in e.elts]) if e.elts else set()
        if isinstance(e, ast.IfExp):
            self.t(e.test)
            return self.t(e.body) | self.t(e.orelse)
        if isinstance(e, ast.BoolOp):
            return set().union(*[self.t(x) for x in e.values])
        if isinstance(e, ast.Starred):
            return self.t(e.value)
        if isinstance(e, ast.Compare):
            self.t(e.left)
            for c in e.comparators:
                self.t(c)
            return set()
        if isinstance(e, (ast.BinOp,)):
            self.t(e.left), self.t(e.right)
            return set()
        if isinstance(e, ast.UnaryOp):
            self.t(e.operand)
            return set()
        if isinstance(e, (ast.Yield, ast.YieldFrom, ast.Await)):
            self.t(e.value)
            return set()
        if isinstance(e, ast.JoinedStr):
            for v in e.values:
                if isinstance(v, ast.FormattedValue):
                    self.t(v.value)
            return set()
        return set()

    def alias_of(self, f):
        """what a bound-method expression `X.attr` refers to"""
        v = f.value
        if _is_super_call(v) or (isinstance(v, ast.Name) and self.alias.get(v.id) == ('superobj',)):
            return ('super', f.attr)
        if _is_self(v):
            if f.attr in self.methods:
                return ('self', f.attr)
            return ('meth', frozenset({L}) if self.is_state(f.attr) else frozenset(), f.attr)
        if isinstance(v, ast.Name) and v.id == 'dict':
            return ('super', f.attr)              # dict.M(self, ...)
        return ('meth', frozenset(self.t(v)), f.attr)

    def call_alias(self, al, argt=(), kwt=()):
        if al[0] == 'super':
            if al[1] in DICT_MUT:
                self.writes.add(D)
            return {D} if al[1] in DICT_INNER else set()
        if al[0] == 'self':
            self.calls.add((al, argt, kwt))
            return set()
        if al[0] == 'meth':
            if al[2] in MUTATING:
                self.writes |= set(al[1])
            return set(al[1])
        return set()

    def bind(self, target, taint):
        if isinstance(target, ast.Name):
            if taint:
                self.taint[target.id] = set(self.taint.get(target.id, ())) | taint
        elif isinstance(target, (ast.Tuple, ast.List)):
            for x in target.elts:
                self.bind(x, taint)
        elif isinstance(target, ast.Starred):
            self.bind(target.value, taint)
        else:
            self.store(target)

    def store(self, target):
        """an assignment / deletion THROUGH a subscript or an attribute writes the object it goes through"""
        if isinstance(target, (ast.Tuple, ast.List)):
            for x in target.elts:
                self.store(x)
        elif isinstance(target, ast.Subscript):
            if _is_self(target.value):
                self.calls.add((('self', '__setitem__'), (), ()))       # (or __delitem__: the caller says which)
                return
            self.writes |= self.t(target.value)
            if isinstance(target.slice, ast.Name) and target.slice.id in LINK_NAMES:
                self.writes.add(L)
        elif isinstance(target, ast.Attribute):
            if _is_self(target.value):
                if self.is_state(target.attr):
                    self.writes.add(L)
            else:
                self.writes |= self.t(target.value)

    def assign(self, target, value):
        if isinstance(target, (ast.Tuple, ast.List)) and isinstance(value, (ast.Tuple, ast.List)) \
                and len(target.elts) == len(value.elts):
            for a, b in zip(target.elts, value.elts):
                self.assign(a, b)
            return
        if isinstance(target, ast.Name):
            if _is_super_call(value):
                self.alias[target.id] = ('superobj',)
                return
            if isinstance(value, ast.Attribute) and not (_is_self(value.value) and value.attr not in self.methods
                                                         and not isinstance(value.ctx, ast.Store)
                                                         and False):
                al = self.alias_of(value)
                if al[0] in ('super', 'self') or (al[0] == 'meth' and not _is_self(value.value)):
                    self.alias[target.id] = al
                    # a plain attribute read of a tainted object also hands the object on
                    if al[0] == 'meth':
                        self.bind(target, set(al[1]))
                    return
            self.bind(target, self.t(value))
        else:
            self.t(value)
            self.store(target)

    def visit_body(self, body):
        for s in body:
            self.visit(s)

    def visit(self, s):
        if isinstance(s, ast.Assign):
            for tg in s.targets:
                self.assign(tg, s.value)
        elif isinstance(s, ast.AnnAssign):
            if s.value is not None:
                self.assign(s.target, s.value)
        elif isinstance(s, ast.AugAssign):
            self.t(s.value)
            if isinstance(s.target, ast.Name):
                self.writes |= self.t(s.target)              # `values += more` extends the list in place
            else:
                self.store(s.target)
        elif isinstance(s, ast.Delete):
            for tg in s.targets:
                if isinstance(tg, ast.Subscript) and _is_self(tg.value):
                    self.calls.add((('self', '__delitem__'), (), ()))
                elif not isinstance(tg, ast.Name):
                    self.store(tg)
        elif isinstance(s, (ast.For, ast.AsyncFor)):
            it = s.iter
            if _is_self(it):
                self.calls.add((('self', '__iter__'), (), ()))
            self.bind(s.target, self.t(it))
            self.visit_body(s.body)
            self.visit_body(s.orelse)
        elif isinstance(s, ast.While):
            self.t(s.test)
            self.visit_body(s.body)
            self.visit_body(s.orelse)
        elif isinstance(s, ast.If):
            self.t(s.test)
            self.visit_body(s.body)
            self.visit_body(s.orelse)
        elif isinstance(s, (ast.With, ast.AsyncWith)):
            for it in s.items:
                tt = self.t(it.context_expr)
                if it.optional_vars is not None:
                    self.bind(it.optional_vars, tt)
            self.visit_body(s.body)
        elif isinstance(s, ast.Try):
            self.visit_body(s.body)
            for h in s.handlers:
                self.visit_body(h.body)
            self.visit_body(s.orelse)
            self.visit_body(s.finalbody)
        elif isinstance(s, (ast.Expr, ast.Return)):
            self.t(s.value)
        elif isinstance(s, ast.Raise):
            self.t(s.exc)
        elif isinstance(s, ast.Assert):
            self.t(s.test)
        elif isinstance(s, (ast.FunctionDef, ast.AsyncFunctionDef)):
            self.visit_body(s.body)                           # a nested helper: its effects count for the outer one


ORDERED_READERS = ('iteritems', 'iterkeys', 'itervalues', '__reversed__')


def _state_attrs(meths, funcs):
    """the instance attributes that make up the linked list and its cell index: those the ordered readers consult
    (through any private helper) and those the functions that re-link cells work with.  Any other attribute a
    method may set (a memo, a counter) is not part of the pair list."""
    def loads(fn):
        return {n.attr for n in ast.walk(fn) if isinstance(n, ast.Attribute) and _is_self(n.value)
                and n.attr not in meths and not n.attr.startswith('__')}

    def self_calls(fn):
        out = set()
        for n in ast.walk(fn):
            if isinstance(n, ast.Attribute) and _is_self(n.value) and n.attr in meths:
                out.add(n.attr)
        return out

    def links(fn):
        return any(isinstance(n, ast.Subscript) and isinstance(n.ctx, ast.Store) and isinstance(n.slice, ast.Name)
                   and n.slice.id in LINK_NAMES for n in ast.walk(fn))

    def calls_linking_func(fn):
        return any(isinstance(n, ast.Call) and isinstance(n.func, ast.Name) and n.func.id in funcs
                   and links(funcs[n.func.id]) for n in ast.walk(fn))
    if not any(r in meths for r in ORDERED_READERS):
        return None
    todo, seen = [r for r in ORDERED_READERS if r in meths], set()
    while todo:
        m = todo.pop()
        if m not in seen:
            seen.add(m)
            todo += [c for c in self_calls(meths[m]) if c not in seen]
    state = set()
    for m in seen:
        state |= loads(meths[m])
    for m, fn in meths.items():
        if links(fn) or calls_linking_func(fn):
            state |= loads(fn)
    return state


def class_effects(path, clsname='OrderedMultiDict'):
    tree = ast.parse(open(path).read())
    funcs = {n.name: n for n in tree.body if isinstance(n, ast.FunctionDef)}
    cls = next(n for n in tree.body if isinstance(n, ast.ClassDef) and n.name == clsname)
    meths = {n.name: n for n in cls.body if isinstance(n, ast.FunctionDef)}
    state = _state_attrs(meths, funcs)
    fx = {}
    for name, fn in meths.items():
        fx[('self', name)] = FnEffects(fn, set(meths), set(funcs), state)
    for name, fn in funcs.items():
        fx[('func', name)] = FnEffects(fn, set(), set(funcs), is_method=False)
    eff = {k: set(v.writes) for k, v in fx.items()}

    def at_call(callee, argt, kwt):
        """the callee's effects seen from the call site: a write through one of ITS parameters is a write through
        whatever the caller passed there"""
        out = set()
        kw = dict(kwt)
        for x in eff[callee]:
            if not x.startswith(('P:', 'KP:')):
                out.add(x)
                continue
            keeps = x.startswith('K')
            name = x[3:] if keeps else x[2:]
            ps = fx[callee].params
            got = set()
            if name in ps and ps.index(name) < len(argt):
                got |= argt[ps.index(name)]
            elif name in kw:
                got |= kw[name]
            elif '**' in kw:
                got |= kw['**']
            elif name not in ps:                 # *args / **kwargs of the callee: anything the caller passed
                got |= set().union(*argt) if argt else set()
                for v in kw.values():
                    got |= v
            out |= {'K' + g for g in got if g.startswith('P:')} if keeps else got
        return out
    changed = True
    while changed:
        changed = False
        for k, v in fx.items():
            for c, argt, kwt in v.calls:
                if c in eff:
                    new = at_call(c, argt, kwt)
                    if not new <= eff[k]:
                        eff[k] |= new
                        changed = True
    rows = []
    for name in meths:
        if name == '__new__' or (name.startswith('_') and not name.startswith('__')):
            continue
        e = eff[('self', name)]
        rows.append((name, D in e, L in e, any(x.startswith('P:') for x in e), any(x.startswith('KP:') for x in e)))
    inherited = [m for m in DICT_MUT if m not in meths]
    return rows, inherited, sorted(state or [])


class Ctx:
    """materialises ids as Python objects (rotating alias forms) and maps objects back to ids"""

    def __init__(self, case):
        self.u = case['u']
        self.n = case.get('fs', 0)
        self.none_ok = not _mentions_none(case['ops'])
        self.dflt = DEFAULT
        self.views = {}
        self.iters = []

    def D(self):
        """the next object to hand in as `default`; results are compared with it by identity"""
        forms = [DEFAULT] + FALSY_DEFAULTS + ([None] if self.none_ok else []) + [DEFAULT]
        self.n += 1
        self.dflt = forms[self.n % len(forms)]
        return self.dflt

    def mapping(self, ps):
        """a mapping argument: dict, dict subclass, and mappings that are not dicts"""
        self.n += 1
        return MAPPING_FORMS[self.n % len(MAPPING_FORMS)](dict(ps))

    def omd_class(self, cls, classes):
        """the class of a fresh OMD argument: the receiver's class, its sibling (OrderedMultiDict <->
        QueryParamDict of the same module) or a trivial subclass"""
        self.n += 1
        r = self.n % 4
        if r == 1:
            sib = {'D': 'Q', 'Q': 'D', 'U': 'UQ', 'UQ': 'U'}
            for name, c in classes.items():
                if c is cls:
                    return classes[sib[name]]
        if r == 2:
            return _subclass_of(cls)
        return cls

    def K(self, kid):
        fs = KEY_FORMS[self.u][kid]
        self.n += 1
        return fs[self.n % len(fs)]

    def V(self, vid):
        fs = VAL_FORMS[self.u][vid]
        self.n += 1
        return fs[self.n % len(fs)]

    def kid(self, obj):
        try:
            r = KMAP[self.u].get(obj)
        except TypeError:
            r = None
        return r if r is not None else '?%.40r' % (obj,)

    def vid(self, obj):
        if obj is DEFAULT:
            return 'D'
        try:
            r = VMAP[self.u].get(obj)
        except TypeError:
            r = None
        return r if r is not None else '?%.40r' % (obj,)

    def pairs(self, ps):
        return [(self.K(k), self.V(v)) for k, v in ps]

    def kv(self, it):
        return [[self.kid(k), self.vid(v)] for k, v in it]


def _mentions_none(x):
    """does a history mention the value id of None (or setdefault without a default)?"""
    if isinstance(x, list):
        if len(x) == 3 and x[0] in ('sd', 'fk') and isinstance(x[2], int) and x[2] < 0:
            return True
        return any(_mentions_none(y) for y in x)
    return x == NONE_V and x is not True


class C01(Property):
    PID = 'C01'
    QUICK_BUDGET_S = 45
    THOROUGH_BUDGET_S = 700
    RULE = ('a case is one whole history of public OrderedMultiDict operations (constructor, add, addlist with '
            'list/tuple/iterator/generator/range, []=, del, update / |= / update_extend with self, another OMD (of the '
            'same class, the sibling class or a subclass), a mapping (dict, OrderedDict, UserDict, mappingproxy, a bare '
            'collections.abc.Mapping), a list / generator / iterator / zip of pairs, a snapshot of its own pairs or its own '
            'todict(), keyword arguments, setdefault, pop, popall, poplast, popitem, clear, copy(), copy.copy, '
            'copy.deepcopy, pickle protocols 0-5, ==/!= (and the reflected forms) against OMDs, mappings, mappings with '
            '__missing__ (Counter, defaultdict), its own todict() and non-mappings, sorted, sortedvalues, fromkeys, the view '
            'objects viewkeys / viewvalues / viewitems (made once per dictionary object and read again after every later op), '
            'repr, a copy that contains itself (repr, deepcopy, pickle), iterators left half-consumed across mutations and '
            'drained later) on two registers, over 4 key ids x 5 value ids whose Python objects rotate through '
            'alias forms (1/1.0/True, None, tuples; one universe where every key and every value is falsy), on '
            'dictutils.OrderedMultiDict, urlutils.QueryParamDict and the standalone copy of the class in urlutils.py. '
            'Argument iterables may raise half way, mapping arguments may raise from their key iterator or from __getitem__ '
            '(also for a key the receiver holds), iterables of pairs may contain a malformed item (1-tuple, 3-tuple, int, None, '
            'unhashable key) - the exception must propagate and leave a consistent dictionary that holds a prefix of the '
            'argument; calls outside the domain (unhashable key, argument not iterable, two positional arguments) must leave '
            'the pairs as they are; '
            'caller-supplied defaults rotate through a private object and falsy objects (None where None is not a '
            'value); after each call the harness scribbles on every object it handed in and on every list / dict / OMD '
            'it got back (nothing may be kept or handed out by reference). EVERY reader of `s` (and the keyed and '
            'ordered readers of `t`) is dumped after EVERY op. Small adversarial families come first (aliasing through '
            'registers, arguments, results and copies; raising arguments; defaults; argument classes; one history with '
            'hundreds of values per key), then exhaustive: all histories of <= 2 ops over the full op alphabet (2 keys x '
            '2 values) and <= 3 (thorough: 4) ops over the core alphabet; then seeded random histories of 5-60 ops. '
            'Non-trivial = at some point a key holds >= 2 values while the pairs of different keys are interleaved (the '
            'pair order is not the dict order), and at least one removal or replacement happened; distinct = distinct '
            '(class, key universe, history).')
    ASSUMPTIONS = [
        'keys are hashable with == consistent with hash (1, 1.0, True are one key); values are compared with ==, no NaN',
        'reads are compared up to == of keys and values (which alias object comes back is not compared)',
        'update_extend(self) appends the single-valued items() of the dictionary (what the code documents by doing it)',
        'popitem() removes some present key with all its values and returns it with its most recent value; the oracle '
        'does not prescribe which key (the model and the fix use the key of the most recently inserted pair)',
        'sortedvalues: the oracle accepts any order among values whose sort keys are equal; sorted() is stable like sorted()',
        'FastIterOrderedMultiDict is outside the property statement; fromkeys and the view objects are modelled as the code defines '
        'them (fromkeys = the constructor on (key, default) pairs; a view reads the current state through the public readers) and '
        'compared with the model; the ORACLE, which judges by the statement alone, demands only: fromkeys gives a consistent '
        'dictionary holding one pair per listed key or one per distinct key; reading a view never raises and a view made earlier '
        'shows what a view made now shows',
        'a mapping with __missing__ (Counter, defaultdict) is a mapping: == is true only when it HAS the same keys',
        'a dictionary that contains itself as a value: repr must not raise (what it prints for the inner occurrence is not prescribed)',
        'calls outside the domain of the statement (unhashable key, non-iterable argument, too many arguments): any exception, or '
        'none, is accepted; the pairs must be unchanged. A malformed item inside an iterable of pairs: any exception after a prefix '
        'was taken over, or the item is skipped and every well-formed pair is taken (the model: the exception, as the code does)',
        'an argument iterable that raises: the exception must propagate; how many of the items yielded before were '
        'taken over is not prescribed by the oracle (any prefix; the model/code: all of them for update / update_extend, '
        'none for addlist), but every reader must agree with that one list of pairs afterwards. Malformed items '
        '(not pairs) and mappings whose __getitem__ / keys() raise are in the model as abort operations; the model is asked about the '
        'prefix the implementation was seen to take',
        'an OMD of the sibling class or of a subclass counts as an OMD (isinstance), any collections.abc.Mapping as a mapping',
    ]
    CORRESPONDENCE_NAME = ('C01.Driver (concrete model: dict of value lists + pointer-level linked list of cells + per-key '
                           'cell index _map; readers through its abstraction, reversed() along PREV; ownership layer: list '
                           'objects of the storage vs the lists the caller holds and writes to) vs boltons '
                           'OrderedMultiDict (dictutils, urlutils copy, QueryParamDict)')

    # ------------------------------------------------------------------ translator hook
    def regen(self):
        lines = ['/- GENERATED by harness/bv/props/c01.py from boltons/dictutils.py and boltons/urlutils.py (static effect',
                 '   analysis of the AST of both copies of class OrderedMultiDict). Do not edit. -/',
                 'namespace Generated.C01', '',
                 '/-- one public method: may it write the dict\'s own storage / the linked list with its cell index? -/',
                 'structure Method where', '  file : String', '  name : String', '  dictW : Bool', '  llW : Bool',
                 '  argW : Bool   -- may it write THROUGH one of its arguments (change an object the caller passed in)?',
                 '  keepsArg : Bool   -- may it store an argument object itself as a per-key value list?',
                 'deriving Repr, DecidableEq', '', 'def methods : List Method := [']
        rows, inh, states = [], [], []
        for mod in ('dictutils', 'urlutils'):
            r, i, st = class_effects(os.path.join(common.REPO, 'boltons', mod + '.py'))
            rows += [(mod, n, d, l, a, kp) for n, d, l, a, kp in r]
            inh += [(mod, m) for m in i]
            states.append('%s: %s' % (mod, ', '.join(st) or '(every instance attribute)'))
        lines += ['  ⟨"%s", "%s", %s, %s, %s, %s⟩%s' % (f, n, str(d).lower(), str(l).lower(), str(a).lower(), str(kp).lower(),
                                                       ',' if j < len(rows) - 1 else '')
                  for j, (f, n, d, l, a, kp) in enumerate(rows)]
        lines += [']', '', '/-- dict mutators the class does not override (they would change the dict behind the list\'s back) -/',
                  'def inheritedMutators : List (String × String) := [%s]' % ', '.join('("%s", "%s")' % p for p in inh), '',
                  '-- instance attributes counted as the linked list / cell index: ' + '; '.join(states), '',
                  'end Generated.C01', '']
        return {'C01_Effects.lean': '\n'.join(lines)}

    # ------------------------------------------------------------------ generation
    def _full_alphabet(self):
        ks, vs = [0, 1], [0, 1]
        A = []
        for k in ks:
            for v in vs:
                A += [['add', k, v], ['set', k, v]]
            A += [['del', k], ['addlist', k, 'l', [0, 1]], ['addlist', k, 'i', [1, 0]], ['addlist', k, 'g', []],
                  ['sd', k, 1], ['sd', k, -1], ['pop', k, 0], ['pop', k, 1], ['popall', k, 0], ['popall', k, 1],
                  ['poplast', k, 0], ['poplast', k, 1]]
        A += [['poplast', -1, 0], ['poplast', -1, 1], ['popitem'], ['clear'], ['swap'],
              ['cp', 'copy', 't'], ['cp', 'cc', 's'], ['cp', 'dc', 't'], ['cp', 'p2', 't'], ['cp', 'p0', 's'],
              ['upd', ['s'], []], ['upd', ['t'], []], ['ior', ['t']], ['ext', ['s'], []], ['ext', ['t'], []],
              ['upd', ['p', 'l', [[0, 0], [0, 1]]], []], ['upd', ['p', 'g', [[1, 1], [0, 0], [1, 0]]], []],
              ['upd', ['m', [[0, 1], [1, 1]]], []], ['upd', ['o', [[1, 0], [0, 1], [1, 1]]], []],
              ['upd', ['p', 'i', []], [[0, 1]]], ['upd', ['s'], [[1, 0]]],
              ['ext', ['p', 'z', [[0, 1], [0, 0]]], []], ['ext', ['m', [[1, 0]]], [[0, 0]]], ['ext', ['o', [[1, 1], [1, 0]]], []],
              ['ior', ['m', [[0, 0]]]], ['ior', ['p', 't', [[1, 0], [1, 1]]]],
              ['new', ['p', 'l', [[0, 0], [1, 1], [0, 1]]], []], ['new', ['s'], []], ['new', ['t'], [[1, 1]]],
              ['new', None, [[0, 1]]], ['new', ['m', [[0, 1], [1, 0]]], [[0, 0]]],
              ['eq', ['t']], ['eq', ['s']], ['eq', ['m', [[0, 1]]]], ['eq', ['m', [[0, 1], [1, 1]]]], ['eq', ['m', [[0, 0], [1, 0]]]],
              ['eq', ['o', [[0, 0], [0, 1]]]], ['eq', ['o', [[0, 1]]]], ['eq', ['x', 'l']], ['eq', ['x', 'n']],
              ['sorted', 'n', 0], ['sorted', 'v', 1], ['sv', 'n', 0], ['sv', 'c', 1]]
        # arguments that raise half way, snapshots of the receiver itself as argument
        A += [['addlist', 0, 'x', [1, 0]], ['addlist', 1, 'x', []], ['upd', ['p', 'x', [[0, 0], [1, 1], [0, 1]]], []],
              ['ext', ['p', 'x', [[1, 0], [1, 1]]], []], ['new', ['p', 'x', [[0, 1]]], []], ['ior', ['p', 'x', []]],
              ['upd', ['sl'], []], ['ext', ['sl'], []], ['upd', ['sd'], []], ['ext', ['sd'], []],
              ['eq', ['x', 'td']], ['eq', ['sl']],
              # keyword arguments that collide with the positional argument (they win, and come last)
              ['upd', ['m', [[0, 1]]], [[0, 0]]], ['upd', ['p', 'l', [[0, 1], [1, 1]]], [[0, 0]]]]
        # round 3: mappings that raise half way, malformed items, rejected calls, fromkeys
        A += [['upd', ['mx', [[1, 1], [0, 0]]], []], ['ext', ['mx', [[0, 1]]], []], ['ior', ['mx', []]],
              ['new', ['mx', [[0, 0]]], []], ['upd', ['p', 'y', [[0, 0], [1, 1], [0, 1]]], []],
              ['ext', ['p', 'y', [[1, 0]]], []], ['new', ['p', 'y', [[0, 1]]], []], ['ior', ['p', 'y', []]],
              ['rej', 'add'], ['rej', 'upd_none'], ['rej', 'poplast'], ['rej', 'addlist_int'],
              ['fk', [0, 1, 0], 1], ['fk', [1], -1], ['fk', [], 0], ['it', 0], ['it', 1], ['drain'],
              ['eq', ['mm', 'c', [[1, 0]]]], ['eq', ['mm', 'd0', [[0, 0]]]], ['upd', ['mm', 'c', [[0, 1], [1, 0]]], []],
              ['selfrepr', 0]]
        return A

    def _core_alphabet(self):
        return [['add', 0, 0], ['add', 0, 1], ['add', 1, 0], ['set', 0, 1], ['set', 1, 1], ['del', 0],
                ['addlist', 1, 'i', [1, 0]], ['poplast', 0, 0], ['poplast', -1, 0], ['popitem'], ['pop', 1, 1],
                ['sd', 1, 0], ['upd', ['p', 'l', [[1, 1], [0, 0], [1, 0]]], []], ['upd', ['t'], []],
                ['ext', ['s'], []], ['cp', 'cc', 't'], ['swap'], ['upd', ['m', [[0, 0], [1, 1]]], []],
                ['upd', ['mx', [[1, 0], [0, 1]]], []]] + ([] if self.thorough else [['it', 1], ['drain']])

    def _mk(self, ops, i=0, u=None):
        u = u or ('S', 'I', 'S', 'N', 'F')[i % 5]
        if u == 'F' and any(op[0] in ('sorted', 'sv') and op[1] == 'n' for op in ops):
            u = 'S'                 # the falsy universe mixes types: no native sort keys there
        ops = [self._fit(op, u) for op in ops]
        return {'c': CLASSES[i % 4] if i % 7 else 'D', 'u': u, 'fs': i % 5, 'ops': ops}

    @staticmethod
    def _fit(op, u):
        """drop keyword arguments whose key ids are not identifiers in universe u"""
        if op[0] in ('upd', 'ext', 'new') and op[2]:
            return [op[0], op[1], [p for p in op[2] if p[0] in KWARG_IDS[u]]]
        if op[0] == 'addlist' and op[2] == 'r' and u == 'F':
            return ['addlist', op[1], 't', op[3]]      # range() yields ints; they are not the values of universe F
        return op

    def cases(self, budget_s):
        rng = self.rng
        i = 0
        for c in self.adversarial():
            yield c
        full, core = self._full_alphabet(), self._core_alphabet()
        for n in (1, 2):
            for h in itertools.product(full, repeat=n):
                i += 1
                yield self._mk(list(h), i)
        depth = 4 if self.thorough else 3
        for n in range(3, depth + 1):
            for h in itertools.product(core, repeat=n):
                i += 1
                yield self._mk(list(h), i)
        n_rand = 45000 if self.thorough else 3500
        for j in range(n_rand):
            yield self.random_case(rng, long=self.thorough and j % 8 == 0)

    def deep_cases(self, budget_s):
        rng = self.rng
        for c in self.adversarial():
            yield c
        full = self._full_alphabet()
        i = 0
        for h in itertools.product(full, repeat=2):
            i += 1
            yield self._mk(list(h), i, u='S')
        while True:
            yield self.random_case(rng, long=rng.random() < 0.3)

    # -- random histories
    def _rpairs(self, rng, nk, lo=0, hi=4, vmax=3):
        return [[rng.randrange(nk), rng.randint(0, vmax)] for _ in range(rng.randint(lo, hi))]

    def _rmapping(self, rng, nk, vmax=3, ids=None):
        ids = list(range(nk)) if ids is None else [k for k in ids if k < nk]
        ks = rng.sample(ids, rng.randint(0, len(ids))) if ids else []
        return [[k, rng.randint(0, vmax)] for k in ks]

    def _rarg(self, rng, nk, vmax, for_eq=False):
        r = rng.random()
        if r < 0.10:
            return ['s']
        if r < 0.12:
            return [rng.choice(['sl', 'sd'])]
        if r < 0.3:
            return ['t']
        if r < 0.45:
            return ['o', self._rpairs(rng, nk, vmax=vmax)]
        if r < 0.65:
            return ['m', self._rmapping(rng, nk, vmax)]
        if for_eq and r < 0.72:
            return ['x', rng.choice(['l', 'n', 'i', 'td', 'td'])]
        if r < 0.76 and (for_eq or r < 0.73):
            return ['mm', rng.choice(sorted(MISSING_FORMS)), self._rmapping(rng, nk, vmax)]
        if not for_eq and r < 0.69:
            return ['mx', self._rmapping(rng, nk, vmax)]
        q = rng.random()
        return ['p', 'x' if q < 0.08 else 'y' if (q < 0.14 and not for_eq) else rng.choice(PAIR_KINDS),
                self._rpairs(rng, nk, vmax=vmax)]

    def random_case(self, rng, long=False):
        u = rng.choice(['S', 'S', 'I', 'N', 'F'])
        nf = u in 'SI' and rng.random() < 0.6         # None-free, one type: native sort keys are usable
        vmax = 3 if nf else 4
        nk = rng.choice([2, 3, 4, 4])
        nops = rng.randint(20, 60) if long else rng.randint(5, 25)
        kw = KWARG_IDS[u]
        ops = []
        if rng.random() < 0.5:
            ops.append(['new', self._rarg(rng, nk, vmax) if rng.random() < 0.8 else None,
                        self._rmapping(rng, nk, vmax, kw) if rng.random() < 0.3 else []])
            if ops[0][1] in (['s'], ['sl'], ['sd']) or self._aborts(ops[0][1]):
                ops[0][1] = ['p', 'l', self._rpairs(rng, nk, 1, 5, vmax)]
        for _ in range(nops):
            r = rng.random()
            k, v = rng.randrange(nk), rng.randint(0, vmax)
            if r < 0.2:
                ops.append(['add', k, v])
            elif r < 0.27:
                kind = 'x' if rng.random() < 0.1 else rng.choice(ADDLIST_KINDS)
                vs = [rng.randint(0, vmax) for _ in range(rng.randint(0, 3))]
                if kind == 'r' and u == 'F':
                    kind = 't'
                ops.append(['addlist', k, kind, list(range(len(vs))) if kind == 'r' else vs])
            elif r < 0.34:
                ops.append(['set', k, v])
            elif r < 0.39:
                ops.append(['del', k])
            elif r < 0.47:
                ops.append([rng.choice(['upd', 'upd', 'ext']), self._rarg(rng, nk, vmax),
                            self._rmapping(rng, nk, vmax, kw) if rng.random() < 0.3 else []])
            elif r < 0.50:
                ops.append(['ior', self._rarg(rng, nk, vmax)])
            elif r < 0.54:
                ops.append(['sd', k, v if (rng.random() < 0.7 or nf) else -1])
            elif r < 0.59:
                ops.append([rng.choice(['pop', 'popall']), k, rng.randint(0, 1)])
            elif r < 0.67:
                ops.append(['poplast', k if rng.random() < 0.6 else -1, rng.randint(0, 1)])
            elif r < 0.70:
                ops.append(['popitem'])
            elif r < 0.705:
                ops.append(['clear'])
            elif r < 0.71:
                ops.append(['it', rng.randint(0, 3)] if rng.random() < 0.7 else ['drain'])
                if rng.random() < 0.15:
                    ops.append(['selfrepr', k])
            elif r < 0.715:
                ops.append(['rej', rng.choice(REJECTS)])
            elif r < 0.72:
                ops.append(['fk', [rng.randrange(nk) for _ in range(rng.randint(0, 4))], v if rng.random() < 0.7 or nf else -1])
            elif r < 0.78:
                ops.append(['cp', rng.choice(COPY_KINDS), rng.choice('st')])
            elif r < 0.82:
                ops.append(['swap'])
            elif r < 0.90:
                ops.append(['eq', self._rarg(rng, nk, vmax, for_eq=True)])
            elif r < 0.93:
                # a dict / OMD built from the current visible items would need the state: use t after a copy
                ops.append(['cp', rng.choice(COPY_KINDS), 't'])
                ops.append(['eq', ['t']])
            elif r < 0.97:
                ops.append(['sorted', rng.choice('nkvc') if nf else rng.choice('kvc'), rng.randint(0, 1)])
            else:
                ops.append(['sv', rng.choice('nmgc') if nf else rng.choice('mgc'), rng.randint(0, 1)])
        return {'c': rng.choice(CLASSES), 'u': u, 'fs': rng.randrange(6), 'ops': ops}

    def adversarial(self):
        """hand-written families around the places where the two structures must move together"""
        H = []
        base = ['new', ['p', 'l', [[0, 0], [1, 1], [0, 2], [2, 3], [1, 0]]], []]
        # every mutator after an interleaved multi-valued state, followed by a second mutator on the same key
        muts = [['add', 0, 3], ['set', 0, 3], ['del', 0], ['addlist', 0, 'i', [1, 2]], ['addlist', 3, 'g', []],
                ['pop', 0, 0], ['popall', 1, 0], ['poplast', 0, 0], ['poplast', -1, 0], ['popitem'], ['sd', 0, 1],
                ['sd', 3, 1], ['upd', ['p', 'g', [[3, 0], [3, 1], [0, 0], [3, 2]]], []], ['upd', ['m', [[0, 1], [3, 1]]], []],
                ['upd', ['o', [[1, 3], [3, 0], [1, 2]]], []], ['ext', ['s'], []], ['ext', ['p', 'i', [[0, 0], [3, 3]]], []],
                ['upd', ['s'], []], ['ior', ['o', [[0, 1], [0, 2]]]], ['cp', 'cc', 's'], ['cp', 'dc', 's'], ['cp', 'p1', 's']]
        for a in muts:
            for b in muts:
                H.append([base, a, b, ['poplast', 0, 1], ['add', 0, 1]])
        # popping down to empty, in every way
        for p in (['poplast', -1, 0], ['popitem'], ['poplast', 0, 0], ['pop', 0, 0]):
            H.append([base] + [p] * 6 + [['add', 1, 1], p])
        # equality: mappings that differ in one value / one key / size; OMDs that differ in order / multiplicity
        for m in ([[0, 2], [1, 0], [2, 3]], [[0, 2], [1, 0], [2, 0]], [[0, 2], [1, 0]], [[0, 2], [1, 0], [3, 3]],
                  [[0, 2], [1, 0], [2, 3], [3, 0]], [[0, 0], [1, 1], [2, 3]], []):
            H.append([base, ['eq', ['m', m]]])
            H.append([['eq', ['m', m]]])
        for o in ([[0, 0], [1, 1], [0, 2], [2, 3], [1, 0]], [[0, 0], [1, 1], [0, 2], [2, 3]], [[1, 1], [0, 0], [0, 2], [2, 3], [1, 0]],
                  [[0, 0], [1, 1], [0, 2], [2, 3], [1, 1]], [[0, 0], [1, 1], [0, 2], [2, 3], [1, 0], [1, 0]], [[0, 2], [1, 0], [2, 3]]):
            H.append([base, ['eq', ['o', o]], ['new', ['o', o], []], ['eq', ['o', o]]])
        # None key with None value at the end (zip_longest fill value)
        NONEKEY = [[['new', ['p', 'l', [[2, 1], [2, 4]]], []], ['eq', ['o', [[2, 1]]]], ['eq', ['o', [[2, 1], [2, 4]]]]],
                   [['new', ['p', 'l', [[2, 1]]], []], ['eq', ['o', [[2, 1], [2, 4]]]]],
                   [['add', 2, 4], ['add', 2, 4], ['eq', ['o', [[2, 4]]]], ['poplast', 2, 0], ['eq', ['o', [[2, 4]]]]]]
        # copies are independent and complete, in both directions
        for kind in COPY_KINDS:
            H.append([base, ['cp', kind, 't'], ['add', 0, 1], ['eq', ['t']], ['swap'], ['poplast', 0, 0], ['swap'], ['eq', ['t']]])
            H.append([['cp', kind, 's'], ['add', 1, 1], ['cp', kind, 't'], ['eq', ['t']]])
        # sorting with every key function
        for fn in 'nkvc':
            for rev in (0, 1):
                H.append([['new', ['p', 'l', [[1, 2], [0, 3], [1, 0], [0, 3], [2, 1], [1, 2]]], []], ['sorted', fn, rev]])
        for fn in 'nmgc':
            for rev in (0, 1):
                H.append([['new', ['p', 'l', [[1, 2], [0, 3], [1, 0], [0, 1], [2, 1], [1, 3], [1, 1]]], []], ['sv', fn, rev]])
        H = self._round2_families(base) + H
        out = []
        for i, h in enumerate(H):
            native = any(op[0] in ('sorted', 'sv') and op[1] == 'n' for op in h)
            out.append(self._mk(h, i + 1, u=('S', 'I')[i % 2] if native else ('S', 'I', 'N', 'F')[i % 4]))
        for i, h in enumerate(NONEKEY):
            out.append(self._mk(h, i + 1, u='N'))
        return out

    def _round2_families(self, base):
        """small families first: aliasing between the dictionary, its arguments, its results and its copies;
        arguments that raise half way; caller-supplied defaults; argument classes; one long history"""
        H = []
        P = [[3, 0], [0, 1], [3, 2], [0, 3]]
        # the dictionary takes pairs over from the other register / a fresh OMD / its own snapshot; afterwards
        # BOTH are changed in turn and every reader of both is looked at
        for X in (['upd', ['t'], []], ['ext', ['t'], []], ['ior', ['t']], ['new', ['t'], []]):
            for pre in ([], [['add', 0, 1]]):
                H.append([base, ['swap']] + pre + [X, ['add', 0, 3], ['poplast', 1, 1], ['swap'], ['add', 1, 2],
                                                   ['poplast', 0, 0], ['swap'], ['addlist', 2, 'l', [0, 1]], ['swap']])
        # fresh arguments of every kind, scribbled on by the caller right after the call
        for X in (['addlist', 3, 'l', [0, 1]], ['addlist', 0, 'l', [1]], ['upd', ['o', P], []], ['ext', ['o', P], []],
                  ['ior', ['o', P]], ['new', ['o', P], []], ['upd', ['m', [[3, 0], [0, 1]]], []], ['ext', ['m', [[3, 0], [0, 1]]], []],
                  ['new', ['m', [[3, 0], [0, 1]]], []], ['upd', ['p', 'l', P], []], ['ext', ['p', 't', P], []],
                  ['upd', ['sl'], []], ['ext', ['sl'], []], ['upd', ['sd'], []], ['ext', ['sd'], []], ['ior', ['sd']]):
            H.append([X, ['add', 0, 0]])
            H.append([base, X, ['poplast', 0, 1], X, ['add', 3, 3]])
            H.append([X] * 5)             # the argument classes rotate: dict / OrderedDict / UserDict / proxy / Mapping
        # arguments that raise half way: the exception propagates, the dictionary stays consistent
        for X in (['addlist', 0, 'x', [1, 2]], ['addlist', 3, 'x', [0]], ['addlist', 3, 'x', []], ['upd', ['p', 'x', P], []],
                  ['upd', ['p', 'x', []], []], ['ext', ['p', 'x', P], []], ['ior', ['p', 'x', [[1, 3], [3, 3], [1, 2]]]],
                  ['new', ['p', 'x', P], []], ['upd', ['p', 'x', [[3, 1]]], [[0, 0]]]):
            H.append([X, ['add', 0, 0], X])
            H.append([base, X, ['poplast', 0, 1], ['add', 3, 1], X, ['popitem']])
        # round 3: mappings that raise half way (from __getitem__ / from the key iterator), malformed items of every
        # kind after a well-formed prefix, calls that must be rejected without touching anything, fromkeys
        for X in (['upd', ['mx', [[3, 0], [0, 1]]], []], ['upd', ['mx', []], []], ['ext', ['mx', [[0, 2], [3, 1]]], []],
                  ['ior', ['mx', [[1, 3]]]], ['new', ['mx', [[0, 1]]], []], ['upd', ['mx', [[0, 1]]], [[0, 0]]],
                  ['upd', ['p', 'y', P], []], ['upd', ['p', 'y', []], []], ['ext', ['p', 'y', P], []],
                  ['ior', ['p', 'y', [[1, 3], [3, 3], [1, 2]]]], ['new', ['p', 'y', P], []]):
            H.append([X, ['add', 0, 0], X])
            H.append([base] + [X, ['poplast', 0, 1], ['add', 3, 1]] * 3 + [['popitem']])
        H.append([base] + [['rej', w] for w in REJECTS] + [['add', 0, 1]] + [['rej', w] for w in REJECTS])
        H.append([['rej', w] for w in REJECTS])
        # a dictionary that contains itself as a value (a plain list of pairs prints `[...]` there)
        H.append([['selfrepr', 1], base, ['selfrepr', 0], ['selfrepr', 3], ['poplast', 0, 0], ['selfrepr', 2]])
        for ks in ([0, 1, 0, 3, 0], [], [2], [1, 1, 1]):
            H.append([base, ['fk', ks, 2], ['add', 0, 1], ['poplast', 0, 0], ['fk', ks, -1], ['eq', ['t']]])
        # iterators left half-consumed while the dictionary changes under them, drained later: whatever they yield
        # (not prescribed), the dictionary itself must stay the plain list of pairs
        for m in (['add', 0, 3], ['set', 0, 3], ['del', 0], ['addlist', 0, 'i', [1, 2]], ['pop', 0, 0], ['popall', 1, 0],
                  ['poplast', 0, 0], ['poplast', -1, 0], ['popitem'], ['sd', 3, 1], ['upd', ['p', 'g', [[3, 0], [3, 1], [0, 0]]], []],
                  ['upd', ['m', [[0, 1], [3, 1]]], []], ['ext', ['s'], []], ['clear'], ['cp', 'cc', 's']):
            H.append([base, ['it', 1], m, ['it', 2], ['poplast', 0, 1], ['drain'], ['add', 0, 1], ['it', 0], ['clear'], ['drain'],
                      ['add', 1, 1]])
        # mappings with __missing__ (Counter, defaultdict): a key the mapping lacks must not be answered by its default
        for form in sorted(MISSING_FORMS):
            z = MISSING_FORMS[form]
            for h in ([['add', 0, z], ['eq', ['mm', form, [[1, z]]]], ['eq', ['mm', form, [[0, z]]]], ['eq', ['mm', form, []]]],
                      [['add', 0, 1], ['add', 1, 2], ['add', 0, z], ['eq', ['mm', form, [[1, 2], [3, 1]]]],
                       ['eq', ['mm', form, [[1, 2], [0, z]]]], ['eq', ['mm', form, [[1, 2], [2, z]]]], ['upd', ['mm', form, [[2, 1]]], []],
                       ['eq', ['mm', form, [[1, 2], [2, 1], [3, z]]]], ['ext', ['mm', form, [[0, 3]]], []], ['new', ['mm', form, [[1, 1]]], []]],
                      [base, ['eq', ['mm', form, [[0, 2], [1, 0], [3, 3]]]], ['set', 2, z], ['eq', ['mm', form, [[0, 2], [1, 0], [3, 3]]]],
                       ['eq', ['mm', form, [[0, 2], [1, 0], [2, z]]]]]):
                H.append(h)
        # caller-supplied defaults (falsy ones included) for every method that takes one, on absent and present keys
        D = [['pop', 3, 1], ['poplast', 3, 1], ['popall', 3, 1], ['poplast', -1, 1]]
        H.append(D * 4)
        H.append([base] + [['pop', 3, 1], ['poplast', 3, 1], ['popall', 3, 1]] * 3 + [['pop', 0, 1], ['poplast', 1, 1],
                                                                                     ['popall', 2, 1]] + D * 2)
        # equality with an OMD of the sibling class / a subclass: the pair lists decide, not the visible items
        for o in ([[0, 2], [1, 0], [2, 3]], [[0, 0], [1, 1], [0, 2], [2, 3], [1, 0]], [[1, 1], [0, 2], [2, 3], [1, 0]]):
            H.append([base] + [['eq', ['o', o]]] * 4 + [['upd', ['o', o], []]] + [['eq', ['o', o]]] * 4)
        for m in ([[0, 2], [1, 0], [2, 3]], [[0, 2], [1, 0], [2, 0]], [[0, 2], [1, 0]]):
            H.append([base] + [['eq', ['m', m]]] * 6 + [['eq', ['x', 'td']], ['eq', ['sd']], ['eq', ['sl']]])
        # a mapping that lacks a key whose visible value is None (a `.get()`-style comparison would not notice)
        for h in ([['add', 2, 4], ['eq', ['m', [[3, 1]]]], ['eq', ['m', [[2, 4]]]], ['eq', ['m', [[3, 4]]]]],
                  [['add', 0, 1], ['add', 1, 4], ['eq', ['m', [[0, 1], [2, 4]]]], ['eq', ['m', [[0, 1], [2, 1]]]]],
                  [['sd', 1, -1], ['eq', ['m', [[0, 4]]]], ['eq', ['m', [[1, 4]]]], ['eq', ['m', [[0, 0]]]]]):
            for _ in range(3):
                H.append(h)
        # one long history: hundreds of values under two keys, interleaved, then taken apart again
        big = [j % 4 for j in range(300)]
        H.append([['addlist', 0, 'l', big], ['addlist', 1, 'g', big[:150]], ['addlist', 0, 'i', big[:120]], ['add', 2, 1],
                  ['poplast', 0, 0], ['poplast', -1, 0], ['sv', 'g', 0], ['sorted', 'v', 1], ['cp', 'p2', 't'], ['eq', ['t']],
                  ['set', 1, 2], ['popall', 0, 0], ['popitem']])
        return H

    # ------------------------------------------------------------------ model line
    @staticmethod
    def _pairs_tok(ps):
        return ','.join('%d.%d' % (k, v) for k, v in ps) or '-'

    def _arg_tok(self, E):
        if E is None:
            return 'n'
        if E[0] in ('s', 't'):
            return E[0]
        if E[0] == 'sl':
            return 'S'
        if E[0] == 'sd' or E == ['x', 'td']:
            return 'D'
        if E[0] == 'mm':
            return 'm' + self._pairs_tok(E[2])
        if E[0] == 'x':
            return 'x'
        if E[0] == 'p':
            return 'p' + self._pairs_tok(E[2])
        return E[0] + self._pairs_tok(E[1])

    @staticmethod
    def _aborts(E):
        return E is not None and ((E[0] == 'p' and E[1] in ('x', 'y')) or E[0] == 'mx')

    def _taken(self, case, idx, default):
        """how many items of a raising argument the implementation was seen to take over at op #idx (the statement leaves
        it open; the oracle accepts every prefix): the model is asked about that prefix.  Unknown -> what the code does."""
        rec = getattr(self, '_seen_taken', {}).get(id(case))
        if rec is not None and rec[0] is case:
            return rec[1].get(idx, default)
        return default

    def _note_taken(self, case, out):
        """after impl(): read the number of items taken over by each aborted call off the pair lists before / after it"""
        js = {}
        ops = case['ops']
        for idx, op in enumerate(ops):
            if idx >= len(out) or 'dump' not in out[idx] or out[idx]['ret'][0] != 'X':
                continue
            after = out[idx]['dump'].get('im')
            before = out[idx - 1]['dump'].get('im') if idx and 'dump' in out[idx - 1] else []
            if not isinstance(after, list) or not isinstance(before, list):
                continue
            if op[0] == 'addlist' and op[2] == 'x':
                js[idx] = max(0, min(len(op[3]), len(after) - len(before)))
            elif op[0] in ('upd', 'ior', 'ext') and self._aborts(op[1]):
                ps = [tuple(p) for p in op[1][-1]]
                L = [tuple(p) for p in before]
                for j in range(len(ps), -1, -1):
                    if op[0] == 'ext':
                        c = L + ps[:j]
                    elif op[1][0] == 'mx':
                        c = L
                        for k, v in ps[:j]:
                            c = self._assign(c, k, v)
                    else:
                        c = self._replace_by(L, ps[:j])
                    if [list(p) for p in c] == after:
                        js[idx] = j
                        break
        m = self.__dict__.setdefault('_seen_taken', {})
        if len(m) > 20000:
            m.clear()
        if js:
            m[id(case)] = (case, js)
        else:
            m.pop(id(case), None)

    def line(self, case):
        toks = [str(NK)]
        for op in case['ops']:
            o = op[0]
            if o in ('new', 'upd', 'ext', 'ior') and self._aborts(op[1]):
                # the argument iterable raises after its pairs: keyword arguments are never reached
                mx = op[1][0] == 'mx'
                taken = op[1][-1][:self._taken(case, len(toks) - 1, len(op[1][-1]))]
                toks.append({'new': 'newx', 'upd': 'updmx:' if mx else 'updx:', 'ior': 'updmx:' if mx else 'updx:',
                             'ext': 'extx:'}[o] + ('' if o == 'new' else self._pairs_tok(taken)))
            elif o == 'new':
                toks.append('new:%s:%s' % (self._arg_tok(op[1]), self._pairs_tok(op[2])))
            elif o in ('add', 'set'):
                toks.append('%s:%d:%d' % (o, op[1], op[2]))
            elif o == 'addlist':
                # `L`: the argument is a list OBJECT of the caller's, which the caller writes to after the call
                vs = op[3][:self._taken(case, len(toks) - 1, 0)] if op[2] == 'x' else op[3]
                toks.append('addlist%s:%d:%s' % ({'x': 'x', 'l': 'L'}.get(op[2], ''), op[1], ','.join(map(str, vs)) or '-'))
            elif o == 'del':
                toks.append('del:%d' % op[1])
            elif o in ('upd', 'ext'):
                toks.append('%s:%s:%s' % (o, self._arg_tok(op[1]), self._pairs_tok(op[2])))
            elif o == 'ior':
                toks.append('upd:%s:-' % self._arg_tok(op[1]))
            elif o == 'sd':
                toks.append('sd:%d:%d' % (op[1], NONE_V if op[2] < 0 else op[2]))
            elif o in ('pop', 'popall'):
                toks.append('%s:%d:%d' % (o, op[1], op[2]))
            elif o == 'poplast':
                toks.append('poplast:%s:%d' % ('-' if op[1] < 0 else op[1], op[2]))
            elif o in ('popitem', 'clear', 'swap'):
                toks.append(o)
            elif o == 'rej':
                toks.append('rej')
            elif o in ('it', 'drain', 'selfrepr'):
                toks.append('nop')
            elif o == 'fk':
                toks.append('fk:%s:%d' % (','.join(map(str, op[1])) or '-', NONE_V if op[2] < 0 else op[2]))
            elif o == 'cp':
                toks.append('cpt' if op[2] == 't' else 'cps')
            elif o == 'eq':
                E = op[1]
                toks.append('eq:D' if E[0] == 'sd' or E == ['x', 'td'] else
                            'eq:x' if E[0] in ('p', 'x', 'sl') else 'eq:' + self._arg_tok(E))
            elif o in ('sorted', 'sv'):
                toks.append('%s:%s:%d' % (o, op[1], op[2]))
            else:
                return None
        return ' '.join(toks)

    # ------------------------------------------------------------------ implementation
    def _arg(self, cx, cls, s, t, E):
        kind = E[0]
        if kind == 's':
            return s
        if kind == 't':
            return t
        if kind == 'sl':                # a snapshot of the receiver's own pairs, as a list
            return list(s.items(multi=True))
        if kind == 'sd':                # the receiver's own todict()
            return s.todict()
        if kind == 'o':
            return cx.omd_class(cls, _classes())(cx.pairs(E[1]))
        if kind == 'm':
            return cx.mapping(cx.pairs(E[1]))
        if kind == 'mm':
            ps = dict(cx.pairs(E[2]))
            if E[1] == 'c':
                return collections.Counter(ps)
            z = cx.V(MISSING_FORMS[E[1]])
            return collections.defaultdict(lambda: z, ps)
        if kind == 'mx':
            cx.n += 1
            style = cx.n % 3
            # style 2: the value of a key the receiver may well hold cannot be read (a replacement that deletes the old
            # pairs before it has the new value would leave the key half replaced)
            extra = KEY_FORMS[cx.u][(E[1][-1][0] + 1) % NK if E[1] else 0][0] if style == 2 else ('never', 'a key')
            return RaisingMapping(cx.pairs(E[1]), extra, style)
        if kind == 'x':
            return {'l': lambda: list(s.items(multi=True)), 'n': lambda: None, 'i': lambda: 5,
                    'td': lambda: s.todict()}[E[1]]()
        ps = cx.pairs(E[2])
        pk = E[1]
        if pk == 'l':
            return ps
        if pk == 'g':
            return (p for p in ps)
        if pk == 't':
            return tuple(list(p) for p in ps)
        if pk == 'i':
            return iter(ps)
        if pk == 'x':
            return _raising(ps)
        if pk == 'y':                   # a malformed item after the well-formed ones; what follows is never reached
            cx.n += 1
            return ps + [MALFORMED[cx.n % len(MALFORMED)](), (cx.K(0), cx.V(0))]
        return zip([p[0] for p in ps], [p[1] for p in ps])

    @staticmethod
    def _scribble(E, a):
        """the caller goes on using - and changing - the objects it handed in: the dictionary must not have
        kept any of them (or any part of them) by reference"""
        try:
            kind = E[0]
            if kind == 'o':
                for k in a.keys():
                    a.add(k, JUNK)
                a.add(JUNK, JUNK)
                a.clear()
            elif kind in ('m', 'sd', 'mm') and hasattr(a, 'clear'):
                a[JUNK] = JUNK
                a.clear()
            elif kind in ('p', 'sl') and isinstance(a, list):
                a.append((JUNK, JUNK))
                a.reverse()
            elif kind == 'p' and isinstance(a, tuple):
                for p in a:
                    p.append(JUNK)
                    p.reverse()
        except CaseTimeout:
            raise                   # (one-shot timer: a swallowed timeout would leave a looping implementation unguarded)
        except Exception:
            pass

    def _kwargs(self, cx, F):
        return {KEY_FORMS[cx.u][k][0]: cx.V(v) for k, v in F}

    def impl(self, case):
        out = self._impl_once(case, 1 if self.stats.get('timeouts') else 10)
        if out and out[-1].get('exc') == 'CaseTimeout' and not self.stats.get('timeouts'):
            # the first timeout of a run is looked at twice: a history takes milliseconds, and a machine shared with
            # other jobs can stall for seconds; a looping implementation times out again (then 1 s per case from here on)
            out2 = self._impl_once(case, 30)
            if out2 and out2[-1].get('exc') == 'CaseTimeout':
                self.stats['timeouts'] = 1
            else:
                self.stats['stalls_retried'] = self.stats.get('stalls_retried', 0) + 1
            out = out2
        elif out and out[-1].get('exc') == 'CaseTimeout':
            self.stats['timeouts'] = self.stats.get('timeouts', 0) + 1
        self._note_taken(case, out)
        return out

    def _impl_once(self, case, limit):
        classes = _classes()
        cls = classes[case['c']]
        cx = Ctx(case)
        out = []
        try:
            # a history takes milliseconds; once a case has timed out (a looping implementation)
            # the following ones get 1 s instead of 10 s so that the run still ends
            with time_limit(limit):
                s, t = cls(), cls()
                for op in case['ops']:
                    ret, s, t = self._apply(cx, cls, s, t, op)
                    out.append({'ret': ret, 'dump': self._dump(cx, s, t)})
        except CaseTimeout:
            out.append({'exc': 'CaseTimeout'})
        except Exception as e:      # harness-level surprise: recorded, judged by the oracle
            out.append({'exc': exc_name(e), 'msg': str(e)[:200]})
        return out

    def _apply(self, cx, cls, s, t, op):
        o = op[0]
        arg = E = None
        try:
            try:
                if o == 'new':
                    kw = self._kwargs(cx, op[2])
                    if op[1] is None:
                        s = cls(**kw)
                    else:
                        E = op[1]
                        arg = self._arg(cx, cls, s, t, E)
                        s = cls(arg, **kw)
                    return ['N'], s, t
                if o == 'add':
                    r = s.add(cx.K(op[1]), cx.V(op[2]))
                elif o == 'addlist':
                    vs = [cx.V(v) for v in op[3]]
                    if op[2] == 'r':        # range(n): the generators list the values 0..n-1 for this kind
                        if op[3] != list(range(len(op[3]))):
                            raise common.InfraError('addlist kind r needs values 0..n-1')
                        vs = range(len(op[3]))
                    arg = {'l': lambda: vs, 'i': lambda: iter(vs), 't': lambda: tuple(vs), 'g': lambda: (v for v in vs),
                           'r': lambda: vs, 'x': lambda: _raising(vs)}[op[2]]()
                    E = ['al']
                    r = s.addlist(cx.K(op[1]), arg)
                elif o == 'set':
                    s[cx.K(op[1])] = cx.V(op[2])
                    r = None
                elif o == 'del':
                    del s[cx.K(op[1])]
                    r = None
                elif o == 'upd':
                    E = op[1]
                    arg = self._arg(cx, cls, s, t, E)
                    r = s.update(arg, **self._kwargs(cx, op[2]))
                elif o == 'ext':
                    E = op[1]
                    arg = self._arg(cx, cls, s, t, E)
                    r = s.update_extend(arg, **self._kwargs(cx, op[2]))
                elif o == 'ior':
                    s0 = s
                    E = op[1]
                    arg = self._arg(cx, cls, s, t, E)
                    s |= arg
                    if s is not s0:
                        return ['?', '|= rebound the name to another object'], s, t
                    r = None
                elif o == 'sd':
                    r = s.setdefault(cx.K(op[1])) if op[2] < 0 else s.setdefault(cx.K(op[1]), cx.V(op[2]))
                    return ['V', cx.vid(r)], s, t
                elif o == 'pop':
                    r = s.pop(cx.K(op[1]), cx.D()) if op[2] else s.pop(cx.K(op[1]))
                    return (['D'] if (op[2] and r is cx.dflt) else ['V', cx.vid(r)]), s, t
                elif o == 'popall':
                    r = s.popall(cx.K(op[1]), cx.D()) if op[2] else s.popall(cx.K(op[1]))
                    if op[2] and r is cx.dflt:
                        return ['D'], s, t
                    if not isinstance(r, list):
                        return ['?', 'popall returned %.40r' % (r,)], s, t
                    ret = ['L', [cx.vid(v) for v in r]]
                    r.append(JUNK)      # the popped values belong to the caller now
                    return ret, s, t
                elif o == 'poplast':
                    a = ([] if op[1] < 0 else [cx.K(op[1])])
                    if op[2]:
                        r = s.poplast(a[0], cx.D()) if a else s.poplast(default=cx.D())
                    else:
                        r = s.poplast(*a)
                    return (['D'] if (op[2] and r is cx.dflt) else ['V', cx.vid(r)]), s, t
                elif o == 'popitem':
                    r = s.popitem()
                    if not (isinstance(r, tuple) and len(r) == 2):
                        return ['?', 'popitem returned %.40r' % (r,)], s, t
                    return ['KV', cx.kid(r[0]), cx.vid(r[1])], s, t
                elif o == 'clear':
                    r = s.clear()
                elif o == 'it':
                    its = [s.iteritems(multi=True), s.iterkeys(), s.itervalues(), iter(s), reversed(s), s.iteritems(),
                           s.iterkeys(multi=True), s.itervalues(multi=True), iter(s.viewitems()), iter(s.viewvalues())]
                    for it in its:
                        for _ in range(op[1]):
                            next(it, None)
                    cx.iters += its
                    return ['N'], s, t
                elif o == 'selfrepr':
                    # a copy of `s` that holds ITSELF as a value: repr must cope (list, dict, OrderedDict print `...`),
                    # the copy module and pickle must keep the cycle
                    ps = s.items(multi=True)
                    x = cls(ps)
                    kk = cx.K(op[1])
                    x.add(kk, x)
                    txt = repr(x)
                    head = '%s([%s' % (type(x).__name__, ''.join(repr(p) + ', ' for p in ps))
                    c, p5 = copy.deepcopy(x), pickle.loads(pickle.dumps(x, 2))
                    ok = (txt.startswith(head) and txt.endswith(')])') and c[kk] is c and p5[kk] is p5
                          and len(c) == len(x) == len(p5) and x == x and c.keys() == x.keys())
                    return (['N'] if ok else ['?', 'self-containing dictionary: %.80r' % (txt,)]), s, t
                elif o == 'drain':
                    for it in cx.iters:
                        try:
                            for _ in range(100000):
                                if next(it, cx) is cx:
                                    break
                        except CaseTimeout:
                            raise
                        except Exception:
                            pass            # a stale iterator may refuse to go on (like dict's own); that is its business
                    cx.iters = []
                    return ['N'], s, t
                elif o == 'rej':
                    self._rejected_call(cx, cls, s, op[1])
                    return ['RA'], s, t      # accepted after all: also fine as long as nothing changed
                elif o == 'fk':
                    cx.n += 1
                    ks = [cx.K(k) for k in op[1]]
                    ks = [ks, iter(ks), tuple(ks), (k for k in ks)][cx.n % 4]
                    c = cls.fromkeys(ks) if op[2] < 0 else cls.fromkeys(ks, cx.V(op[2]))
                    if type(c) is not cls:
                        return ['?', 'fromkeys gave %s' % type(c).__name__], s, t
                    return ['N'], c, t
                elif o == 'swap':
                    return ['N'], t, s
                elif o == 'cp':
                    kind = op[1]
                    if kind == 'copy':
                        c = s.copy()
                    elif kind == 'cc':
                        c = copy.copy(s)
                    elif kind == 'dc':
                        c = copy.deepcopy(s)
                    else:
                        c = pickle.loads(pickle.dumps(s, int(kind[1])))
                    if type(c) is not cls or c is s:
                        return ['?', 'copy gave %s' % type(c).__name__], s, t
                    return (['N'], c, t) if op[2] == 's' else (['N'], s, c)
                elif o == 'eq':
                    E = op[1]
                    other = arg = self._arg(cx, cls, s, t, E)
                    a, b = (s == other), (s != other)
                    refl = [(other == s), (other != s)] if (type(other) is dict or E[0] in 'sto') else [a, b]
                    if not all(isinstance(x, bool) for x in [a, b] + refl):
                        return ['?', 'comparison returned a non-bool'], s, t
                    return ['B', int(a), int(b), int(refl[0]), int(refl[1])], s, t
                elif o == 'sorted':
                    key = {'n': None, 'k': lambda i: cx.kid(i[0]), 'v': lambda i: cx.vid(i[1]), 'c': lambda i: 0}[op[1]]
                    return self._newomd(cx, cls, s, s.sorted(key=key, reverse=bool(op[2]))), s, t
                elif o == 'sv':
                    key = {'n': None, 'm': lambda v: cx.vid(v) % 2, 'g': lambda v: -cx.vid(v), 'c': lambda v: 0}[op[1]]
                    return self._newomd(cx, cls, s, s.sortedvalues(key=key, reverse=bool(op[2]))), s, t
                else:
                    raise common.InfraError('unknown op %r' % (op,))
                return (['N'] if r is None else ['?', 'returned %.40r' % (r,)]), s, t
            finally:
                if E is not None:
                    if E == ['al']:
                        if isinstance(arg, list):
                            arg.append(JUNK)
                            arg.reverse()
                    elif E[0] not in ('s', 't', 'x'):
                        self._scribble(E, arg)
        except (common.InfraError, CaseTimeout):
            raise
        except Exception as e:
            return ['X', exc_name(e)], s, t

    @staticmethod
    def _rejected_call(cx, cls, s, what):
        """calls whose argument is outside the domain in a way the FIRST statement that looks at it notices"""
        cx.n += 1
        bad = [[], {}, [1, 2], set()][cx.n % 4]            # unhashable keys
        if what == 'add':
            s.add(bad, cx.V(0))
        elif what == 'set':
            s[bad] = cx.V(0)
        elif what == 'del':
            del s[bad]
        elif what == 'addlist':
            s.addlist(bad, [cx.V(0), cx.V(1)])
        elif what == 'addlist_int':
            s.addlist(cx.K(0), 5)
        elif what == 'pop':
            s.pop(bad, None)
        elif what == 'popall':
            s.popall(bad, None)
        elif what == 'poplast':
            s.poplast(bad, None)
        elif what == 'sd':
            s.setdefault(bad, cx.V(0))
        elif what == 'upd_none':
            s.update(None)
        elif what == 'upd_int':
            s.update(5)
        elif what == 'ext_none':
            s.update_extend(None)
        elif what == 'ext_int':
            s.update_extend(5)
        elif what == 'ior_int':
            s |= 5
        elif what == 'new2':
            cls([(cx.K(0), cx.V(0))], [(cx.K(1), cx.V(1))])
        elif what == 'upd_pairs_unhashable_first':
            s.update([(bad, cx.V(0)), (cx.K(0), cx.V(0))])
        else:
            raise common.InfraError('unknown rejected call %r' % (what,))

    def _newomd(self, cx, cls, s, r):
        if type(r) is not cls or r is s:
            return ['?', 'result is %s' % type(r).__name__]
        ret = ['O', cx.kv(r.items(multi=True)), [cx.kid(k) for k in r.keys()], len(r)]
        self._scribble(['o'], r)        # the result is a dictionary of its own: changing it must not reach `s`
        return ret

    def _dump(self, cx, s, t):
        def rd(f):
            try:
                return f()
            except CaseTimeout:
                raise
            except Exception as e:
                return {'!': exc_name(e)}

        def own(l):
            """a list handed out by a reader belongs to the caller: writing to it must not reach the dictionary"""
            if isinstance(l, list):
                l.append((JUNK, JUNK))
            return l
        d = {}
        d['im'] = rd(lambda: (lambda l: (cx.kv(l), own(l))[0])(s.items(multi=True)))
        d['i'] = rd(lambda: (lambda l: (cx.kv(l), own(l))[0])(s.items()))
        d['km'] = rd(lambda: (lambda l: ([cx.kid(k) for k in l], own(l))[0])(s.keys(multi=True)))
        d['k'] = rd(lambda: (lambda l: ([cx.kid(k) for k in l], own(l))[0])(s.keys()))
        d['vm'] = rd(lambda: (lambda l: ([cx.vid(v) for v in l], own(l))[0])(s.values(multi=True)))
        d['v'] = rd(lambda: (lambda l: ([cx.vid(v) for v in l], own(l))[0])(s.values()))
        d['len'] = rd(lambda: len(s))
        d['rv'] = rd(lambda: [cx.kid(k) for k in reversed(s)])

        def todict_multi():
            td = s.todict(multi=True)
            r = sorted([cx.kid(k), [cx.vid(v) for v in vs]] for k, vs in td.items())
            for vs in td.values():
                vs.append(JUNK)     # documented: "all the value lists are copies that can be safely mutated"
            td[JUNK] = JUNK
            return r
        d['tm'] = rd(todict_multi)
        probes = [KEY_FORMS[cx.u][k][-1] for k in range(NK)]
        d['g'] = [rd(lambda: (lambda r: 'D' if r is cx.dflt else cx.vid(r))(s.get(p, cx.D()))) for p in probes]

        def getlist(p):
            l = s.getlist(p)
            r = [cx.vid(v) for v in l]
            l.append(JUNK)          # the returned list is documented to be a copy: must not write through
            return r
        d['gl'] = [rd(lambda: getlist(p)) for p in probes]
        d['gi'] = [rd(lambda: cx.vid(s[p])) for p in probes]
        d['c'] = [rd(lambda: int(p in s)) for p in probes]

        def counts():
            r = s.counts()
            ret = [[cx.kid(k), n] for k, n in r.items(multi=True)]
            self._scribble(['o'], r)
            return ret
        d['cn'] = rd(counts)

        def inv():
            r = s.inverted()
            ret = [[[cx.vid(a), cx.kid(b)] for a, b in r.items(multi=True)], [cx.vid(a) for a in r.keys()], len(r)]
            self._scribble(['o'], r)
            return ret
        d['inv'] = rd(inv)
        d['t'] = rd(lambda: cx.kv(t.items(multi=True)))
        # oracle-only readers (the model has no separate function for them)
        d['it'] = rd(lambda: [cx.kid(k) for k in s])
        d['iti'] = rd(lambda: [cx.kv(s.iteritems()), cx.kv(s.iteritems(multi=True)),
                               [cx.kid(k) for k in s.iterkeys(multi=True)], [cx.vid(v) for v in s.itervalues()]])

        def todict():
            td = s.todict()
            r = sorted([cx.kid(k), cx.vid(v)] for k, v in td.items())
            td[JUNK] = JUNK
            return r
        d['td'] = rd(todict)
        d['g0'] = [rd(lambda: cx.vid(s.get(p))) for p in probes]
        d['gld'] = [rd(lambda: (lambda r: 'D' if r is cx.dflt else [cx.vid(v) for v in r])(s.getlist(p, cx.D())))
                    for p in probes]
        d['bool'] = rd(lambda: int(bool(s)))
        # the view objects: made ONCE per dictionary object and kept, so every later dump reads an old view of a
        # dictionary that has changed since
        vs_ = cx.views.get(id(s))
        if vs_ is None or vs_[0] is not s:
            vs_ = cx.views[id(s)] = (s, rd(s.viewkeys), rd(s.viewvalues), rd(s.viewitems))
        _, vk, vv, vi = vs_
        vforms = [VAL_FORMS[cx.u][v][-1] for v in range(5)]
        d['vk'] = rd(lambda: [cx.kid(k) for k in vk])
        d['vl'] = rd(lambda: [len(vk), len(vv), len(vi)])
        d['vv'] = rd(lambda: [cx.vid(v) for v in vv])
        d['vi'] = rd(lambda: cx.kv(vi))
        d['vc'] = rd(lambda: [int(p in vk) for p in probes])
        d['vic'] = rd(lambda: [[int((p, v) in vi) for v in vforms] for p in probes])
        d['vvc'] = rd(lambda: [int(v in vv) for v in vforms])
        # … and views made just now: the old ones must show the same (the statement does not define the views, but reads of
        # one mapping may not disagree with one another: a view that lags behind the dictionary does)
        d['vfresh'] = rd(lambda: [[cx.kid(k) for k in s.viewkeys()], [len(s.viewkeys()), len(s.viewvalues()), len(s.viewitems())],
                                  [cx.vid(v) for v in s.viewvalues()], cx.kv(s.viewitems())])
        # the storage once more, AFTER everything above was scribbled on (ownership layer of the model: `OW`)
        d['ow'] = rd(lambda: sorted([cx.kid(k), [cx.vid(v) for v in vs]] for k, vs in s.todict(multi=True).items()))
        d['repr'] = rd(lambda: int(repr(s) == '%s([%s])' % (type(s).__name__, ', '.join(
            repr((k, v)) for k, v in s.items(multi=True)))))
        d['cnt'] = rd(lambda: type(s.counts()) is type(s))
        d['eqself'] = rd(lambda: [int(s == s), int(s != s)])
        # the other register: its own keyed and ordered readers (it may have been an argument or a copy of `s`)
        d['t2'] = rd(lambda: [len(t), [cx.kid(k) for k in t.keys()], [[cx.vid(v) for v in t.getlist(p)] for p in probes],
                              cx.kv(t.items())])
        return d

    # ------------------------------------------------------------------ canonical text (= driver output)
    @staticmethod
    def _nats(l):
        return ','.join(str(x) for x in l) or '-'

    @staticmethod
    def _pairs(l):
        return ','.join('%s.%s' % (k, v) for k, v in l) or '-'

    @staticmethod
    def _vals(l):
        return '/'.join(str(x) for x in l) or '-'

    def _e(self, x, f):
        if isinstance(x, dict) and '!' in x:
            return '!' + x['!']
        return f(x)

    def render(self, case, obs):
        recs = []
        for o in obs:
            if 'exc' in o:
                recs.append('EXC ' + o['exc'])
                continue
            r = o['ret']
            tag = r[0]
            if tag in ('N', 'D'):
                rt = tag
            elif tag == 'RA':
                rt = 'XReject'
            elif tag == 'V':
                rt = 'V%s' % r[1]
            elif tag == 'L':
                rt = 'L' + self._vals(r[1])
            elif tag == 'KV':
                rt = 'KV%s.%s' % (r[1], r[2])
            elif tag == 'X':
                rt = 'X' + self._canon_exc(case['ops'][len(recs)] if len(recs) < len(case['ops']) else None, r[1])
            elif tag == 'B':
                rt = 'B%d%d%d%d' % (r[1], r[2], r[3], r[4])
            elif tag == 'O':
                rt = 'O%s|%s|%d' % (self._pairs(r[1]), self._nats(r[2]), r[3])
            else:
                rt = '?' + str(r[1:])
            d = o['dump']
            e = self._e
            f = [rt,
                 'IM' + e(d['im'], self._pairs), 'I' + e(d['i'], self._pairs),
                 'KM' + e(d['km'], self._nats), 'K' + e(d['k'], self._nats),
                 'VM' + e(d['vm'], self._nats), 'V' + e(d['v'], self._nats),
                 'L' + e(d['len'], str), 'BO' + e(d['bool'], str), 'IT' + e(d['it'], self._nats),
                 'R' + e(d['rv'], self._nats),
                 'TD' + e(d['td'], self._pairs),
                 'TM' + e(d['tm'], lambda l: ','.join('%s=%s' % (k, self._vals(vs)) for k, vs in l)),
                 'G' + ','.join(e(x, str) for x in d['g']),
                 'GL' + ','.join(e(x, self._vals) for x in d['gl']),
                 'GI' + ','.join(e(x, str) for x in d['gi']),
                 'C' + ','.join(e(x, str) for x in d['c']),
                 'CN' + e(d['cn'], self._pairs)]
            if isinstance(d['inv'], dict):
                f += ['IV!' + d['inv']['!'], 'IK', 'IL']
            else:
                f += ['IV' + self._pairs(d['inv'][0]), 'IK' + self._nats(d['inv'][1]), 'IL%d' % d['inv'][2]]
            bits = lambda l: ''.join(str(x) for x in l)
            f += ['VK' + e(d['vk'], self._nats),
                  'VL' + e(d['vl'], lambda l: str(l[0]) if l[0] == l[1] == l[2] else '?%r' % (l,)),
                  'VV' + e(d['vv'], self._nats), 'VI' + e(d['vi'], self._pairs), 'VC' + e(d['vc'], bits),
                  'VIC' + e(d['vic'], lambda ll: ''.join(bits(l) for l in ll)), 'VVC' + e(d['vvc'], bits)]
            f.append('RP' + ('C([%s])' % ', '.join('(%s, %s)' % (k, v) for k, v in d['im'])
                             if d['repr'] == 1 and not isinstance(d['im'], dict) else '?%r' % (d['repr'],)))
            f.append('T' + e(d['t'], self._pairs))
            f.append('OW' + e(d['ow'], lambda l: ','.join('%s=%s' % (k, self._vals(vs)) for k, vs in l)))
            recs.append(' '.join(f))
        return ';'.join(recs)

    def _canon_exc(self, op, name):
        """the statement does not say WHICH exception a malformed item or an argument outside the domain raises:
        for those operations TypeError / ValueError are one observation (the model has one `abort` / `rejected`)"""
        if op is not None and op[0] == 'rej':
            return 'Reject'
        if op is not None and name in ('TypeError', 'ValueError'):
            if op[0] in ('new', 'upd', 'ior', 'ext') and op[1] is not None and op[1][0] == 'p' and op[1][1] == 'y':
                return 'Boom'
        return name

    # ------------------------------------------------------------------ oracle: two plain lists of pairs
    @staticmethod
    def _keys(L):
        seen, out = set(), []
        for k, _ in L:
            if k not in seen:
                seen.add(k)
                out.append(k)
        return out

    @staticmethod
    def _vals_of(L, k):
        return [v for kk, v in L if kk == k]

    def _arg_pairs(self, L, T, E):
        """(kind, pairs) an argument stands for on the plain-list side"""
        if E[0] == 's':
            return 'self', None
        if E[0] == 't':
            return 'omd', list(T)
        if E[0] == 'o':
            return 'omd', [tuple(p) for p in E[1]]
        if E[0] == 'm':
            return 'map', [tuple(p) for p in E[1]]
        if E[0] == 'mm':
            return 'map', [tuple(p) for p in E[2]]
        if E[0] == 'sl':
            return 'pairs', list(L)
        if E[0] == 'sd' or E == ['x', 'td']:
            return 'map', [(k, self._vals_of(L, k)[-1]) for k in self._keys(L)]
        if E[0] == 'x':
            return 'other', None
        return 'pairs', [tuple(p) for p in E[2]]

    @staticmethod
    def _assign(L, k, v):
        return [p for p in L if p[0] != k] + [(k, v)]

    def _replace_by(self, L, ps):
        ks = {k for k, _ in ps}
        return [p for p in L if p[0] not in ks] + list(ps)

    def oracle(self, case, obs):
        L, T = [], []
        pending = None
        self._nt = False
        interleaved = removed = False
        ops = case['ops']
        st = self.stats
        for idx, op in enumerate(ops):
            if idx >= len(obs):
                return Failure('missing', 'no observation for op #%d %r' % (idx, op))
            o = obs[idx]
            if 'exc' in o:
                return Failure('raises', 'history aborted at op #%d %r: %s %s' % (idx, op, o['exc'], o.get('msg', '')))
            ret, d = o['ret'], o['dump']
            name = op[0]
            st[name] = st.get(name, 0) + 1
            exp = ['N']
            exp_fn = None          # custom acceptance of the return value
            cands = None           # acceptable pair lists after an operation whose argument iterable raised
            if name in ('new', 'upd', 'ior', 'ext') and self._aborts(op[1]):
                # the exception of the argument iterable propagates; how much of the argument was taken over
                # before is not prescribed (any prefix), but the dictionary must be consistent afterwards
                exp = ['X', 'Boom']
                ps = [tuple(p) for p in op[1][-1]]
                if op[1][0] == 'p' and op[1][1] == 'y':
                    # a malformed item: some TypeError / ValueError (which one is not prescribed)
                    # (or the item is skipped: the statement is silent about malformed items; then the pairs after it count too)
                    exp_fn = lambda ret: None if (ret[0] == 'X' and ret[1] not in ('CaseTimeout', 'RecursionError')) \
                        or ret == ['N'] else 'a malformed item was answered with %r' % (ret,)
                accepted = exp_fn is not None and ret == ['N']
                if accepted:
                    # every well-formed pair was taken (with or without the one after the malformed item), then the
                    # keyword arguments
                    F = [tuple(p) for p in op[2]] if name in ('new', 'upd', 'ext') else []
                    cands = []
                    for qs in (ps + [(0, 0)], ps):
                        c = (list(qs) if name == 'new' else L + qs if name == 'ext' else self._replace_by(L, qs))
                        if name == 'ext':
                            c = c + F
                        else:
                            for k, v in F:
                                c = self._assign(c, k, v)
                        cands.append(c)
                    removed = True
                elif name == 'new':
                    cands = [L]    # no object was constructed: `s` is still the old dictionary
                elif name == 'ext':
                    cands = [L + ps[:j] for j in range(len(ps), -1, -1)]
                elif op[1][0] == 'mx':
                    cands = []
                    for j in range(len(ps), -1, -1):
                        c = L
                        for k, v in ps[:j]:
                            c = self._assign(c, k, v)
                        cands.append(c)
                    removed = True
                else:
                    cands = [self._replace_by(L, ps[:j]) for j in range(len(ps), -1, -1)]
                    removed = True
            elif name == 'addlist' and op[2] == 'x':
                exp = ['X', 'Boom']
                cands = [L + [(op[1], v) for v in op[3][:j]] for j in range(len(op[3]) + 1)]
            elif name == 'new':
                F = [tuple(p) for p in op[2]]
                if op[1] is None:
                    base = []
                else:
                    kind, ps = self._arg_pairs(L, T, op[1])
                    base = list(L) if kind == 'self' else list(ps)
                for k, v in F:
                    base = self._assign(base, k, v)
                L = base
            elif name == 'add':
                L = L + [(op[1], op[2])]
            elif name == 'addlist':
                L = L + [(op[1], v) for v in op[3]]
            elif name == 'set':
                L = self._assign(L, op[1], op[2])
                removed = True
            elif name == 'del':
                if any(k == op[1] for k, _ in L):
                    L = [p for p in L if p[0] != op[1]]
                    removed = True
                else:
                    exp = ['X', 'KeyError']
            elif name in ('upd', 'ior'):
                kind, ps = self._arg_pairs(L, T, op[1])
                if kind in ('omd', 'pairs'):
                    L = self._replace_by(L, ps)
                elif kind == 'map':
                    for k, v in ps:
                        L = self._assign(L, k, v)
                if name == 'upd':
                    for k, v in op[2]:
                        L = self._assign(L, k, v)
                removed = True
            elif name == 'ext':
                kind, ps = self._arg_pairs(L, T, op[1])
                if kind == 'self':
                    ps = [(k, self._vals_of(L, k)[-1]) for k in self._keys(L)]
                L = L + list(ps) + [tuple(p) for p in op[2]]
            elif name == 'sd':
                vs = self._vals_of(L, op[1])
                if vs:
                    exp = ['V', vs[-1]]
                else:
                    v = NONE_V if op[2] < 0 else op[2]
                    L = L + [(op[1], v)]
                    exp = ['V', v]
            elif name in ('pop', 'popall'):
                vs = self._vals_of(L, op[1])
                if vs:
                    exp = ['V', vs[-1]] if name == 'pop' else ['L', vs]
                    L = [p for p in L if p[0] != op[1]]
                    removed = True
                else:
                    exp = ['D'] if op[2] else ['X', 'KeyError']
            elif name == 'poplast':
                if op[1] < 0:
                    if L:
                        exp = ['V', L[-1][1]]
                        L = L[:-1]
                        removed = True
                    else:
                        exp = ['D'] if op[2] else ['X', 'KeyError']
                else:
                    pos = [i for i, p in enumerate(L) if p[0] == op[1]]
                    if pos:
                        exp = ['V', L[pos[-1]][1]]
                        L = L[:pos[-1]] + L[pos[-1] + 1:]
                        removed = True
                    else:
                        exp = ['D'] if op[2] else ['X', 'KeyError']
            elif name == 'popitem':
                if not L:
                    exp = ['X', 'KeyError']
                else:
                    # any present key, with its most recent value; all its pairs go
                    if ret[0] != 'KV' or not self._vals_of(L, ret[1]) or self._vals_of(L, ret[1])[-1] != ret[2]:
                        return Failure('popitem', 'op #%d popitem() returned %r on pairs %r' % (idx, ret, L))
                    L = [p for p in L if p[0] != ret[1]]
                    exp = ret
                    removed = True
            elif name == 'clear':
                L = []
            elif name in ('it', 'drain', 'selfrepr'):
                pass
            elif name == 'rej':
                # outside the domain of the statement: any exception (or none) is fine, the pairs must stay as they are
                exp_fn = lambda ret: None if ret[0] in ('X', 'RA') else 'a call outside the domain returned %r' % (ret,)
            elif name == 'fk':
                # an alternative constructor the statement does not define: one pair per LISTED key (the code, the model) or
                # one per DISTINCT key (dict.fromkeys) - the dictionary must be consistent with one of them
                dv = NONE_V if op[2] < 0 else op[2]
                cands = [[(k, dv) for k in op[1]], [(k, dv) for k in self._keys([(k, 0) for k in op[1]])]]
            elif name == 'swap':
                L, T = T, L
            elif name == 'cp':
                if op[2] == 't':
                    T = list(L)
            elif name == 'eq':
                kind, ps = self._arg_pairs(L, T, op[1])
                if kind == 'self':
                    e = True
                elif kind == 'omd':
                    e = (list(ps) == list(L))
                elif kind == 'map':
                    m = dict(ps)
                    e = (set(m) == set(self._keys(L)) and all(m[k] == self._vals_of(L, k)[-1] for k in m))
                else:
                    e = False
                exp = ['B', int(e), int(not e), int(e), int(not e)]
                if op[1][0] == 'mm' and not e and ret[0] == 'B' and ret[1] == 1:
                    # (a defaultdict has grown by the time != / the reflected forms are evaluated: only the first answer counts)
                    # exactly what an `other[k]`-only comparison gives: same size, every key of the dictionary either
                    # matches or is ABSENT from the mapping while the mapping's __missing__ answer equals its value
                    m, z, ks = dict(ps), MISSING_FORMS[op[1][1]], self._keys(L)
                    if len(m) == len(ks) and all((m[k] == self._vals_of(L, k)[-1]) if k in m else
                                                 (self._vals_of(L, k)[-1] == z) for k in ks):
                        # a query: the dictionary is untouched, so the rest of the history is still judged (a different
                        # failure further on takes precedence over this known one)
                        pending = pending or Failure('eq:missing', 'op #%d %r: == is True although the mapping %r lacks a key '
                                                     'of the pairs %r (its __missing__ answered for it)' % (idx, op, m, L))
                        exp = ret
            elif name == 'sorted':
                fn = {'n': (lambda p: p), 'k': (lambda p: p[0]), 'v': (lambda p: p[1]), 'c': (lambda p: 0)}[op[1]]
                res = sorted(L, key=fn, reverse=bool(op[2]))
                exp = ['O', [list(p) for p in res], self._keys(res), len(self._keys(res))]
            elif name == 'sv':
                fn = {'n': (lambda v: v), 'm': (lambda v: v % 2), 'g': (lambda v: -v), 'c': (lambda v: 0)}[op[1]]

                def exp_fn(ret, L=L, fn=fn, rev=bool(op[2])):
                    if ret[0] != 'O':
                        return 'returned %r' % (ret,)
                    res = [tuple(p) for p in ret[1]]
                    if [k for k, _ in res] != [k for k, _ in L]:
                        return 'key sequence changed: %r' % (res,)
                    for k in self._keys(L):
                        got = self._vals_of(res, k)
                        if sorted(got) != sorted(self._vals_of(L, k)):
                            return 'values of key %r changed: %r' % (k, got)
                        ks = [fn(v) for v in got]
                        if ks != sorted(ks, reverse=rev):
                            return 'values of key %r not sorted: %r' % (k, got)
                    if ret[2] != self._keys(res) or ret[3] != len(self._keys(res)):
                        return 'result OMD inconsistent: %r' % (ret,)
                    return None
            else:
                return Failure('harness', 'unknown op %r' % (op,))
            if cands is not None:
                st['aborted'] = st.get('aborted', 0) + 1
                L = next((c for c in cands if [list(p) for p in c] == d.get('im')), cands[0])
            # ---- the return value
            if exp_fn is not None:
                why = exp_fn(ret)
                if why:
                    return Failure(name, 'op #%d %r: %s (pairs before: %r)' % (idx, op, why, L))
            elif ret != exp:
                f = Failure('ret:' + name, 'op #%d %r returned %r, a plain list of pairs gives %r' % (idx, op, ret, exp))
                if name == 'selfrepr' and ret == ['X', 'RecursionError']:
                    pending = pending or f       # a query on a separate object: go on judging the history
                else:
                    return f
            # ---- every reader, after this prefix of the history
            f = self._check_reads(L, T, d)
            if f is not None:
                return Failure(f[0], 'after op #%d %r (pairs should be %r): %s' % (idx, op, L, f[1]))
            ks = [k for k, _ in L]
            if len(set(ks)) >= 2 and any(ks.count(k) >= 2 for k in set(ks)) and \
                    ks != [k for kk in self._keys(L) for k in [kk] * ks.count(kk)]:
                interleaved = True
        self._nt = interleaved and removed
        st['histories'] = st.get('histories', 0) + 1
        st['cls:' + case['c']] = st.get('cls:' + case['c'], 0) + 1
        st['univ:' + case['u']] = st.get('univ:' + case['u'], 0) + 1
        return pending

    def _check_reads(self, L, T, d):
        keys = self._keys(L)
        last = {k: self._vals_of(L, k)[-1] for k in keys}
        items = [[k, last[k]] for k in keys]
        LL = [list(p) for p in L]
        exp = {
            'im': LL, 'i': items, 'km': [k for k, _ in L], 'k': keys, 'vm': [v for _, v in L],
            'v': [last[k] for k in keys], 'len': len(keys), 'rv': keys[::-1],
            'tm': sorted([k, self._vals_of(L, k)] for k in keys),
            'g': [last.get(k, 'D') for k in range(NK)],
            'gl': [self._vals_of(L, k) for k in range(NK)],
            'gi': [last[k] if k in last else {'!': 'KeyError'} for k in range(NK)],
            'c': [int(k in last) for k in range(NK)],
            'cn': [[k, len(self._vals_of(L, k))] for k in keys],
            't': [list(p) for p in T],
            'it': keys, 'iti': [items, LL, [k for k, _ in L], [last[k] for k in keys]],
            'td': sorted(items),
            'g0': [last.get(k, NONE_V) for k in range(NK)],
            'gld': [self._vals_of(L, k) if k in last else 'D' for k in range(NK)],
            'bool': int(bool(L)), 'repr': 1, 'cnt': True, 'eqself': [1, 0],
            'ow': sorted([k, self._vals_of(L, k)] for k in keys),
        }
        # the view objects are not defined by the statement (the model defines them as the code does: correspondence);
        # what the statement does demand: their reads do not raise and an old view shows what a new one shows
        for name in ('vk', 'vl', 'vv', 'vi', 'vc', 'vic', 'vvc', 'vfresh'):
            if isinstance(d.get(name), dict):
                return ('read:' + name, 'reading a view object raised %s' % d[name].get('!'))
        if [d.get('vk'), d.get('vl'), d.get('vv'), d.get('vi')] != d.get('vfresh'):
            return ('read:views', 'a view object made earlier shows %r, one made now shows %r' % (
                [d.get('vk'), d.get('vl'), d.get('vv'), d.get('vi')], d.get('vfresh')))
        tkeys = self._keys(T)
        exp['t2'] = [len(tkeys), tkeys, [self._vals_of(T, k) for k in range(NK)],
                     [[k, self._vals_of(T, k)[-1]] for k in tkeys]]
        inv = [[v, k] for k, v in L]
        exp['inv'] = [inv, self._keys(inv), len(self._keys(inv))]
        for name, want in exp.items():
            got = d.get(name)
            if got != want:
                return ('read:' + name, '%s gives %r, a plain list of pairs gives %r' % (name, got, want))
        return None

    # known finding (until the fix: commit of branch r3-c01-work is in the checked tree): == against a mapping with
    # __missing__; the oracle raises this tag only on the exact trigger and the exact wrong answer
    def finding_eq_mapping_missing(self, case, failure):
        return failure.tag == 'eq:missing'

    # known finding (until the second fix: commit of branch r3-c01-work is in the checked tree): repr of a dictionary that
    # contains itself
    def finding_repr_selfref(self, case, failure):
        return failure.tag == 'ret:selfrepr' and "['X', 'RecursionError']" in failure.what

    def nontrivial(self, case, obs):
        return getattr(self, '_nt', False)

    # ------------------------------------------------------------------ shrinking
    def shrink(self, case):
        ops = case['ops']
        for i in range(len(ops)):
            yield dict(case, ops=ops[:i] + ops[i + 1:])
        if case['c'] != 'D':
            yield dict(case, c='D')
        if case.get('fs'):
            yield dict(case, fs=0)
        if case['u'] != 'S' and not any('4' in str(op) for op in ops):
            yield dict(case, u='S')
        for i, op in enumerate(ops):
            # shrink pair lists / value lists inside arguments
            if op[0] in ('upd', 'ext', 'new', 'ior', 'eq') and op[1] is not None and op[1][0] in ('o', 'm', 'p', 'mx', 'mm'):
                E = op[1]
                ps = E[-1]
                for j in range(len(ps)):
                    E2 = E[:-1] + [ps[:j] + ps[j + 1:]]
                    yield dict(case, ops=ops[:i] + [[op[0], E2] + op[2:]] + ops[i + 1:])
            if op[0] in ('upd', 'ext', 'new') and op[2]:
                yield dict(case, ops=ops[:i] + [[op[0], op[1], []]] + ops[i + 1:])
            if op[0] == 'addlist' and op[3]:
                for j in range(len(op[3])):
                    yield dict(case, ops=ops[:i] + [op[:3] + [op[3][:j] + op[3][j + 1:]]] + ops[i + 1:])
            if op[0] == 'cp' and op[1] != 'copy':
                yield dict(case, ops=ops[:i] + [['cp', 'copy', op[2]]] + ops[i + 1:])


PROPERTY = C01
