"""C20 - ThresholdCounter: never over-counts, under-counts boundedly, (size bound: known finding)."""
import collections
import collections.abc
import decimal
import fractions
import itertools
import math
import random
import re
import types

from bv.common import Property, Failure, time_limit, exc_name

# thresholds as floats; floor(1/threshold) is computed by the harness, independently
THRESHOLDS = [1 / n for n in range(2, 13)] + [0.3, 0.7, 0.999, 0.0625, 0.04, 1 / 24, 0.021, 0.51,
                                              0.4, 0.6, 0.15, 0.08, 0.9, 0.34, 0.26]
# thresholds given as exact rationals / decimal strings (passed as Fraction / Decimal objects)
FRACTIONS = [[1, 2], [1, 3], [2, 5], [3, 10], [2, 7], [1, 6], [3, 4], [5, 17], [1, 10], [7, 100]]
DECIMALS = ['0.5', '0.25', '0.3', '0.1', '0.125', '0.7', '0.34', '0.06']

MAPPING_KINDS = ('m', 'kw', 'mkw', 'mp', 'ud', 'cm', 'tc')

# positional argument kinds of the general update op  ['up', poskind, posdata, kw]
ITER_KINDS = ('list', 'gen', 'tuple', 'iter', 'dkeys', 'deque', 'seq', 'it', 'fset')
MAP_KINDS = ('dict', 'mp', 'ud', 'cm', 'ctr', 'od', 'dd', 'abc')

# mixed key palette (case['kp'] == 1): even indices are non-string hashables (None, falsy values, a
# 2-tuple that looks like a (key, count) pair, frozenset, bytes, float, negative int), odd indices stay
# strings so that they can be passed as keywords
_EXOTIC = {0: None, 2: 0, 4: ('k4', 2), 6: '', 8: frozenset({8}), 10: 2.5, 12: b'k12', 14: -1, 16: ('a', 'b'),
           18: (), 20: 10 ** 20}


def key(k, kp=0):
    if kp and k % 2 == 0:
        return _EXOTIC[k] if k in _EXOTIC else ('x', k)
    return 'k%d' % k


class _Seq:
    """iterable through the old sequence protocol only (__getitem__ + IndexError)"""

    def __init__(self, l):
        self._l = list(l)

    def __getitem__(self, i):
        return self._l[i]


class _It:
    """iterable through __iter__ only, and falsy (an emptiness test must not be used on it)"""

    def __init__(self, l):
        self._l = list(l)

    def __iter__(self):
        return iter(list(self._l))

    def __bool__(self):
        return False


class _Map(collections.abc.Mapping):
    """a Mapping that is not a dict subclass"""

    def __init__(self, pairs):
        self._d = dict(pairs)

    def __getitem__(self, k):
        return self._d[k]

    def __iter__(self):
        return iter(self._d)

    def __len__(self):
        return len(self._d)


def build_pos(kind, data, kp):
    """the object handed to update() as positional argument (standard-library semantics only)"""
    if kind in ITER_KINDS:
        ks = [key(k, kp) for k in data]
        if kind == 'list':
            return ks
        if kind == 'gen':
            return (k for k in ks)
        if kind == 'tuple':
            return tuple(ks)
        if kind == 'iter':
            return iter(ks)
        if kind == 'dkeys':
            return dict.fromkeys(ks).keys()
        if kind == 'deque':
            return collections.deque(ks)
        if kind == 'seq':
            return _Seq(ks)
        if kind == 'it':
            return _It(ks)
        if kind == 'fset':
            return frozenset(ks)
    if kind == 'cm':
        return collections.ChainMap(*[{key(k, kp): c for k, c in part} for part in data])
    pairs = [(key(k, kp), c) for k, c in data]
    if kind == 'dict':
        return dict(pairs)
    if kind == 'mp':
        return types.MappingProxyType(dict(pairs))
    if kind == 'ud':
        return collections.UserDict(dict(pairs))
    if kind == 'ctr':
        return collections.Counter(dict(pairs))
    if kind == 'od':
        return collections.OrderedDict(pairs)
    if kind == 'dd':
        d = collections.defaultdict(int)
        d.update(pairs)
        return d
    if kind == 'abc':
        return _Map(pairs)
    raise ValueError(kind)


_JUNK = ('#caller', 10 ** 6)


def spoil(obj):
    """what a caller may do with a container an API call handed back: reorder it, drop and add entries, empty
    it (and the same for mutable elements). Only ever applied to RETURNED objects / to arguments after the call
    that received them has returned; never reaches into the counter."""
    try:
        if isinstance(obj, list):
            for x in obj:
                if isinstance(x, (list, dict, set)):
                    x.clear()
            obj.reverse()
            if obj:
                obj.pop()
            obj.append(_JUNK)
            obj.insert(0, _JUNK)
        elif isinstance(obj, (dict, set, collections.deque, collections.UserDict)):
            obj.clear()
        elif hasattr(obj, '__next__'):
            for _ in obj:       # exhaust a returned iterator
                pass
    except Exception:
        pass


class C20(Property):
    PID = 'C20'
    QUICK_BUDGET_S = 40
    THOROUGH_BUDGET_S = 600
    RULE = ('a case is one whole history over 1-3 counters of one threshold (float, Fraction or Decimal): add / '
            'update(positional, **kw) / update(other counter or the counter itself) / re-creation of a counter / '
            'most_common(n) calls over a small key alphabet; every reader of EVERY counter is dumped after every '
            'mutator (in a per-case reader order); every container a reader hands back (items/keys/values/most_common '
            'lists, most_common(n) list, elements/iterkeys iterators) is then modified in place by the caller (reordered, '
            'entries dropped and added / exhausted) and the reader is asked again with nothing added in between: the '
            'second answer must be the first; every mutable argument of update() is emptied or polluted after the call '
            'returned. most_common results are compared up to the order among equal counts (and the choice among ties '
            'at the cut of most_common(n)); get_commonality() as the exact ratio it stands for. The positional argument is None, one of 9 iterable kinds '
            '(list, generator, tuple, iterator, dict keys view, deque, __getitem__-only sequence, falsy __iter__-only '
            'object, frozenset) or one of 8 mapping kinds (dict, mappingproxy, UserDict, ChainMap with overlapping '
            'maps, Counter, OrderedDict, defaultdict, abc.Mapping subclass), combined with keyword counts whose keys '
            'may also occur positionally; counts range over 0 .. 3w+2 (one call spanning several compactions). Keys: '
            'strings, or a mixed palette (None, 0, "", pair-like tuples, frozenset, bytes, float, big int). '
            'Small families first: every positional kind x keyword overlap templates; all 2-counter histories of '
            'length <= 4 over {add, switch, update(other), update(self), re-create}; bulk counts around multiples of '
            'w; mixed-key streams; exact-rational thresholds; long updates at thresholds 0.001/0.01; "sparse" histories '
            '(no reader runs between consecutive mutators: all add-streams <= 5/6 over 3 keys, one most_common at every '
            'position); adaptive streams: add-streams evolved against the live implementation (public API only) to '
            'maximise the tracked-key count / the shortfall beyond the slack at 9 thresholds (0.25, 1/3, 0.2, 0.34, '
            '0.51, 0.15, 0.5, 0.4, 0.9), evaluation-count bounded, judged like any other case. Then exhaustive: '
            'all add-streams up to length L over 3 keys for w=1..6; random mixed histories; adversarial "just '
            'survives" streams. Non-trivial = at least one compaction happened and at least one key was evicted or '
            'under-counted; distinct = distinct case.')
    ASSUMPTIONS = ['keys are hashable with == consistent with hash; counts in mappings are non-negative ints',
                   'model parameter w = floor(1/threshold) is computed by the harness with float division for float '
                   'thresholds; Fraction / Decimal thresholds are handed to the model as p/q (its constructor derives w)',
                   'a ThresholdCounter passed to update() counts as the mapping its items() reports at that moment']
    CORRESPONDENCE_NAME = 'C20.Driver (ThresholdCounter model) vs boltons.cacheutils.ThresholdCounter'

    # ------------------------------------------------------------------ parameters of a case
    @staticmethod
    def w_of(case):
        if 'thq' in case:
            return case['thq'][1] // case['thq'][0]
        if 'thd' in case:
            return math.floor(1 / fractions.Fraction(case['thd']))
        return math.floor(1 / case['th'])

    @staticmethod
    def th_obj(case):
        if 'thq' in case:
            return fractions.Fraction(case['thq'][0], case['thq'][1])
        if 'thd' in case:
            return decimal.Decimal(case['thd'])
        return case['th']

    @staticmethod
    def th_exact(case):
        if 'thq' in case:
            return fractions.Fraction(case['thq'][0], case['thq'][1])
        if 'thd' in case:
            return fractions.Fraction(case['thd'])
        return None

    # ------------------------------------------------------------------ generation
    def cases(self, budget_s):
        rng = self.rng
        # ---- small adversarial families first
        for c in self.fam_kwmix():
            yield c
        for c in self.fam_two_counters(4):
            yield c
        for c in self.fam_bulk():
            yield c
        for c in self.fam_palette():
            yield c
        for c in self.fam_thresholds(rng, 150):
            yield c
        for c in self.fam_long(rng):
            yield c
        for c in self.fam_sparse():
            yield c
        k = 4 if self.thorough else 1
        for c in self.fam_adaptive(rng, [(0.25, 'size', 30000 * k), (1 / 3, 'size', 20000 * k), (0.2, 'size', 10000 * k), (0.34, 'size', 10000 * k),
                                         (0.51, 'size', 10000 * k), (0.15, 'size', 8000 * k),
                                         (0.5, 'size', 8000 * k), (0.4, 'size', 4000 * k), (0.9, 'size', 2000 * k),
                                         (0.25, 'under', 1500 * k), (0.5, 'under', 1500 * k), (0.3, 'under', 1500 * k)]):
            yield c
        for i in range(600):
            yield self.random_case(rng, rich=True)
        # ---- exhaustive add-streams
        L = 7 if self.thorough else 6
        for w in range(1, 7):
            th = {1: 0.7, 2: 0.5, 3: 1 / 3, 4: 0.25, 5: 0.2, 6: 1 / 6}[w]
            for n in range(0, L + 1):
                for st in itertools.product(range(3), repeat=n):
                    yield {'th': th, 'nk': 3, 'ops': [['a', k] for k in st]}
        n_rand = 40000 if self.thorough else 2500
        for i in range(n_rand):
            yield self.random_case(rng, big=self.thorough and i % 10 == 0, rich=i % 2 == 1)
        for c in self.adversarial(rng, 300 if self.thorough else 40):
            yield c
        if self.thorough:
            for c in self.fam_two_counters(5):
                yield c

    def deep_cases(self, budget_s):
        rng = self.rng
        for c in self.fam_adaptive(rng, [(th, 'size', 40000) for th in (1 / 3, 0.25, 0.34, 0.51, 0.5, 0.4, 0.15, 0.2, 1 / 6, 0.9, 0.125)] +
                                   [(th, 'under', 6000) for th in (0.5, 1 / 3, 0.3, 0.25, 0.2, 0.125)]):
            yield c
        for c in self.adversarial(rng, 200):
            yield c
        while True:
            yield self.random_case(rng, big=rng.random() < 0.2, rich=rng.random() < 0.5)

    # every positional kind combined with keyword counts: disjoint, overlapping, zero and bulk counts
    def fam_kwmix(self):
        ths = [0.5, 1 / 3, 0.25, 0.7]
        n = 0
        iter_templates = [([0, 1, 0], [[0, 2], [2, 1]]), ([1], [[1, 1]]), ([], [[0, 3]]), ([0, 0, 0, 1], [[1, 4], [0, 1]]),
                          ([2, 1, 0], None), ([0, 1], [])]
        map_templates = [([[0, 3], [1, 1]], [[0, 2]]), ([[0, 1]], [[0, 1]]), ([[0, 0], [1, 2]], [[1, 0], [0, 5]]),
                         ([[0, 2], [1, 2], [2, 2]], [[2, 1], [1, 1], [0, 1]]), ([], [[0, 2], [1, 1]]),
                         ([[1, 7]], [[1, 6], [0, 1]]), ([[0, 2], [1, 1]], None)]
        for pre in ([], [['a', 0], ['a', 1]]):
            for kp in (0, 1):
                sh = (lambda k: 2 * k + 1) if kp else (lambda k: k)                    # keyword-able (string) keys
                shp = (lambda k: 4 if k == 2 else 2 * k + 1) if kp else (lambda k: k)   # positional: one exotic key
                for kind in ITER_KINDS:
                    for ks, kw in iter_templates:
                        if kind == 'dkeys' and len(set(ks)) != len(ks):
                            ks = sorted(set(ks), reverse=True)
                        if kind == 'fset':
                            ks = sorted(set(ks))
                        n += 1
                        yield self._mk(ths[n % 4], 3, pre + [['up', kind, [shp(k) for k in ks],
                                                              None if kw is None else [[sh(k), c] for k, c in kw]],
                                                             ['a', sh(0)]], kp)
                for kind in MAP_KINDS:
                    for kcs, kw in map_templates:
                        data = [[shp(k), c] for k, c in kcs]
                        if kind == 'cm':     # overlapping maps: the FIRST map's count is the mapping's count
                            data = [data[:1] + [[shp(2), 1]], data + [[shp(2), 4]]]
                        n += 1
                        yield self._mk(ths[n % 4], 3, pre + [['up', kind, data,
                                                              None if kw is None else [[sh(k), c] for k, c in kw]],
                                                             ['a', sh(1)]], kp)
                for _, kw in map_templates:
                    n += 1
                    yield self._mk(ths[n % 4], 3, pre + [['up', 'none', None,
                                                          None if kw is None else [[sh(k), c] for k, c in kw]]], kp)

    @staticmethod
    def _mk(th, nk, ops, kp=0, **extra):
        c = {'th': th, 'nk': nk * (2 if kp else 1) + (1 if kp else 0), 'ops': ops}
        if kp:
            c['kp'] = 1
        c.update(extra)
        return c

    # all histories of length <= n over two counters: add, switch, update(other), update(self), re-create
    def fam_two_counters(self, n):
        alphabet = [['a', 0], ['a', 1], ['i', 0], ['i', 1], ['t', 0], ['t', 1], ['n']]
        for w, th in ((1, 0.7), (2, 0.5), (3, 1 / 3)):
            for ln in range(1, n + 1):
                for seq in itertools.product(alphabet, repeat=ln):
                    if seq[-1][0] == 'i' or any(seq[i][0] == 'i' and seq[i + 1][0] == 'i' for i in range(ln - 1)):
                        continue
                    if seq[0][0] in ('t', 'n'):     # nothing to absorb / re-create yet
                        continue
                    yield {'th': th, 'nk': 2, 'ni': 2, 'ops': [list(o) for o in seq]}

    # bulk counts around multiples of the bucket width (one call crosses 0, 1, 2 or 3 compaction boundaries)
    def fam_bulk(self):
        n = 0
        for w, th in ((1, 0.7), (2, 0.5), (3, 1 / 3), (4, 0.25), (10, 0.1)):
            counts = sorted({0, 1, w - 1, w, w + 1, 2 * w, 2 * w + 1, 3 * w + 2} - {-1})
            choices = [(k, c) for k in range(3) for c in counts]
            for a in choices:
                for b in [None] + choices:
                    n += 1
                    kind = ('m', 'kw', 'tc', 'ud')[n % 4]
                    ops = [[kind, [list(a)]]] + ([[kind, [list(b)]]] if b else []) + [['a', 2]]
                    yield {'th': th, 'nk': 3, 'ops': ops}

    # no reader between mutators: all add-streams of length <= 5 over 3 keys, read only at the end / around one
    # most_common call placed at every position
    def fam_sparse(self):
        for th, top in ((0.999, 6), (0.5, 5), (1 / 3, 5)):
            for n in range(2, top + 1):
                for st in itertools.product(range(3), repeat=n):
                    ops = [['a', k] for k in st]
                    yield {'th': th, 'nk': 3, 'sp': 1, 'ops': ops}
                    if n == 4:
                        for pos in range(1, n):
                            yield {'th': th, 'nk': 3, 'sp': 1, 'ops': ops[:pos] + [['q', 2]] + ops[pos:]}

    def fam_palette(self):
        for w, th in ((1, 0.7), (2, 0.5), (3, 1 / 3)):
            for n in range(1, 5):
                for st in itertools.product((0, 2, 4), repeat=n):
                    yield {'th': th, 'nk': 5, 'kp': 1, 'ops': [['a', k] for k in st]}
        ks = list(range(0, 21))
        for th in (0.5, 0.25, 0.1):
            yield {'th': th, 'nk': 21, 'kp': 1, 'ops': [['u', ks], ['ug', ks[::-1]], ['up', 'dict', [[k, 2] for k in ks], None],
                                                       ['q', 3], ['up', 'fset', ks[::2], [[1, 2], [3, 1]]]]}

    def fam_thresholds(self, rng, n):
        for i in range(n):
            c = self.random_case(rng, rich=i % 3 == 0)
            if i % 2:
                c['thq'] = rng.choice(FRACTIONS)
                c['th'] = c['thq'][0] / c['thq'][1]
            else:
                c['thd'] = rng.choice(DECIMALS)
                c['th'] = float(c['thd'])
            yield c

    def fam_long(self, rng):
        for th, nk, n in ((0.001, 40, 2600), (0.001, 1500, 2100), (0.01, 30, 700), (0.01, 400, 650), (0.021, 60, 300)):
            ks = [rng.randrange(nk) if rng.random() < 0.7 else rng.randrange(1 + nk // 10) for _ in range(n)]
            yield {'th': th, 'nk': nk, 'ops': [['ug', ks[:n // 2]], ['up', 'dict', [[rng.randrange(nk), int(1 / th) + 3]], None],
                                               ['u', ks[n // 2:]], ['q', 5], ['a', 0]]}

    # ---- adaptive search: streams evolved AGAINST THE LIVE IMPLEMENTATION (public API only) towards a clause's
    # margin: 'size' = most tracked keys at any prefix (vs 2/threshold), 'under' = largest shortfall of a reported
    # count beyond the slack. The result is an ordinary add-stream case, judged like every other case.
    @staticmethod
    def _harmonic(w, B):
        st, nxt = [], 0
        for j in range(1, B):
            c = B - j + 1
            for _ in range(w // c):
                st += [nxt] * c
                nxt += 1
            if w % c:
                st += [nxt] * (w % c)
                nxt += 1
        return st + list(range(nxt, nxt + w - 1))

    @staticmethod
    def _mutate(st, rng, w):
        st = list(st)
        n = len(st)
        if rng.random() < 0.25:
            # boundary-aware: put something else / a fresh key just before, on or after a bucket boundary
            b = rng.randrange(1, n // w + 1) * w + rng.choice([-1, -1, 0, 1]) - 1
            b = min(max(b, 0), n - 1)
            if rng.random() < 0.5:
                j = rng.randrange(n)
                st[b], st[j] = st[j], st[b]
            else:
                st[b] = max(st) + 1 if rng.random() < 0.5 else rng.choice(st)
            return st
        r = rng.random()
        if r < 0.3:
            i, j = rng.randrange(n), rng.randrange(n)
            st[i], st[j] = st[j], st[i]
        elif r < 0.5:
            st[rng.randrange(n)] = rng.choice(st)
        elif r < 0.65:
            st[rng.randrange(n)] = max(st) + 1
        elif r < 0.8:
            k = st.pop(rng.randrange(n))
            st.insert(rng.randrange(n), k)
        elif r < 0.9:
            st.insert(rng.randrange(n + 1), rng.choice(st))
        elif n > 2:
            st.pop(rng.randrange(n))
        return st

    def _fitness(self, th, w, stream, objective):
        from boltons.cacheutils import ThresholdCounter
        tc = ThresholdCounter(threshold=th)
        best = area = 0
        if objective == 'size':
            for k in stream:
                tc.add(k)
                n = len(tc)
                if n > best:
                    best = n
                area += n
            return best, area
        true = {}
        best = -10 ** 9
        total = 0
        for k in stream:
            tc.add(k)
            total += 1
            true[k] = true.get(k, 0) + 1
            slack = total // w
            m = max(t - tc.get(kk) for kk, t in true.items()) - slack
            if m > best:
                best = m
            area += m
        return best, area

    def fam_adaptive(self, rng, plan):
        """plan: [(threshold, objective, evaluations)]"""
        for th, objective, evals in plan:
            w = math.floor(1 / th)
            goal = 2 / th if objective == 'size' else 0
            best_f, best_st, used = None, None, 0
            try:
                with time_limit(20):
                    restart = 0
                    while used < evals and not (best_f is not None and best_f[0] > goal):
                        B = rng.randint(3, 8)
                        ws = w + restart % 2      # the implementation's bucket width may be off by one
                        restart += 1
                        cur = self._harmonic(ws, B) if rng.random() < 0.7 else \
                            [rng.randrange(2 * ws + 1) for _ in range(B * ws)]
                        f = self._fitness(th, w, cur, objective)
                        used += 1
                        stall = 0
                        while stall < 600 and used < evals and f[0] <= goal:
                            c2 = self._mutate(cur, rng, ws)
                            f2 = self._fitness(th, w, c2, objective)
                            used += 1
                            if f2 >= f:
                                if f2 > f:
                                    stall = 0
                                cur, f = c2, f2
                            stall += 1
                        if best_f is None or f > best_f:
                            best_f, best_st = f, cur
            except Exception:       # a broken implementation: hand the stream over, impl() records what happens
                best_st = best_st or cur
            self.stats['adaptive:%s:%.3f' % (objective, th)] = list(best_f) if best_f else None
            if best_st:
                names = {}
                st = [names.setdefault(k, len(names)) for k in best_st]
                yield {'th': th, 'nk': len(names), 'ops': [['a', k] for k in st]}

    def random_case(self, rng, big=False, rich=False):
        th = rng.choice(THRESHOLDS)
        w = math.floor(1 / th)
        nk = rng.choice([2, 3, 4, 6, 9]) if not big else rng.choice([12, 30, 60])
        nops = rng.randint(1, 25) if not big else rng.randint(20, 120)
        kp = 1 if rich and rng.random() < 0.3 else 0
        ni = rng.choice([1, 2, 2, 3]) if rich and rng.random() < 0.4 else 1
        ops = []
        heavy = rng.randrange(nk)
        strk = [k for k in range(nk) if not kp or k % 2 == 1]      # keys usable as keywords

        def pick():
            return heavy if rng.random() < 0.35 else rng.randrange(nk)

        def cnt():
            r = rng.random()
            if not rich or r < 0.7:
                return rng.randint(0, 4)
            return rng.choice([w - 1, w, w + 1, 2 * w, 2 * w + 1, 3 * w + 2]) if w <= 12 else rng.randint(0, 9)

        def pairs(pool, mx=3):
            ks = rng.sample(pool, rng.randint(0, min(len(pool), mx)))
            return [[k, cnt()] for k in ks]
        for _ in range(nops):
            r = rng.random()
            if r < 0.45:
                ops.append(['a', pick()])
            elif r < 0.6:
                ops.append([rng.choice(['u', 'ug', 'ut']), [pick() for _ in range(rng.randint(0, 6))]])
            elif r < 0.72:
                if kp:
                    ops.append([rng.choice(['m', 'mp', 'ud', 'tc']), pairs(range(nk))])
                else:
                    ops.append([rng.choice(MAPPING_KINDS), pairs(range(nk))])
            elif r < 0.85:
                if not rich:
                    ops.append(['q', rng.choice([-1, 0, 1, 2, 3, 50])])
                    continue
                kw = None if rng.random() < 0.2 else pairs(strk)
                rr = rng.random()
                if rr < 0.1:
                    ops.append(['up', 'none', None, kw])
                elif rr < 0.45:
                    kind = rng.choice(ITER_KINDS)
                    ks = [pick() for _ in range(rng.randint(0, 5))]
                    if kw and rng.random() < 0.6 and kw[0][0] not in ks:
                        ks.append(kw[0][0])
                    if kind in ('dkeys', 'fset'):
                        ks = list(dict.fromkeys(ks))
                    ops.append(['up', kind, ks, kw])
                else:
                    kind = rng.choice(MAP_KINDS)
                    data = pairs(range(nk))
                    if kw and rng.random() < 0.7 and all(k != kw[0][0] for k, _ in data):
                        data.append([kw[0][0], cnt()])
                    if kind == 'cm':
                        cut = rng.randint(0, len(data))
                        data = [data[:cut] + [[k, cnt()] for k, _ in data[cut:cut + 1]], data[cut:]]
                    ops.append(['up', kind, data, kw])
            elif r < 0.93 or ni == 1:
                ops.append(['q', rng.choice([-1, 0, 1, 2, 3, 50, rng.randint(0, nk + 1)])])
            else:
                rr = rng.random()
                if rr < 0.4:
                    ops.append(['i', rng.randrange(ni)])
                elif rr < 0.9:
                    ops.append(['t', rng.randrange(ni)])
                else:
                    ops.append(['n'])
        if rich and ni == 1 and rng.random() < 0.1:
            ops.append(['t', 0])
            ops.append(['a', pick()])
        c = {'th': th, 'nk': nk, 'ops': ops}
        if kp:
            c['kp'] = 1
        if ni > 1:
            c['ni'] = ni
        if rich and rng.random() < 0.5:
            c['ro'] = rng.randrange(1000)
        if rich and ni == 1 and rng.random() < 0.3 and all(o[0] not in ('t', 'n', 'i') for o in ops):
            c['sp'] = 1
        return c

    def adversarial(self, rng, n):
        """streams built so that many keys just survive each compaction (stress the size bound / slack)"""
        for _ in range(n):
            w = rng.choice([4, 6, 8, 12, 24])
            th = 1 / w
            stream = []
            nxt = 0
            rounds = rng.randint(2, 4)
            for r in range(rounds, 0, -1):
                # keys that appear r+1 times spread so that each survives r compactions
                cnt = max(1, (w * 1) // (r + 1))
                for _k in range(cnt):
                    stream += [nxt] * (r + 1)
                    nxt += 1
            stream += list(range(nxt, nxt + w - 1))
            nxt += w - 1
            if rng.random() < 0.5:
                rng.shuffle(stream)
            yield {'th': th, 'nk': nxt, 'ops': [['a', k] for k in stream]}

    # ------------------------------------------------------------------ what an update call is given
    @staticmethod
    def legacy_split(op):
        """(positional pairs, keyword pairs) of the older mapping op kinds, in iteration order"""
        kind, data = op[0], op[1]
        if kind == 'kw':
            return None, data
        if kind == 'mkw':
            half = len(data) // 2
            return data[:half], data[half:]
        if kind == 'cm':     # ChainMap iterates its LAST map first
            half = len(data) // 2
            return data[half:] + data[:half], None
        return data, None

    def up_effect(self, case, op):
        """('keys', [k..]) / ('map', [[k, c]..]) / None for the positional argument of an 'up' op, in the
        order in which the standard-library object yields them"""
        kp = case.get('kp', 0)
        kind, data = op[1], op[2]
        if kind == 'none':
            return None
        rev = self.rev(case)
        obj = build_pos(kind, data, kp)
        if kind in ITER_KINDS:
            return ('keys', [int(rev[k][1:]) for k in obj])
        return ('map', [[int(rev[k][1:]), c] for k, c in obj.items()])

    def rev(self, case):
        kp = case.get('kp', 0)
        ck = (kp, case['nk'])
        cache = self.__dict__.setdefault('_rev', {})
        if ck not in cache:
            cache[ck] = {key(k, kp): 'k%d' % k for k in range(max(case['nk'], 22))}
        return cache[ck]

    @staticmethod
    def dumps_after(case, i):
        """sparse cases (case['sp'], one counter, additions and most_common only) read the counter only before a
        most_common call and at the end: no reader runs between consecutive mutators"""
        if not case.get('sp'):
            return True
        ops = case['ops']
        return i + 1 >= len(ops) or ops[i + 1][0] == 'q'

    def ordered_additions(self, case, op):
        """the key sequence one addition-type op feeds to add(), in order (used for the model line of sparse
        cases, where a run of mutators is one model `update(iterable)`)"""
        kind = op[0]
        if kind == 'a':
            return [op[1]]
        if kind in ('u', 'ug', 'ut'):
            return list(op[1])
        if kind in MAPPING_KINDS:
            pos, kw = self.legacy_split(op)
            return [k for k, c in (pos or []) + (kw or []) for _ in range(c)]
        eff = self.up_effect(case, op)
        out = []
        if eff is not None:
            out = list(eff[1]) if eff[0] == 'keys' else [k for k, c in eff[1] for _ in range(c)]
        return out + [k for k, c in (op[3] or []) for _ in range(c)]

    # ------------------------------------------------------------------ model line
    def line(self, case):
        def ps(l):
            return ','.join('%d:%d' % (k, c) for k, c in l) or '-'

        def ns(l):
            return ','.join(map(str, l)) or '-'
        ni = case.get('ni', 1)
        ex = self.th_exact(case)
        # exact thresholds (Fraction / Decimal) go to the model as p/q: its constructor derives the bucket width
        toks = [str(self.w_of(case)) if ex is None else '%d/%d' % (ex.numerator, ex.denominator),
                str(case['nk']) + ('x%d' % ni if ni > 1 else '')]
        if case.get('sp'):
            run = []
            for i, op in enumerate(case['ops']):
                if op[0] == 'q':
                    toks.append('q%d' % op[1])
                    continue
                run += self.ordered_additions(case, op)
                if self.dumps_after(case, i):
                    toks.append('u' + ns(run))
                    run = []
            return ' '.join(toks)
        for op in case['ops']:
            kind = op[0]
            if kind == 'a':
                toks.append('a%d' % op[1])
            elif kind in ('u', 'ug', 'ut'):
                toks.append('u' + ns(op[1]))
            elif kind == 'mkw':
                pos, kw = self.legacy_split(op)
                toks.append('M' + ps(pos) + '+' + ps(kw))
            elif kind in MAPPING_KINDS:
                pos, kw = self.legacy_split(op)
                toks.append('m' + ps(pos if pos is not None else kw))
            elif kind == 'up':
                eff = self.up_effect(case, op)
                kw = op[3]
                if eff is None:
                    if kw:      # only keywords: update(kwargs)
                        toks.append('m' + ps(kw))
                    else:       # update() - nothing happens, but the harness still dumps
                        toks.append('u-')
                elif eff[0] == 'keys':
                    toks.append('u' + ns(eff[1]) if kw is None else 'U' + ns(eff[1]) + '+' + ps(kw))
                else:
                    toks.append('m' + ps(eff[1]) if kw is None else 'M' + ps(eff[1]) + '+' + ps(kw))
            elif kind == 't':
                toks.append('t%d' % op[1])
            elif kind == 'n':
                toks.append('n')
            elif kind == 'i':
                toks.append('i%d' % op[1])
            elif kind == 'q':
                toks.append('q%d' % op[1])
        return ' '.join(toks)

    # ------------------------------------------------------------------ implementation
    def impl(self, case):
        from boltons.cacheutils import ThresholdCounter
        out = []
        kp = case.get('kp', 0)
        rev = self.rev(case)

        def K(k):
            return key(k, kp)

        def kname(obj):
            try:
                return rev[obj]
            except (KeyError, TypeError):
                return '?%r' % (obj,)
        try:
            with time_limit(20):
                th = self.th_obj(case)
                tcs = [ThresholdCounter(threshold=th) for _ in range(case.get('ni', 1))]
                cur = 0
                for opi, op in enumerate(case['ops']):
                    tc = tcs[cur]
                    kind = op[0]
                    if kind == 'i':
                        cur = op[1]
                        continue
                    arg = None      # the object handed to update(); the caller empties it after the call
                    if kind == 'a':
                        tc.add(K(op[1]))
                    elif kind == 'u':
                        arg = [K(k) for k in op[1]]
                        tc.update(arg)
                    elif kind == 'ug':
                        tc.update(K(k) for k in op[1])
                    elif kind == 'ut':
                        tc.update(tuple(K(k) for k in op[1]))
                    elif kind == 'm':
                        arg = {K(k): c for k, c in op[1]}
                        tc.update(arg)
                    elif kind == 'kw':
                        tc.update(**{K(k): c for k, c in op[1]})
                    elif kind == 'mkw':
                        half = len(op[1]) // 2
                        arg = {K(k): c for k, c in op[1][:half]}
                        tc.update(arg, **{K(k): c for k, c in op[1][half:]})
                    elif kind == 'mp':      # read-only mapping proxy (a Mapping that is not a dict)
                        tc.update(types.MappingProxyType({K(k): c for k, c in op[1]}))
                    elif kind == 'ud':
                        arg = collections.UserDict({K(k): c for k, c in op[1]})
                        tc.update(arg)
                    elif kind == 'cm':
                        half = len(op[1]) // 2
                        tc.update(collections.ChainMap({K(k): c for k, c in op[1][:half]},
                                                       {K(k): c for k, c in op[1][half:]}))
                    elif kind == 'tc':      # another counter-like object exposing items()
                        arg = collections.Counter({K(k): c for k, c in op[1]})
                        tc.update(arg)
                    elif kind == 'up':
                        kw = {K(k): c for k, c in (op[3] or [])}
                        if op[1] == 'none':
                            if op[3] is None:
                                tc.update()
                            else:
                                tc.update(**kw)
                        elif op[3] is None:
                            arg = build_pos(op[1], op[2], kp)
                            tc.update(arg)
                        else:
                            arg = build_pos(op[1], op[2], kp)
                            tc.update(arg, **kw)
                        spoil(kw)
                    elif kind == 't':       # another ThresholdCounter (or this one) as the mapping
                        tc.update(tcs[op[1]])
                    elif kind == 'n':
                        tcs[cur] = ThresholdCounter(threshold=th)
                    elif kind == 'q':
                        # the caller post-processes the list it got back, then asks again (nothing was added)
                        res = tc.most_common(op[1])
                        rec = {'q': [[kname(k), c] for k, c in res]}
                        spoil(res)
                        again = [[kname(k), c] for k, c in tc.most_common(op[1])]
                        if again != rec['q']:
                            rec['q2'] = again
                        out.append(rec)
                        continue
                    if arg is not None:
                        spoil(arg)
                    if self.dumps_after(case, opi):
                        out.append({'d': [self.dump(t, case, kname) for t in tcs]})
        except Exception as e:  # recorded, judged by the oracle
            out.append({'exc': exc_name(e), 'msg': str(e)[:200]})
        return out

    READERS = ('total', 'items', 'keys', 'values', 'len', 'common', 'uncommon', 'mc', 'gets', 'has', 'elements',
               'iter', 'getitem')

    def dump(self, tc, case, kname):
        """every reader is called, the object it returned is handed to a caller who modifies it in place
        (`spoil`), and the reader is called again: with no addition in between the second answer must be the
        first one (readers whose two answers differ are recorded under 'reread')"""
        nk, kp = case['nk'], case.get('kp', 0)
        ident = lambda v: v
        pairs = lambda v: [[kname(k), c] for k, c in v]
        names = lambda v: [kname(k) for k in v]
        fns = {     # name -> (call returning the API's own object, canonical JSON form of it)
            'total': (lambda: tc.total, ident),
            'items': (tc.items, pairs),
            'keys': (tc.keys, names),
            'values': (tc.values, list),
            'len': (lambda: len(tc), ident),
            'common': (tc.get_common_count, ident),
            'uncommon': (tc.get_uncommon_count, ident),
            'mc': (tc.most_common, pairs),
            'gets': (lambda: [tc.get(key(k, kp)) for k in range(nk)], ident),
            'has': (lambda: [1 if key(k, kp) in tc else 0 for k in range(nk)], ident),
            'elements': (tc.elements, names),
            'iter': (tc.iterkeys, names),
            'getitem': (lambda: [tc[k] for k in tc.keys()], ident),
        }
        order = list(self.READERS)
        if 'ro' in case:
            random.Random(case['ro']).shuffle(order)
        d = {}
        for name in order:
            call, canon = fns[name]
            raw = call()
            d[name] = canon(raw)
            if name in self.CONTAINERS:
                spoil(raw)
        reread = {}
        for name in order:
            if name in self.CONTAINERS:
                call, canon = fns[name]
                v = canon(call())
                if v != d[name]:
                    reread[name] = v
        if reread:
            d['reread'] = reread
        d['commonality'] = self.commonality(tc)
        return d

    CONTAINERS = ('items', 'keys', 'values', 'mc', 'elements', 'iter')

    @staticmethod
    def commonality(tc):
        """get_commonality() as a float, None when it raises (empty counter: outside the statement)"""
        try:
            return float(tc.get_commonality())
        except Exception:
            return None

    def render(self, case, obs):
        def kn(s):
            return s[1:] if isinstance(s, str) and s.startswith('k') else '?%r' % (s,)

        def pairs(l):
            return ','.join('%s:%s' % (kn(k), c) for k, c in l) or '-'

        def nats(l):
            return ','.join(str(x) for x in l) or '-'

        def canon(l):
            """most_common results: count descending, ties in key order (the statement fixes the count order only)"""
            def ck(p):
                k = kn(p[0])
                return (-p[1], (0, int(k), '') if k.isdigit() else (1, 0, k))
            try:
                return sorted(l, key=ck)
            except Exception:
                return list(l)

        def top(l):
            """most_common(n): the keys with the smallest returned count are not named (free choice among ties)"""
            l = canon(l)
            return ','.join('%s:%s' % (kn(k) if c != l[-1][1] else '*', c) for k, c in l) or '-'
        recs = []
        for o in obs:
            if 'exc' in o:
                recs.append('X' + o['exc'])
            elif 'q' in o:
                recs.append('Q' + top(o['q']) + ('!reread' if 'q2' in o else ''))
            else:
                recs.append(' | '.join(' '.join([
                    'T%d' % d['total'], 'I' + pairs(d['items']), 'K' + nats(kn(k) for k in d['keys']),
                    'V' + nats(d['values']), 'L%d' % d['len'], 'C%d' % d['common'], 'U%d' % d['uncommon'],
                    'M' + pairs(canon(d['mc'])), 'G' + nats(d['gets']), 'H' + nats(d['has']),
                    'E' + nats(kn(k) for k in d['elements']), self.render_commonality(d)] +
                    (['!reread:' + ','.join(sorted(d['reread']))] if d.get('reread') else [])) for d in o['d']))
        return ';'.join(recs)

    @staticmethod
    def render_commonality(d):
        """get_commonality() is a float: rendered as the ratio n/total it stands for (n = the integer nearest to
        value * total, accepted within 1e-6), `R-` on a counter without additions whatever the code did there"""
        v, t = d.get('commonality'), d['total']
        if not t:
            return 'R-'
        if v is None or v != v or abs(v) > 2:
            return 'R?%r' % (v,)
        n = round(v * t)
        return 'R%d/%d' % (n, t) if abs(v * t - n) < 1e-6 else 'R?%r' % (v,)

    # ------------------------------------------------------------------ oracle (independent of the model)
    def op_additions(self, case, op, last_items):
        """the additions one mutator asks for, as {key name: number}; order is irrelevant to the statement"""
        kind = op[0]
        add = collections.Counter()
        if kind == 'a':
            add['k%d' % op[1]] += 1
        elif kind in ('u', 'ug', 'ut'):
            for k in op[1]:
                add['k%d' % k] += 1
        elif kind in MAPPING_KINDS:     # unique keys within each of these; every given count is added
            for k, c in op[1]:
                add['k%d' % k] += c
        elif kind == 'up':
            eff = self.up_effect(case, op)
            if eff is not None and eff[0] == 'keys':
                for k in eff[1]:
                    add['k%d' % k] += 1
            elif eff is not None:
                for k, c in eff[1]:
                    add['k%d' % k] += c
            for k, c in (op[3] or []):      # keyword counts come on top of the positional ones
                add['k%d' % k] += c
        elif kind == 't':
            for k, c in last_items[op[1]]:
                add[k] += c
        return add

    def oracle(self, case, obs):
        self._last = (case, obs)
        w = self.w_of(case)
        ex = self.th_exact(case)
        ni = case.get('ni', 1)
        true = [dict() for _ in range(ni)]
        total = [0] * ni
        last_items = [[] for _ in range(ni)]
        cur = 0
        compactions = evicted = 0
        self._nt = False
        oi = 0
        for opi, op in enumerate(case['ops']):
            kind = op[0]
            if kind == 'i':
                cur = op[1]
                continue
            if kind != 'q' and not self.dumps_after(case, opi):     # sparse case: no reader runs here
                adds = self.op_additions(case, op, last_items)
                for k, c in adds.items():
                    if c:
                        true[cur][k] = true[cur].get(k, 0) + c
                compactions += (total[cur] + sum(adds.values())) // w - total[cur] // w
                total[cur] += sum(adds.values())
                continue
            if oi >= len(obs):
                return Failure('missing', 'no observation for op %r' % (op,))
            o = obs[oi]
            oi += 1
            if 'exc' in o:
                return Failure('raises', '%s raised %s: %s' % (op, o['exc'], o.get('msg')))
            if kind == 'q':
                # judged against the previous dump's items
                n = op[1]
                res = o['q']
                items = last_items[cur]
                if 'q2' in o:
                    return Failure('reread', 'most_common(%d) returned %r, and %r when asked again after the caller '
                                   'modified the first list in place (nothing was added in between); items %r'
                                   % (n, res, o['q2'], items))
                cnts = sorted((c for _, c in items), reverse=True)
                if n <= 0:
                    if res != []:
                        return Failure('most_common', 'most_common(%d) returned %r' % (n, res))
                    continue
                if [c for _, c in res] != cnts[:n]:
                    return Failure('most_common', 'most_common(%d) counts %r, expected %r' % (n, res, cnts[:n]))
                if any(list(p) not in items for p in res) or len({k for k, _ in res}) != len(res):
                    return Failure('most_common', 'most_common(%d) pairs %r not drawn from items %r' % (n, res, items))
                continue
            if kind == 'n':
                true[cur], total[cur] = {}, 0
            else:
                adds = self.op_additions(case, op, last_items)
                before_c = total[cur] // w
                for k, c in adds.items():
                    if c:
                        true[cur][k] = true[cur].get(k, 0) + c
                total[cur] += sum(adds.values())
                compactions += total[cur] // w - before_c
            if len(o['d']) != ni:
                return Failure('missing', 'dump of %d counters, expected %d' % (len(o['d']), ni))
            for j in range(ni):
                d = o['d'][j]
                who = '' if ni == 1 else 'counter %d (op %r on counter %d): ' % (j, op, cur)
                last_items[j] = d['items']
                f = self.judge(d, true[j], total[j], w, case, ex)
                if f is not None:
                    f.what = who + f.what
                    return f
                if j == cur:
                    got = dict(map(tuple, d['items']))
                    evicted += sum(1 for k, t in true[j].items() if got.get(k, 0) < t)
        self.stats['compactions'] = self.stats.get('compactions', 0) + compactions
        self.stats['ops'] = self.stats.get('ops', 0) + len(case['ops'])
        for op in case['ops']:
            nm = op[0] if op[0] != 'up' else 'up:%s%s' % (op[1], '' if op[3] is None else '+kw')
            self.stats['op:' + nm] = self.stats.get('op:' + nm, 0) + 1
        self._nt = compactions > 0 and evicted > 0
        return None

    def judge(self, o, true, total, w, case, ex):
        """every clause of the statement on one dump of one counter"""
        th = case['th']
        if o.get('reread'):
            name = sorted(o['reread'])[0]
            api = {'mc': 'most_common', 'iter': 'iterkeys'}.get(name, name)
            return Failure('reread', '%s() returned %r, and %r when asked again after the caller modified the first '
                           'result in place (nothing was added in between)' % (api, o[name], o['reread'][name]))
        if o['total'] != total:
            return Failure('total', 'total %d after %d additions' % (o['total'], total))
        slack = total // w
        counts = dict((k, c) for k, c in o['items'])
        if len(counts) != len(o['items']):
            return Failure('views', 'duplicate key in items %r' % (o['items'],))
        for k, c in counts.items():
            t = true.get(k, 0)
            if c > t:
                return Failure('overcount', 'count[%s]=%d > true %d' % (k, c, t))
        for k, t in true.items():
            c = counts.get(k, 0)
            if t - c > slack:
                return Failure('undercount', 'count[%s]=%d short of true %d by more than slack %d' % (k, c, t, slack))
        if o['common'] + o['uncommon'] != total:
            return Failure('common_uncommon', '%d + %d != %d' % (o['common'], o['uncommon'], total))
        if o['common'] != sum(counts.values()):
            return Failure('views', 'common count %d != sum of counts %d' % (o['common'], sum(counts.values())))
        if [list(p) for p in zip(o['keys'], o['values'])] != o['items'] or o['len'] != len(o['items']) \
                or o['iter'] != o['keys'] or o['getitem'] != o['values']:
            return Failure('views', 'keys/values/len/iter/[] disagree with items: %r' % (o,))
        for i in range(case['nk']):
            if o['gets'][i] != counts.get('k%d' % i, 0) or o['has'][i] != (1 if 'k%d' % i in counts else 0):
                return Failure('views', 'get/in disagree with items for %s' % ('k%d' % i))
        if sorted(o['elements']) != sorted(k for k, c in o['items'] for _ in range(c)):
            return Failure('views', 'elements() disagrees with items')
        mc = o['mc']
        if sorted(map(tuple, mc)) != sorted(map(tuple, o['items'])) or \
                [c for _, c in mc] != sorted((c for _, c in mc), reverse=True):
            return Failure('most_common', 'most_common() = %r for items %r' % (mc, o['items']))
        if (o['len'] * ex > 2) if ex is not None else (o['len'] > 2 / th):
            return Failure('size_bound', 'tracks %d keys > 2/threshold = %.3f (threshold %r) after %d additions'
                           % (o['len'], 2 / th, th, total))
        return None

    def nontrivial(self, case, obs):
        return getattr(self, '_nt', False)

    # known finding: the Lossy Counting algorithm itself exceeds 2/threshold (Lean: C20.size_bound_false);
    # an excess is that finding only when the implementation still behaves like the verified model
    def finding_size_bound(self, case, failure):
        if failure.tag != 'size_bound':
            return False
        if getattr(failure, 'model_agrees', None) is not False:
            return True
        # model and implementation differ somewhere on this case. The finding is about WHICH KEYS ARE TRACKED: it is
        # still the known finding when, after every mutator, total and the tracked keys with their counts (as a
        # set) are exactly the verified model's - whatever else differs (order of ties in most_common, dict
        # order, get_commonality ...) is either free or reported by its own clause (size_bound is judged last)
        try:
            last = getattr(self, '_last', None)
            if last is None or last[0] is not case:
                return False
            from bv.common import Driver
            drv = Driver(self.PID)
            ln = self.line(case)
            if ln is None or not drv.available():
                return False
            return self.core_text(drv.query([ln])[0]) == self.core_text(self.render(case, last[1]))
        except Exception:
            return False

    @staticmethod
    def core_text(text):
        """of a correspondence text: per dump `T<total>` and the `I` pairs as a sorted list"""
        out = []
        for rec in text.split(';'):
            if rec[:1] in ('Q', 'X'):
                continue
            for d in rec.split(' | '):
                toks = d.split(' ')
                t = [x for x in toks if x[:1] == 'T']
                i = [x for x in toks if x[:1] == 'I']
                out.append((t, sorted(i[0][1:].split(',')) if i else None))
        return out

    def shrink(self, case):
        ops = case['ops']
        for i in range(len(ops)):
            yield dict(case, ops=ops[:i] + ops[i + 1:])
        if 'ro' in case:
            yield {k: v for k, v in case.items() if k != 'ro'}
        if 'sp' in case:
            yield {k: v for k, v in case.items() if k != 'sp'}
        for i, op in enumerate(ops):
            def rep(new):
                return dict(case, ops=ops[:i] + [new] + ops[i + 1:])
            if op[0] == 'up':
                if op[3]:
                    for j in range(len(op[3])):
                        yield rep(['up', op[1], op[2], op[3][:j] + op[3][j + 1:]])
                if op[1] == 'cm':
                    for p in range(len(op[2])):
                        for j in range(len(op[2][p])):
                            parts = [list(x) for x in op[2]]
                            del parts[p][j]
                            yield rep(['up', 'cm', parts, op[3]])
                elif op[2]:
                    for j in range(len(op[2])):
                        yield rep(['up', op[1], op[2][:j] + op[2][j + 1:], op[3]])
                for tgt, src in (('list', ITER_KINDS), ('dict', MAP_KINDS)):
                    if op[1] in src and op[1] not in (tgt, 'cm'):
                        yield rep(['up', tgt, op[2], op[3]])
            elif op[0] not in ('a', 'q', 't', 'n', 'i') and len(op[1]) > 0:
                for j in range(len(op[1])):
                    yield rep([op[0], op[1][:j] + op[1][j + 1:]])
            if op[0] in MAPPING_KINDS or op[0] == 'up':
                # smaller counts
                def lower(pl):
                    for j, (k, c) in enumerate(pl):
                        if c > 1:
                            yield pl[:j] + [[k, c - 1]] + pl[j + 1:]
                if op[0] in MAPPING_KINDS:
                    for pl in lower(op[1]):
                        yield rep([op[0], pl])
                else:
                    if op[1] in MAP_KINDS and op[1] != 'cm':
                        for pl in lower(op[2]):
                            yield rep(['up', op[1], pl, op[3]])
                    if op[3]:
                        for pl in lower(op[3]):
                            yield rep(['up', op[1], op[2], pl])


PROPERTY = C20
