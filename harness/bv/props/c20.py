"""C20 - ThresholdCounter: never over-counts, under-counts boundedly, (size bound: known finding)."""
import collections
import collections.abc
import decimal
import fractions
import itertools
import math
import random
import re
import types

from bv.common import Property, Failure, time_limit, exc_name, CaseTimeout

# thresholds as floats; floor(1/threshold) is computed by the harness, independently
THRESHOLDS = [1 / n for n in range(2, 13)] + [0.3, 0.7, 0.999, 0.0625, 0.04, 1 / 24, 0.021, 0.51,
                                              0.4, 0.6, 0.15, 0.08, 0.9, 0.34, 0.26]
# thresholds given as exact rationals / decimal strings (passed as Fraction / Decimal objects)
FRACTIONS = [[1, 2], [1, 3], [2, 5], [3, 10], [2, 7], [1, 6], [3, 4], [5, 17], [1, 10], [7, 100]]
DECIMALS = ['0.5', '0.25', '0.3', '0.1', '0.125', '0.7', '0.34', '0.06']

MAPPING_KINDS = ('m', 'kw', 'mkw', 'mp', 'ud', 'cm', 'tc')

# positional argument kinds of the general update op  ['up', poskind, posdata, kw]
ITER_KINDS = ('list', 'gen', 'tuple', 'iter', 'dkeys', 'deque', 'seq', 'it', 'fset')
MAP_KINDS = ('dict', 'mp', 'ud', 'cm', 'ctr', 'od', 'dd', 'abc', 'duck')

# sentinels inside the data of an 'up' op (round 5: calls that raise part-way)
BAD = -1     # as a key: an object the counter cannot take (unhashable / __hash__ raises); as a count: a non-integer
STOP = -2    # the caller's iterable / items() itself raises at this point
LAZY_ITER = ('gen', 'iter', 'seq', 'it')         # iterable kinds that can raise half-way
BADKEY_ITER = ('list', 'gen', 'tuple', 'iter', 'deque', 'seq', 'it')     # ... that can hold an unhashable element


class _SourceError(Exception):
    """raised by a caller-supplied iterable / mapping half-way through"""


class _HashRaises:
    def __hash__(self):
        raise RuntimeError('this object refuses to be hashed')

    def __repr__(self):
        return '<_HashRaises>'


def bad_key(n=0):
    """a fresh object the counter cannot use as a key"""
    n %= 5
    if n == 0:
        return ['#bad']
    if n == 1:
        return {'#bad': 1}
    if n == 2:
        return {'#bad'}
    if n == 3:
        return _HashRaises()
    return bytearray(b'#bad')


def bad_count(n=0):
    """a count that is not an integer"""
    return ('2', 1.5, None, [1])[n % 4]


class _Collide:
    """distinct keys that all share one hash value (equality by tag)"""

    def __init__(self, tag):
        self.tag = tag

    def __hash__(self):
        return 1

    def __eq__(self, other):
        return isinstance(other, _Collide) and other.tag == self.tag

    def __repr__(self):
        return '_Collide(%r)' % (self.tag,)


_STOPOBJ = object()     # STOP inside a built argument


def _raising_source(items):
    for x in items:
        if x is _STOPOBJ or (isinstance(x, tuple) and len(x) == 2 and x[0] is _STOPOBJ):
            raise _SourceError('the source failed here')
        yield x


class _Duck:
    """recognised as a mapping only through a callable `items` attribute; items() is a one-shot lazy iterator
    (it may yield an unhashable key and may raise half-way)"""

    def __init__(self, pairs):
        self._pairs = list(pairs)

    def items(self):
        return _raising_source(self._pairs)

# mixed key palette (case['kp'] == 1): even indices are non-string hashables (None, falsy values, a
# 2-tuple that looks like a (key, count) pair, frozenset, bytes, float, negative int), odd indices stay
# strings so that they can be passed as keywords
_EXOTIC = {0: None, 2: 0, 4: ('k4', 2), 6: '', 8: frozenset({8}), 10: 2.5, 12: b'k12', 14: -1, 16: ('a', 'b'),
           18: (), 20: 10 ** 20, 22: _Collide('a'), 24: _Collide('b'), 26: _Collide('c')}
# an EQUAL key of another type (same hash, ==): adding it is adding the key itself
_ALIAS = {2: False, 10: fractions.Fraction(5, 2), 14: -1.0, 20: 1e20, 22: _Collide('a')}


def key(k, kp=0, alias=0):
    if kp and k % 2 == 0:
        if alias and k in _ALIAS:
            return _ALIAS[k]
        return _EXOTIC[k] if k in _EXOTIC else ('x', k)
    if alias:
        return ''.join(['k', '%d' % k])     # an equal string that is another object
    return 'k%d' % k


class _Seq:
    """iterable through the old sequence protocol only (__getitem__ + IndexError)"""

    def __init__(self, l):
        self._l = list(l)

    def __getitem__(self, i):
        if self._l[i] is _STOPOBJ:
            raise _SourceError('the source failed here')
        return self._l[i]


class _It:
    """iterable through __iter__ only, and falsy (an emptiness test must not be used on it)"""

    def __init__(self, l):
        self._l = list(l)

    def __iter__(self):
        return _raising_source(list(self._l)) if any(x is _STOPOBJ for x in self._l) else iter(list(self._l))

    def __bool__(self):
        return False


class _Map(collections.abc.Mapping):
    """a Mapping that is not a dict subclass"""

    def __init__(self, pairs):
        self._d = dict(pairs)

    def __getitem__(self, k):
        return self._d[k]

    def __iter__(self):
        return iter(self._d)

    def __len__(self):
        return len(self._d)


def build_pos(kind, data, kp):
    """the object handed to update() as positional argument (standard-library semantics only)"""
    if kind in ITER_KINDS:
        ks = [_STOPOBJ if k == STOP else bad_key(i) if k == BAD else key(k, kp) for i, k in enumerate(data)]
        if kind == 'list':
            return ks
        if kind == 'gen':
            return _raising_source(ks)
        if kind == 'tuple':
            return tuple(ks)
        if kind == 'iter':
            return iter(ks) if STOP not in data else iter(_raising_source(ks))
        if kind == 'dkeys':
            return dict.fromkeys(ks).keys()
        if kind == 'deque':
            return collections.deque(ks)
        if kind == 'seq':
            return _Seq(ks)
        if kind == 'it':
            return _It(ks)
        if kind == 'fset':
            return frozenset(ks)
    if kind == 'cm':
        return collections.ChainMap(*[{key(k, kp): c for k, c in part} for part in data])
    pairs = [(_STOPOBJ, 0) if k == STOP else (bad_key(i) if k == BAD else key(k, kp), bad_count(i) if c == BAD else c)
             for i, (k, c) in enumerate(data)]
    if kind == 'duck':
        return _Duck(pairs)
    if kind == 'dict':
        return dict(pairs)
    if kind == 'mp':
        return types.MappingProxyType(dict(pairs))
    if kind == 'ud':
        return collections.UserDict(dict(pairs))
    if kind == 'ctr':
        return collections.Counter(dict(pairs))
    if kind == 'od':
        return collections.OrderedDict(pairs)
    if kind == 'dd':
        d = collections.defaultdict(int)
        d.update(pairs)
        return d
    if kind == 'abc':
        return _Map(pairs)
    raise ValueError(kind)


_JUNK = ('#caller', 10 ** 6)


def spoil(obj):
    """what a caller may do with a container an API call handed back: reorder it, drop and add entries, empty
    it (and the same for mutable elements). Only ever applied to RETURNED objects / to arguments after the call
    that received them has returned; never reaches into the counter."""
    try:
        if isinstance(obj, list):
            for x in obj:
                if isinstance(x, (list, dict, set)):
                    x.clear()
            obj.reverse()
            if obj:
                obj.pop()
            obj.append(_JUNK)
            obj.insert(0, _JUNK)
        elif isinstance(obj, (dict, set, collections.deque, collections.UserDict)):
            obj.clear()
        elif hasattr(obj, '__next__'):
            for _ in obj:       # exhaust a returned iterator
                pass
    except Exception:
        pass


class C20(Property):
    PID = 'C20'
    QUICK_BUDGET_S = 40
    THOROUGH_BUDGET_S = 600
    RULE = ('a case is one whole history over 1-3 counters of one threshold (float, Fraction or Decimal): add / '
            'update(positional, **kw) / update(other counter or the counter itself) / re-creation of a counter / '
            'most_common(n) calls over a small key alphabet; every reader of EVERY counter is dumped after every '
            'mutator (in a per-case reader order); every container a reader hands back (items/keys/values/most_common '
            'lists, most_common(n) list, elements/iterkeys iterators) is then modified in place by the caller (reordered, '
            'entries dropped and added / exhausted) and the reader is asked again with nothing added in between: the '
            'second answer must be the first; every mutable argument of update() is emptied or polluted after the call '
            'returned. most_common results are compared up to the order among equal counts (and the choice among ties '
            'at the cut of most_common(n)); get_commonality() as the exact ratio it stands for. The positional argument is None, one of 9 iterable kinds '
            '(list, generator, tuple, iterator, dict keys view, deque, __getitem__-only sequence, falsy __iter__-only '
            'object, frozenset) or one of 8 mapping kinds (dict, mappingproxy, UserDict, ChainMap with overlapping '
            'maps, Counter, OrderedDict, defaultdict, abc.Mapping subclass), combined with keyword counts whose keys '
            'may also occur positionally; counts range over 0 .. 3w+2 (one call spanning several compactions). Keys: '
            'strings, or a mixed palette (None, 0, "", pair-like tuples, frozenset, bytes, float, big int). '
            'Round 5: calls that RAISE PART-WAY inside the history - add(unhashable / __hash__ raises), update() '
            'with such a key at the start / middle / end of a list, tuple, deque, generator, iterator, __getitem__ '
            'sequence, an iterable or items() that raises half-way, a non-integer count in 8 mapping kinds (incl. a '
            'duck-typed items()-only object) or among the keyword counts - after 0-4 earlier additions, followed '
            'by more additions and a second failing call; failing reader / constructor calls; update() fed by a live '
            'iterator over the counter itself (elements(), iterkeys()); keyword call forms of every method; equal keys '
            'of another type, colliding hashes. After a failed call every reader is judged against the additions that '
            'took effect (some prefix of what the call asks for, pinned down by the reported total). '
            'Small families first: failing calls x pre-histories x follow-ups; live self-iterators; every positional kind x keyword overlap templates; all 2-counter histories of '
            'length <= 4 over {add, switch, update(other), update(self), re-create}; bulk counts around multiples of '
            'w; mixed-key streams; exact-rational thresholds; long updates at thresholds 0.001/0.01; "sparse" histories '
            '(no reader runs between consecutive mutators: all add-streams <= 5/6 over 3 keys, one most_common at every '
            'position); adaptive streams: add-streams evolved against the live implementation (public API only) to '
            'maximise the tracked-key count / the shortfall beyond the slack at 9 thresholds (0.25, 1/3, 0.2, 0.34, '
            '0.51, 0.15, 0.5, 0.4, 0.9), evaluation-count bounded, judged like any other case. Then exhaustive: '
            'all add-streams up to length L over 3 keys for w=1..6; random mixed histories; adversarial "just '
            'survives" streams. Non-trivial = at least one compaction happened and at least one key was evicted or '
            'under-counted; distinct = distinct case.')
    ASSUMPTIONS = ['keys that count as additions are hashable with == consistent with hash, counts in mappings are '
                   'non-negative ints; an element that is neither makes the call raise, and the additions of that call '
                   'are the ones performed before the exception',
                   'model parameter w = floor(1/threshold) is computed by the harness with float division for float '
                   'thresholds; Fraction / Decimal thresholds are handed to the model as p/q (its constructor derives w)',
                   'a ThresholdCounter passed to update() counts as the mapping its items() reports at that moment']
    CORRESPONDENCE_NAME = 'C20.Driver (ThresholdCounter model) vs boltons.cacheutils.ThresholdCounter'

    # ------------------------------------------------------------------ parameters of a case
    @staticmethod
    def w_of(case):
        if 'thq' in case:
            return case['thq'][1] // case['thq'][0]
        if 'thd' in case:
            return math.floor(1 / fractions.Fraction(case['thd']))
        return math.floor(1 / case['th'])

    @staticmethod
    def th_obj(case):
        if 'thq' in case:
            return fractions.Fraction(case['thq'][0], case['thq'][1])
        if 'thd' in case:
            return decimal.Decimal(case['thd'])
        return case['th']

    @staticmethod
    def th_exact(case):
        if 'thq' in case:
            return fractions.Fraction(case['thq'][0], case['thq'][1])
        if 'thd' in case:
            return fractions.Fraction(case['thd'])
        return None

    # ------------------------------------------------------------------ generation
    def cases(self, budget_s):
        rng = self.rng
        # ---- small adversarial families first
        for c in self.fam_failing():
            yield c
        for c in self.fam_self_operand():
            yield c
        for c in self.fam_kwmix():
            yield c
        for i, c in enumerate(self.fam_kwmix()):     # the same through the keyword call forms
            if i % 3 == 0:
                yield dict(c, cf=1)
        for c in self.fam_two_counters(4):
            yield c
        for c in self.fam_bulk():
            yield c
        for c in self.fam_palette():
            yield c
        for c in self.fam_thresholds(rng, 150):
            yield c
        for c in self.fam_long(rng):
            yield c
        for c in self.fam_sparse():
            yield c
        k = 4 if self.thorough else 1
        for c in self.fam_adaptive(rng, [(0.25, 'size', 30000 * k), (1 / 3, 'size', 20000 * k), (0.2, 'size', 10000 * k), (0.34, 'size', 10000 * k),
                                         (0.51, 'size', 10000 * k), (0.15, 'size', 8000 * k),
                                         (0.5, 'size', 8000 * k), (0.4, 'size', 4000 * k), (0.9, 'size', 2000 * k),
                                         (0.25, 'under', 1500 * k), (0.5, 'under', 1500 * k), (0.3, 'under', 1500 * k)]):
            yield c
        for i in range(600):
            yield self.random_case(rng, rich=True)
        # ---- exhaustive add-streams
        L = 7 if self.thorough else 6
        for w in range(1, 7):
            th = {1: 0.7, 2: 0.5, 3: 1 / 3, 4: 0.25, 5: 0.2, 6: 1 / 6}[w]
            for n in range(0, L + 1):
                for st in itertools.product(range(3), repeat=n):
                    yield {'th': th, 'nk': 3, 'ops': [['a', k] for k in st]}
        n_rand = 40000 if self.thorough else 2500
        for i in range(n_rand):
            yield self.random_case(rng, big=self.thorough and i % 10 == 0, rich=i % 2 == 1)
        for c in self.adversarial(rng, 300 if self.thorough else 40):
            yield c
        if self.thorough:
            for c in self.fam_two_counters(5):
                yield c

    def deep_cases(self, budget_s):
        rng = self.rng
        for c in self.fam_failing(deep=True):
            yield c
        for c in self.fam_self_operand():
            yield c
        for c in self.fam_adaptive(rng, [(th, 'size', 40000) for th in (1 / 3, 0.25, 0.34, 0.51, 0.5, 0.4, 0.15, 0.2, 1 / 6, 0.9, 0.125)] +
                                   [(th, 'under', 6000) for th in (0.5, 1 / 3, 0.3, 0.25, 0.2, 0.125)]):
            yield c
        for c in self.adversarial(rng, 200):
            yield c
        while True:
            yield self.random_case(rng, big=rng.random() < 0.2, rich=rng.random() < 0.5)

    # calls that raise part-way inside a history, then every reader (round 5): an unhashable key / a key whose
    # __hash__ raises handed to add(); in the middle / at either end of a list, tuple, deque, generator, iterator,
    # __getitem__ sequence; an iterable / items() that itself raises half-way; a non-integer count in a dict,
    # OrderedDict, UserDict, Counter, defaultdict, mappingproxy, Mapping subclass, duck-typed items() object or
    # among the keyword counts (before / after good entries, with a positional part that was already added);
    # failing reader and constructor calls. After 0-4 earlier additions (before / after a compaction), followed
    # by more additions and by a second failing call.
    FAILING = [['ax', 0], ['ax', 1], ['ax', 2], ['ax', 3], ['ax', 4],
               ['up', 'list', [BAD], None], ['up', 'list', [0, BAD, 1], None], ['up', 'list', [0, 1, 1, BAD], None],
               ['up', 'tuple', [1, 0, BAD, 0], None], ['up', 'deque', [BAD, 0], None],
               ['up', 'gen', [0, STOP, 1], None], ['up', 'gen', [0, 0, BAD, 1], None], ['up', 'iter', [1, STOP], None],
               ['up', 'iter', [BAD, 1], None], ['up', 'seq', [0, 1, STOP, 2], None], ['up', 'seq', [1, BAD], None],
               ['up', 'it', [STOP], None], ['up', 'it', [2, BAD], None],
               ['up', 'list', [0, BAD], [[1, 2]]], ['up', 'list', [0], [[1, BAD]]],
               ['up', 'list', [0, 1], [[0, 1], [1, BAD], [2, 1]]], ['up', 'gen', [1, STOP], [[0, 2]]],
               ['up', 'none', None, [[0, 1], [1, BAD], [2, 1]]], ['up', 'none', None, [[0, BAD]]],
               ['up', 'dict', [[0, 2], [1, BAD], [2, 1]], None], ['up', 'dict', [[0, BAD]], [[1, 1]]],
               ['up', 'dict', [[0, 1]], [[0, 2], [1, BAD]]],
               ['up', 'od', [[1, 1], [0, 3], [2, BAD]], None], ['up', 'ud', [[1, BAD], [0, 1]], None],
               ['up', 'ctr', [[0, 1], [1, BAD]], None], ['up', 'abc', [[0, 2], [1, BAD]], None],
               ['up', 'mp', [[2, 1], [0, BAD], [1, 1]], None], ['up', 'dd', [[0, 1], [2, BAD]], [[0, 1]]],
               ['up', 'duck', [[0, 1], [BAD, 1], [1, 1]], None], ['up', 'duck', [[0, 2], [STOP, 0], [1, 1]], [[1, 1]]],
               ['up', 'duck', [[BAD, 2]], None], ['up', 'duck', [[1, 1], [0, BAD]], None],
               ['up', 'duck', [[0, 3], [1, 1]], [[1, BAD]]],
               ['rx', 0], ['rx', 1], ['rx', 2], ['rx', 3], ['rx', 4], ['rx', 5], ['cx', 0], ['cx', 1], ['cx', 4]]

    def fam_failing(self, deep=False):
        pres = [[], [['a', 0]], [['a', 0], ['a', 1]], [['a', 0], ['a', 0], ['a', 1], ['a', 2]]]
        posts = [[['a', 0]], [['a', 1], ['a', 0], ['a', 0], ['q', 2]]]
        n = 0
        for th in (0.5, 1 / 3, 0.7, 0.25):
            for pre in pres:
                for f in self.FAILING:
                    for post in posts:
                        n += 1
                        yield self._mk(th, 3, pre + [f] + post, 0, **({'cf': 1} if n % 5 == 0 else {}))
                    g = self.FAILING[(n * 7) % len(self.FAILING)]
                    yield self._mk(th, 3, pre + [f, ['a', 0], g, ['up', 'list', [0, 1, 2, 0], None]])
        # another counter of the same class must not notice; the failing call comes from the mixed key palette
        for th in (0.5, 1 / 3):
            for f in self.FAILING[:40:3]:
                yield dict(self._mk(th, 3, [['a', 0], ['i', 1], ['a', 1], f, ['i', 0], ['a', 0], ['t', 1]]), ni=2)
                if f[0] == 'up' and not f[3]:
                    yield self._mk(th, 3, [['a', 2], f, ['a', 4], ['a', 2, 1]], 1)
        # ordinary traffic over many compactions, a rejected record, more traffic
        rng = random.Random('C20-failing')
        for th, nk, n1, n2 in ((0.1, 15, 120, 40), (0.25, 6, 40, 20), (0.04, 30, 200, 60)) + \
                (((0.01, 80, 900, 300),) if deep else ()):
            for f in (['ax', 0], ['up', 'list', [0, 1, BAD, 2], None], ['up', 'duck', [[0, 2], [1, BAD]], None]):
                ks = [rng.randrange(nk) if rng.random() < 0.6 else rng.randrange(3) for _ in range(n1 + n2)]
                yield {'th': th, 'nk': nk, 'ops': [['u', ks[:n1]], f] + [['a', k] for k in ks[n1:]] + [f, ['a', 0]]}

    # the counter (or another one) feeding update() through a LIVE iterator over itself: elements() / iterkeys()
    def fam_self_operand(self):
        for th in (0.5, 1 / 3, 0.25, 0.7):
            for pre in ([0], [0, 1], [0, 0, 1], [0, 1, 2], [0, 0, 1, 2, 2], [2, 1, 1, 0, 0, 0]):
                for kind in ('te', 'tk'):
                    yield {'th': th, 'nk': 3, 'ops': [['u', pre], [kind, 0], ['a', 1], [kind, 0]]}
                    yield {'th': th, 'nk': 3, 'ni': 2, 'ops': [['u', pre], ['i', 1], ['a', 2], [kind, 0], [kind, 1],
                                                                ['i', 0], [kind, 1]]}

    # every positional kind combined with keyword counts: disjoint, overlapping, zero and bulk counts
    def fam_kwmix(self):
        ths = [0.5, 1 / 3, 0.25, 0.7]
        n = 0
        iter_templates = [([0, 1, 0], [[0, 2], [2, 1]]), ([1], [[1, 1]]), ([], [[0, 3]]), ([0, 0, 0, 1], [[1, 4], [0, 1]]),
                          ([2, 1, 0], None), ([0, 1], [])]
        map_templates = [([[0, 3], [1, 1]], [[0, 2]]), ([[0, 1]], [[0, 1]]), ([[0, 0], [1, 2]], [[1, 0], [0, 5]]),
                         ([[0, 2], [1, 2], [2, 2]], [[2, 1], [1, 1], [0, 1]]), ([], [[0, 2], [1, 1]]),
                         ([[1, 7]], [[1, 6], [0, 1]]), ([[0, 2], [1, 1]], None)]
        for pre in ([], [['a', 0], ['a', 1]]):
            for kp in (0, 1):
                sh = (lambda k: 2 * k + 1) if kp else (lambda k: k)                    # keyword-able (string) keys
                shp = (lambda k: 4 if k == 2 else 2 * k + 1) if kp else (lambda k: k)   # positional: one exotic key
                for kind in ITER_KINDS:
                    for ks, kw in iter_templates:
                        if kind == 'dkeys' and len(set(ks)) != len(ks):
                            ks = sorted(set(ks), reverse=True)
                        if kind == 'fset':
                            ks = sorted(set(ks))
                        n += 1
                        yield self._mk(ths[n % 4], 3, pre + [['up', kind, [shp(k) for k in ks],
                                                              None if kw is None else [[sh(k), c] for k, c in kw]],
                                                             ['a', sh(0)]], kp)
                for kind in MAP_KINDS:
                    for kcs, kw in map_templates:
                        data = [[shp(k), c] for k, c in kcs]
                        if kind == 'cm':     # overlapping maps: the FIRST map's count is the mapping's count
                            data = [data[:1] + [[shp(2), 1]], data + [[shp(2), 4]]]
                        n += 1
                        yield self._mk(ths[n % 4], 3, pre + [['up', kind, data,
                                                              None if kw is None else [[sh(k), c] for k, c in kw]],
                                                             ['a', sh(1)]], kp)
                for _, kw in map_templates:
                    n += 1
                    yield self._mk(ths[n % 4], 3, pre + [['up', 'none', None,
                                                          None if kw is None else [[sh(k), c] for k, c in kw]]], kp)

    @staticmethod
    def _mk(th, nk, ops, kp=0, **extra):
        c = {'th': th, 'nk': nk * (2 if kp else 1) + (1 if kp else 0), 'ops': ops}
        if kp:
            c['kp'] = 1
        c.update(extra)
        return c

    # all histories of length <= n over two counters: add, switch, update(other), update(self), re-create
    def fam_two_counters(self, n):
        alphabet = [['a', 0], ['a', 1], ['i', 0], ['i', 1], ['t', 0], ['t', 1], ['n']]
        for w, th in ((1, 0.7), (2, 0.5), (3, 1 / 3)):
            for ln in range(1, n + 1):
                for seq in itertools.product(alphabet, repeat=ln):
                    if seq[-1][0] == 'i' or any(seq[i][0] == 'i' and seq[i + 1][0] == 'i' for i in range(ln - 1)):
                        continue
                    if seq[0][0] in ('t', 'n'):     # nothing to absorb / re-create yet
                        continue
                    yield {'th': th, 'nk': 2, 'ni': 2, 'ops': [list(o) for o in seq]}

    # bulk counts around multiples of the bucket width (one call crosses 0, 1, 2 or 3 compaction boundaries)
    def fam_bulk(self):
        n = 0
        for w, th in ((1, 0.7), (2, 0.5), (3, 1 / 3), (4, 0.25), (10, 0.1)):
            counts = sorted({0, 1, w - 1, w, w + 1, 2 * w, 2 * w + 1, 3 * w + 2} - {-1})
            choices = [(k, c) for k in range(3) for c in counts]
            for a in choices:
                for b in [None] + choices:
                    n += 1
                    kind = ('m', 'kw', 'tc', 'ud')[n % 4]
                    ops = [[kind, [list(a)]]] + ([[kind, [list(b)]]] if b else []) + [['a', 2]]
                    yield {'th': th, 'nk': 3, 'ops': ops}

    # no reader between mutators: all add-streams of length <= 5 over 3 keys, read only at the end / around one
    # most_common call placed at every position
    def fam_sparse(self):
        for th, top in ((0.999, 6), (0.5, 5), (1 / 3, 5)):
            for n in range(2, top + 1):
                for st in itertools.product(range(3), repeat=n):
                    ops = [['a', k] for k in st]
                    yield {'th': th, 'nk': 3, 'sp': 1, 'ops': ops}
                    if n == 4:
                        for pos in range(1, n):
                            yield {'th': th, 'nk': 3, 'sp': 1, 'ops': ops[:pos] + [['q', 2]] + ops[pos:]}

    def fam_palette(self):
        for w, th in ((1, 0.7), (2, 0.5), (3, 1 / 3)):
            for n in range(1, 5):
                for st in itertools.product((0, 2, 4), repeat=n):
                    yield {'th': th, 'nk': 5, 'kp': 1, 'ops': [['a', k] for k in st]}
        ks = list(range(0, 21))
        for th in (0.5, 0.25, 0.1):
            yield {'th': th, 'nk': 21, 'kp': 1, 'ops': [['u', ks], ['ug', ks[::-1]], ['up', 'dict', [[k, 2] for k in ks], None],
                                                       ['q', 3], ['up', 'fset', ks[::2], [[1, 2], [3, 1]]]]}

    def fam_thresholds(self, rng, n):
        for i in range(n):
            c = self.random_case(rng, rich=i % 3 == 0)
            if i % 2:
                c['thq'] = rng.choice(FRACTIONS)
                c['th'] = c['thq'][0] / c['thq'][1]
            else:
                c['thd'] = rng.choice(DECIMALS)
                c['th'] = float(c['thd'])
            yield c

    def fam_long(self, rng):
        for th, nk, n in ((0.001, 40, 2600), (0.001, 1500, 2100), (0.01, 30, 700), (0.01, 400, 650), (0.021, 60, 300)):
            ks = [rng.randrange(nk) if rng.random() < 0.7 else rng.randrange(1 + nk // 10) for _ in range(n)]
            yield {'th': th, 'nk': nk, 'ops': [['ug', ks[:n // 2]], ['up', 'dict', [[rng.randrange(nk), int(1 / th) + 3]], None],
                                               ['u', ks[n // 2:]], ['q', 5], ['a', 0]]}

    # ---- adaptive search: streams evolved AGAINST THE LIVE IMPLEMENTATION (public API only) towards a clause's
    # margin: 'size' = most tracked keys at any prefix (vs 2/threshold), 'under' = largest shortfall of a reported
    # count beyond the slack. The result is an ordinary add-stream case, judged like every other case.
    @staticmethod
    def _harmonic(w, B):
        st, nxt = [], 0
        for j in range(1, B):
            c = B - j + 1
            for _ in range(w // c):
                st += [nxt] * c
                nxt += 1
            if w % c:
                st += [nxt] * (w % c)
                nxt += 1
        return st + list(range(nxt, nxt + w - 1))

    @staticmethod
    def _mutate(st, rng, w):
        st = list(st)
        n = len(st)
        if rng.random() < 0.25:
            # boundary-aware: put something else / a fresh key just before, on or after a bucket boundary
            b = rng.randrange(1, n // w + 1) * w + rng.choice([-1, -1, 0, 1]) - 1
            b = min(max(b, 0), n - 1)
            if rng.random() < 0.5:
                j = rng.randrange(n)
                st[b], st[j] = st[j], st[b]
            else:
                st[b] = max(st) + 1 if rng.random() < 0.5 else rng.choice(st)
            return st
        r = rng.random()
        if r < 0.3:
            i, j = rng.randrange(n), rng.randrange(n)
            st[i], st[j] = st[j], st[i]
        elif r < 0.5:
            st[rng.randrange(n)] = rng.choice(st)
        elif r < 0.65:
            st[rng.randrange(n)] = max(st) + 1
        elif r < 0.8:
            k = st.pop(rng.randrange(n))
            st.insert(rng.randrange(n), k)
        elif r < 0.9:
            st.insert(rng.randrange(n + 1), rng.choice(st))
        elif n > 2:
            st.pop(rng.randrange(n))
        return st

    def _fitness(self, th, w, stream, objective):
        from boltons.cacheutils import ThresholdCounter
        tc = ThresholdCounter(threshold=th)
        best = area = 0
        if objective == 'size':
            for k in stream:
                tc.add(k)
                n = len(tc)
                if n > best:
                    best = n
                area += n
            return best, area
        true = {}
        best = -10 ** 9
        total = 0
        for k in stream:
            tc.add(k)
            total += 1
            true[k] = true.get(k, 0) + 1
            slack = total // w
            m = max(t - tc.get(kk) for kk, t in true.items()) - slack
            if m > best:
                best = m
            area += m
        return best, area

    def fam_adaptive(self, rng, plan):
        """plan: [(threshold, objective, evaluations)]"""
        for th, objective, evals in plan:
            w = math.floor(1 / th)
            goal = 2 / th if objective == 'size' else 0
            best_f, best_st, used = None, None, 0
            try:
                with time_limit(20):
                    restart = 0
                    while used < evals and not (best_f is not None and best_f[0] > goal):
                        B = rng.randint(3, 8)
                        ws = w + restart % 2      # the implementation's bucket width may be off by one
                        restart += 1
                        cur = self._harmonic(ws, B) if rng.random() < 0.7 else \
                            [rng.randrange(2 * ws + 1) for _ in range(B * ws)]
                        f = self._fitness(th, w, cur, objective)
                        used += 1
                        stall = 0
                        while stall < 600 and used < evals and f[0] <= goal:
                            c2 = self._mutate(cur, rng, ws)
                            f2 = self._fitness(th, w, c2, objective)
                            used += 1
                            if f2 >= f:
                                if f2 > f:
                                    stall = 0
                                cur, f = c2, f2
                            stall += 1
                        if best_f is None or f > best_f:
                            best_f, best_st = f, cur
            except Exception:       # a broken implementation: hand the stream over, impl() records what happens
                best_st = best_st or cur
            self.stats['adaptive:%s:%.3f' % (objective, th)] = list(best_f) if best_f else None
            if best_st:
                names = {}
                st = [names.setdefault(k, len(names)) for k in best_st]
                yield {'th': th, 'nk': len(names), 'ops': [['a', k] for k in st]}

    def random_case(self, rng, big=False, rich=False):
        th = rng.choice(THRESHOLDS)
        w = math.floor(1 / th)
        nk = rng.choice([2, 3, 4, 6, 9]) if not big else rng.choice([12, 30, 60])
        nops = rng.randint(1, 25) if not big else rng.randint(20, 120)
        kp = 1 if rich and rng.random() < 0.3 else 0
        ni = rng.choice([1, 2, 2, 3]) if rich and rng.random() < 0.4 else 1
        ops = []
        heavy = rng.randrange(nk)
        strk = [k for k in range(nk) if not kp or k % 2 == 1]      # keys usable as keywords

        def pick():
            return heavy if rng.random() < 0.35 else rng.randrange(nk)

        def cnt():
            r = rng.random()
            if not rich or r < 0.7:
                return rng.randint(0, 4)
            return rng.choice([w - 1, w, w + 1, 2 * w, 2 * w + 1, 3 * w + 2]) if w <= 12 else rng.randint(0, 9)

        def pairs(pool, mx=3):
            ks = rng.sample(pool, rng.randint(0, min(len(pool), mx)))
            return [[k, cnt()] for k in ks]
        hasfail = False
        pfail = 0.12 if rich and rng.random() < 0.2 else 0
        for _ in range(nops):
            r = rng.random()
            if pfail and rng.random() < pfail:      # a call that raises part-way / a live iterator over a counter
                hasfail = True
                ops.append(self.random_failing(rng, nk, strk, pick, ni))
                continue
            if r < 0.45:
                ops.append(['a', pick()] + ([1] if rich and rng.random() < 0.15 else []))
            elif r < 0.6:
                ops.append([rng.choice(['u', 'ug', 'ut']), [pick() for _ in range(rng.randint(0, 6))]])
            elif r < 0.72:
                if kp:
                    ops.append([rng.choice(['m', 'mp', 'ud', 'tc']), pairs(range(nk))])
                else:
                    ops.append([rng.choice(MAPPING_KINDS), pairs(range(nk))])
            elif r < 0.85:
                if not rich:
                    ops.append(['q', rng.choice([-1, 0, 1, 2, 3, 50])])
                    continue
                kw = None if rng.random() < 0.2 else pairs(strk)
                rr = rng.random()
                if rr < 0.1:
                    ops.append(['up', 'none', None, kw])
                elif rr < 0.45:
                    kind = rng.choice(ITER_KINDS)
                    ks = [pick() for _ in range(rng.randint(0, 5))]
                    if kw and rng.random() < 0.6 and kw[0][0] not in ks:
                        ks.append(kw[0][0])
                    if kind in ('dkeys', 'fset'):
                        ks = list(dict.fromkeys(ks))
                    ops.append(['up', kind, ks, kw])
                else:
                    kind = rng.choice(MAP_KINDS)
                    data = pairs(range(nk))
                    if kw and rng.random() < 0.7 and all(k != kw[0][0] for k, _ in data):
                        data.append([kw[0][0], cnt()])
                    if kind == 'cm':
                        cut = rng.randint(0, len(data))
                        data = [data[:cut] + [[k, cnt()] for k, _ in data[cut:cut + 1]], data[cut:]]
                    ops.append(['up', kind, data, kw])
            elif r < 0.93 or ni == 1:
                ops.append(['q', rng.choice([-1, 0, 1, 2, 3, 50, rng.randint(0, nk + 1)])])
            else:
                rr = rng.random()
                if rr < 0.4:
                    ops.append(['i', rng.randrange(ni)])
                elif rr < 0.9:
                    ops.append(['t', rng.randrange(ni)])
                else:
                    ops.append(['n'])
        if rich and ni == 1 and rng.random() < 0.1:
            ops.append(['t', 0])
            ops.append(['a', pick()])
        c = {'th': th, 'nk': nk, 'ops': ops}
        if kp:
            c['kp'] = 1
        if ni > 1:
            c['ni'] = ni
        if rich and rng.random() < 0.5:
            c['ro'] = rng.randrange(1000)
        if rich and ni == 1 and rng.random() < 0.3 and not hasfail and all(o[0] not in ('t', 'n', 'i') for o in ops):
            c['sp'] = 1
        if rich and rng.random() < 0.25:
            c['cf'] = 1
        return c

    @staticmethod
    def random_failing(rng, nk, strk, pick, ni):
        r = rng.random()
        if r < 0.3:
            return ['ax', rng.randrange(5)]
        if r < 0.4:
            return [rng.choice(['rx', 'cx']), rng.randrange(6)]
        if r < 0.5:
            return [rng.choice(['te', 'tk']), rng.randrange(ni)]
        kw = None
        if strk and rng.random() < 0.4:
            kw = [[k, rng.randint(0, 3)] for k in rng.sample(strk, rng.randint(1, min(len(strk), 2)))]
        if r < 0.75:
            ks = [pick() for _ in range(rng.randint(0, 4))]
            if rng.random() < 0.3:
                kind = rng.choice(LAZY_ITER)
                ks.insert(rng.randint(0, len(ks)), STOP)
            else:
                kind = rng.choice(BADKEY_ITER)
                ks.insert(rng.randint(0, len(ks)), BAD)
            return ['up', kind, ks, kw]
        if kw and rng.random() < 0.4:       # the failure is among the keyword counts
            kw[rng.randrange(len(kw))][1] = BAD
            ks = [pick() for _ in range(rng.randint(0, 3))]
            kind = rng.choice(['list', 'gen', 'none', 'dict'])
            if kind == 'none':
                return ['up', 'none', None, kw]
            return ['up', kind, ks if kind != 'dict' else [[k, rng.randint(0, 3)] for k in sorted(set(ks))], kw]
        data = [[k, rng.randint(0, 3)] for k in rng.sample(range(nk), rng.randint(0, min(nk, 3)))]
        kind = rng.choice(['duck', 'duck', 'dict', 'od', 'ud', 'abc', 'ctr', 'mp'])
        pos = rng.randint(0, len(data))
        if kind == 'duck':
            data.insert(pos, rng.choice([[BAD, rng.randint(1, 2)], [STOP, 0], [pick(), BAD]]))
        else:
            free = [k for k in range(nk) if all(k != d[0] for d in data)]
            if not free:
                return ['ax', 0]
            data.insert(pos, [rng.choice(free), BAD])
        return ['up', kind, data, kw]

    def adversarial(self, rng, n):
        """streams built so that many keys just survive each compaction (stress the size bound / slack)"""
        for _ in range(n):
            w = rng.choice([4, 6, 8, 12, 24])
            th = 1 / w
            stream = []
            nxt = 0
            rounds = rng.randint(2, 4)
            for r in range(rounds, 0, -1):
                # keys that appear r+1 times spread so that each survives r compactions
                cnt = max(1, (w * 1) // (r + 1))
                for _k in range(cnt):
                    stream += [nxt] * (r + 1)
                    nxt += 1
            stream += list(range(nxt, nxt + w - 1))
            nxt += w - 1
            if rng.random() < 0.5:
                rng.shuffle(stream)
            yield {'th': th, 'nk': nxt, 'ops': [['a', k] for k in stream]}

    # ------------------------------------------------------------------ what an update call is given
    @staticmethod
    def legacy_split(op):
        """(positional pairs, keyword pairs) of the older mapping op kinds, in iteration order"""
        kind, data = op[0], op[1]
        if kind == 'kw':
            return None, data
        if kind == 'mkw':
            half = len(data) // 2
            return data[:half], data[half:]
        if kind == 'cm':     # ChainMap iterates its LAST map first
            half = len(data) // 2
            return data[half:] + data[:half], None
        return data, None

    def up_effect(self, case, op):
        """('keys', [k..]) / ('map', [[k, c]..]) / None for the positional argument of an 'up' op, in the
        order in which the standard-library object yields them. Where the call meets something it cannot take
        the list ends with a marker (a str): 'B' = an unhashable key (the call is inside add() when it raises;
        'B<c>' = a mapping entry asking for c additions of such a key), 'S' = a non-integer count / the caller's
        object itself raised there (no add() is running)."""
        kp = case.get('kp', 0)
        kind, data = op[1], op[2]
        if kind == 'none':
            return None
        obj = build_pos(kind, data, kp)
        out = []
        if kind in ITER_KINDS:
            try:
                for k in obj:
                    i = self.kidx(case, k)
                    out.append('B' if i is None else i)
                    if i is None:
                        break
            except _SourceError:
                out.append('S')
            return ('keys', out)
        try:
            for k, c in obj.items():
                if type(c) is not int:      # range(count) raises before any add()
                    out.append('S')
                    break
                i = self.kidx(case, k)
                if i is None:
                    if c > 0:
                        out.append('B%d' % c)      # rejected with a count of c
                        break
                    continue
                out.append([i, c])
        except _SourceError:
            out.append('S')
        return ('map', out)

    def kw_effect(self, op):
        """the keyword counts of an 'up' op, ending in 'S' at a non-integer count"""
        out = []
        for k, c in (op[3] or []):
            if c == BAD:
                out.append('S')
                break
            out.append([k, c])
        return out

    def kidx(self, case, k):
        """index of a key object in the case's alphabet, None for an object that cannot be a key"""
        try:
            return int(self.rev(case)[k][1:])
        except Exception:
            return None

    def plan(self, case, op):
        """(sequence, fail) of one addition-type op: the additions the call asks for in the canonical order
        (positional argument as its object yields them, then keyword counts) up to the point where it meets
        something it cannot take; fail = None (the call is expected to return), 'B' / 'B<c>' (it raises inside
        add(): rejected key, asked for c times) or 'S' (it raises outside add())"""
        kind = op[0]
        if kind == 'ax':
            return [], 'B'
        if kind != 'up':
            return self.ordered_additions(case, op), None
        seq = []
        eff = self.up_effect(case, op)
        parts = ([] if eff is None else [eff]) + [('map', self.kw_effect(op))]
        for what, items in parts:
            for it in items:
                if isinstance(it, str):
                    return seq, it
                if what == 'keys':
                    seq.append(it)
                else:
                    seq.extend([it[0]] * it[1])
        return seq, None

    def rev(self, case):
        kp = case.get('kp', 0)
        ck = (kp, case['nk'])
        cache = self.__dict__.setdefault('_rev', {})
        if ck not in cache:
            cache[ck] = {key(k, kp): 'k%d' % k for k in range(max(case['nk'], 28))}
        return cache[ck]

    @staticmethod
    def dumps_after(case, i):
        """sparse cases (case['sp'], one counter, additions and most_common only) read the counter only before a
        most_common call and at the end: no reader runs between consecutive mutators"""
        if not case.get('sp'):
            return True
        ops = case['ops']
        return i + 1 >= len(ops) or ops[i + 1][0] == 'q'

    def ordered_additions(self, case, op):
        """the key sequence one addition-type op feeds to add(), in order (used for the model line of sparse
        cases, where a run of mutators is one model `update(iterable)`)"""
        kind = op[0]
        if kind == 'a':
            return [op[1]]
        if kind in ('u', 'ug', 'ut'):
            return list(op[1])
        if kind in MAPPING_KINDS:
            pos, kw = self.legacy_split(op)
            return [k for k, c in (pos or []) + (kw or []) for _ in range(c)]
        if kind == 'up':
            return self.plan(case, op)[0]
        return []

    # ------------------------------------------------------------------ model line
    def rejected_counted(self):
        """probe of the live implementation, once per run: does add() count a key it then rejects? (known finding
        C20-rejected-key-counted; the model follows the repaired code - fix ba7c963 - so while the probe says
        yes, histories in which a key is rejected are judged by the oracle only, not compared with the model)"""
        if not hasattr(self, '_rejected_counted'):
            from boltons.cacheutils import ThresholdCounter
            try:
                tc = ThresholdCounter(threshold=0.5)
                try:
                    tc.add(bad_key(0))
                except Exception:
                    pass
                self._rejected_counted = tc.total != 0
            except Exception:
                self._rejected_counted = False
            self.stats['probe:rejected_key_counted_in_total'] = self._rejected_counted
        return self._rejected_counted

    def line(self, case):
        if self.rejected_counted() and any(op[0] == 'ax' or (op[0] == 'up' and str(self.plan(case, op)[1]).startswith('B'))
                                           for op in case['ops']):
            return None
        def ps(l):      # 'B' / 'S' markers (the call raises there) travel as `!`
            return ','.join('!' if isinstance(p, str) else '%d:%d' % (p[0], p[1]) for p in l) or '-'

        def ns(l):
            return ','.join('!' if isinstance(k, str) else str(k) for k in l) or '-'
        ni = case.get('ni', 1)
        ex = self.th_exact(case)
        # exact thresholds (Fraction / Decimal) go to the model as p/q: its constructor derives the bucket width
        toks = [str(self.w_of(case)) if ex is None else '%d/%d' % (ex.numerator, ex.denominator),
                str(case['nk']) + ('x%d' % ni if ni > 1 else '')]
        if case.get('sp'):
            run = []
            for i, op in enumerate(case['ops']):
                if op[0] == 'q':
                    toks.append('q%d' % op[1])
                    continue
                run += self.ordered_additions(case, op)
                if self.dumps_after(case, i):
                    toks.append('u' + ns(run))
                    run = []
            return ' '.join(toks)
        for op in case['ops']:
            kind = op[0]
            if kind == 'a':
                toks.append('a%d' % op[1])
            elif kind in ('u', 'ug', 'ut'):
                toks.append('u' + ns(op[1]))
            elif kind == 'mkw':
                pos, kw = self.legacy_split(op)
                toks.append('M' + ps(pos) + '+' + ps(kw))
            elif kind in MAPPING_KINDS:
                pos, kw = self.legacy_split(op)
                toks.append('m' + ps(pos if pos is not None else kw))
            elif kind == 'ax':
                toks.append('x')
            elif kind in ('rx', 'cx'):      # a failing reader / constructor call: nothing happens to any counter
                toks.append('u-')
            elif kind == 'te':
                toks.append('e%d' % op[1])
            elif kind == 'tk':
                toks.append('k%d' % op[1])
            elif kind == 'up':
                eff = self.up_effect(case, op)
                kw = None if op[3] is None else self.kw_effect(op)
                if eff is None:
                    if kw:      # only keywords: update(kwargs)
                        toks.append('m' + ps(kw))
                    else:       # update() - nothing happens, but the harness still dumps
                        toks.append('u-')
                elif eff[0] == 'keys':
                    toks.append('u' + ns(eff[1]) if kw is None else 'U' + ns(eff[1]) + '+' + ps(kw))
                else:
                    toks.append('m' + ps(eff[1]) if kw is None else 'M' + ps(eff[1]) + '+' + ps(kw))
            elif kind == 't':
                toks.append('t%d' % op[1])
            elif kind == 'n':
                toks.append('n')
            elif kind == 'i':
                toks.append('i%d' % op[1])
            elif kind == 'q':
                toks.append('q%d' % op[1])
        return ' '.join(toks)

    # ------------------------------------------------------------------ implementation
    def impl(self, case):
        from boltons.cacheutils import ThresholdCounter
        out = []
        kp = case.get('kp', 0)
        rev = self.rev(case)

        def K(k):
            return key(k, kp)

        def kname(obj):
            try:
                return rev[obj]
            except (KeyError, TypeError):
                return '?%r' % (obj,)
        cf = case.get('cf', 0)      # call forms: 1 = every argument that can be passed by keyword is
        fed = []                    # keys a live iterator over a counter handed to update()
        phase = ['']
        accepted = [False]

        def spy(it):
            for k in it:
                fed.append(kname(k))
                yield k

        def update(tc, arg, kw=None):
            if kw is None:
                return tc.update(iterable=arg) if cf else tc.update(arg)
            return tc.update(iterable=arg, **kw) if cf else tc.update(arg, **kw)
        try:
            with time_limit(20):
                th = self.th_obj(case)
                new = (lambda: ThresholdCounter(th)) if cf else (lambda: ThresholdCounter(threshold=th))
                tcs = [new() for _ in range(case.get('ni', 1))]
                cur = 0
                for opi, op in enumerate(case['ops']):
                    tc = tcs[cur]
                    kind = op[0]
                    if kind == 'i':
                        cur = op[1]
                        continue
                    arg = None      # the object handed to update(); the caller empties it after the call
                    raised = None   # calls that are EXPECTED to meet something they cannot take: the caller
                    may_raise = kind in ('ax', 'rx', 'cx', 'te', 'tk') or \
                        (kind == 'up' and self.plan(case, op)[1] is not None)     # catches whatever they raise
                    del fed[:]
                    try:
                        if kind == 'a':
                            k = key(op[1], kp, alias=1) if len(op) > 2 and op[2] else K(op[1])
                            if cf:
                                tc.add(key=k)
                            else:
                                tc.add(k)
                        elif kind == 'ax':      # a key the counter cannot take
                            tc.add(bad_key(op[1]))
                        elif kind == 'rx':      # a reader call that fails (or at least must not change anything)
                            self.failing_reader(tc, op[1], K)
                        elif kind == 'cx':      # a constructor call that fails
                            ThresholdCounter(threshold=(0, 1, -0.5, 1.5, 'x', None)[op[1] % 6])
                        elif kind == 'te':      # a live iterator over a counter (maybe this one) as the iterable
                            update(tc, spy(tcs[op[1]].elements()))
                        elif kind == 'tk':
                            update(tc, spy(tcs[op[1]].iterkeys()))
                        elif kind == 'u':
                            arg = [K(k) for k in op[1]]
                            update(tc, arg)
                        elif kind == 'ug':
                            update(tc, (K(k) for k in op[1]))
                        elif kind == 'ut':
                            update(tc, tuple(K(k) for k in op[1]))
                        elif kind == 'm':
                            arg = {K(k): c for k, c in op[1]}
                            update(tc, arg)
                        elif kind == 'kw':
                            tc.update(**{K(k): c for k, c in op[1]})
                        elif kind == 'mkw':
                            half = len(op[1]) // 2
                            arg = {K(k): c for k, c in op[1][:half]}
                            update(tc, arg, {K(k): c for k, c in op[1][half:]})
                        elif kind == 'mp':      # read-only mapping proxy (a Mapping that is not a dict)
                            update(tc, types.MappingProxyType({K(k): c for k, c in op[1]}))
                        elif kind == 'ud':
                            arg = collections.UserDict({K(k): c for k, c in op[1]})
                            update(tc, arg)
                        elif kind == 'cm':
                            half = len(op[1]) // 2
                            update(tc, collections.ChainMap({K(k): c for k, c in op[1][:half]},
                                                            {K(k): c for k, c in op[1][half:]}))
                        elif kind == 'tc':      # another counter-like object exposing items()
                            arg = collections.Counter({K(k): c for k, c in op[1]})
                            update(tc, arg)
                        elif kind == 'up':
                            kw = {K(k): (bad_count(i) if c == BAD else c) for i, (k, c) in enumerate(op[3] or [])}
                            try:
                                if op[1] == 'none':
                                    if op[3] is None:
                                        tc.update()
                                    else:
                                        tc.update(**kw)
                                elif op[3] is None:
                                    arg = build_pos(op[1], op[2], kp)
                                    update(tc, arg)
                                else:
                                    arg = build_pos(op[1], op[2], kp)
                                    update(tc, arg, kw)
                            finally:
                                spoil(kw)
                        elif kind == 't':       # another ThresholdCounter (or this one) as the mapping
                            update(tc, tcs[op[1]])
                        elif kind == 'n':
                            tcs[cur] = new()
                        elif kind == 'q':
                            # the caller post-processes the list it got back, then asks again (nothing was added)
                            res = tc.most_common(n=op[1]) if cf else tc.most_common(op[1])
                            rec = {'q': [[kname(k), c] for k, c in res]}
                            spoil(res)
                            again = [[kname(k), c] for k, c in tc.most_common(op[1])]
                            if again != rec['q']:
                                rec['q2'] = again
                            out.append(rec)
                            continue
                    except CaseTimeout:
                        raise
                    except Exception as e:
                        if not may_raise:
                            raise
                        raised = exc_name(e)
                    if arg is not None:
                        spoil(arg)
                    if may_raise and raised is None and kind in ('ax', 'up'):
                        accepted[0] = True      # the call took an argument outside the statement's domain
                    if self.dumps_after(case, opi):
                        phase[0] = 'the readers after '
                        rec = {'d': [self.dump(t, case, kname) for t in tcs]}
                        phase[0] = ''
                        if raised is not None and kind not in ('rx', 'cx'):   # whether a READER raises is free
                            rec['raised'] = raised
                        if accepted[0]:
                            rec['accepted'] = True
                        if kind in ('te', 'tk'):
                            rec['fed'] = list(fed)
                        out.append(rec)
        except Exception as e:  # recorded, judged by the oracle
            out.append({'exc': exc_name(e), 'msg': str(e)[:200], 'phase': phase[0], 'accepted': accepted[0]})
        return out

    @staticmethod
    def failing_reader(tc, n, K):
        """reader calls on arguments they cannot serve; whatever they do, no counter may change"""
        n %= 6
        if n == 0:
            tc['#absent']               # KeyError
        elif n == 1:
            tc.get(bad_key(0))          # TypeError
        elif n == 2:
            bad_key(3) in tc            # RuntimeError out of __hash__
        elif n == 3:
            tc.most_common('x')         # TypeError
        elif n == 4:
            tc[bad_key(1)]
        else:
            tc.get('#absent', None)     # returns the default; must not insert the key

    READERS = ('total', 'items', 'keys', 'values', 'len', 'common', 'uncommon', 'mc', 'gets', 'has', 'elements',
               'iter', 'getitem')

    def dump(self, tc, case, kname):
        """every reader is called, the object it returned is handed to a caller who modifies it in place
        (`spoil`), and the reader is called again: with no addition in between the second answer must be the
        first one (readers whose two answers differ are recorded under 'reread')"""
        nk, kp = case['nk'], case.get('kp', 0)
        ident = lambda v: v
        pairs = lambda v: [[kname(k), c] for k, c in v]
        names = lambda v: [kname(k) for k in v]
        fns = {     # name -> (call returning the API's own object, canonical JSON form of it)
            'total': (lambda: tc.total, ident),
            'items': (tc.items, pairs),
            'keys': (tc.keys, names),
            'values': (tc.values, list),
            'len': (lambda: len(tc), ident),
            'common': (tc.get_common_count, ident),
            'uncommon': (tc.get_uncommon_count, ident),
            'mc': (tc.most_common, pairs),
            'gets': (lambda: [tc.get(key=key(k, kp), default=0) if case.get('cf') else tc.get(key(k, kp))
                              for k in range(nk)], ident),
            'has': (lambda: [1 if key(k, kp) in tc else 0 for k in range(nk)], ident),
            'elements': (tc.elements, names),
            'iter': (tc.iterkeys, names),
            'getitem': (lambda: [tc[k] for k in tc.keys()], ident),
        }
        order = list(self.READERS)
        if 'ro' in case:
            random.Random(case['ro']).shuffle(order)
        d = {}
        for name in order:
            call, canon = fns[name]
            raw = call()
            d[name] = canon(raw)
            if name in self.CONTAINERS:
                spoil(raw)
        reread = {}
        for name in order:
            if name in self.CONTAINERS:
                call, canon = fns[name]
                v = canon(call())
                if v != d[name]:
                    reread[name] = v
        if reread:
            d['reread'] = reread
        d['commonality'] = self.commonality(tc)
        return d

    CONTAINERS = ('items', 'keys', 'values', 'mc', 'elements', 'iter')

    @staticmethod
    def commonality(tc):
        """get_commonality() as a float, None when it raises (empty counter: outside the statement)"""
        try:
            return float(tc.get_commonality())
        except Exception:
            return None

    def render(self, case, obs):
        def kn(s):
            return s[1:] if isinstance(s, str) and s.startswith('k') else '?%r' % (s,)

        def pairs(l):
            return ','.join('%s:%s' % (kn(k), c) for k, c in l) or '-'

        def nats(l):
            return ','.join(str(x) for x in l) or '-'

        def canon(l):
            """most_common results: count descending, ties in key order (the statement fixes the count order only)"""
            def ck(p):
                k = kn(p[0])
                return (-p[1], (0, int(k), '') if k.isdigit() else (1, 0, k))
            try:
                return sorted(l, key=ck)
            except Exception:
                return list(l)

        def top(l):
            """most_common(n): the keys with the smallest returned count are not named (free choice among ties)"""
            l = canon(l)
            return ','.join('%s:%s' % (kn(k) if c != l[-1][1] else '*', c) for k, c in l) or '-'
        recs = []
        for o in obs:
            if 'exc' in o:
                recs.append('X' + o['exc'])
            elif 'q' in o:
                recs.append('Q' + top(o['q']) + ('!reread' if 'q2' in o else ''))
            else:
                recs.append(('!raised ' if o.get('raised') else '') + ' | '.join(' '.join([
                    'T%d' % d['total'], 'I' + pairs(d['items']), 'K' + nats(kn(k) for k in d['keys']),
                    'V' + nats(d['values']), 'L%d' % d['len'], 'C%d' % d['common'], 'U%d' % d['uncommon'],
                    'M' + pairs(canon(d['mc'])), 'G' + nats(d['gets']), 'H' + nats(d['has']),
                    'E' + nats(kn(k) for k in d['elements']), self.render_commonality(d)] +
                    (['!reread:' + ','.join(sorted(d['reread']))] if d.get('reread') else [])) for d in o['d']))
        return ';'.join(recs)

    @staticmethod
    def render_commonality(d):
        """get_commonality() is a float: rendered as the ratio n/total it stands for (n = the integer nearest to
        value * total, accepted within 1e-6), `R-` on a counter without additions whatever the code did there"""
        v, t = d.get('commonality'), d['total']
        if not t:
            return 'R-'
        if v is None or v != v or abs(v) > 2:
            return 'R?%r' % (v,)
        n = round(v * t)
        return 'R%d/%d' % (n, t) if abs(v * t - n) < 1e-6 else 'R?%r' % (v,)

    # ------------------------------------------------------------------ oracle (independent of the model)
    def call_effects(self, case, op, o, last_items):
        """(seq, fail, asked) of one mutator: seq = the key names it adds in canonical order up to the point where it
        meets something it cannot take; fail: None = the call is expected to return, 'B' / 'B<c>' = it raises
        inside add() on a key the counter rejects, 'S' = it raises elsewhere (non-integer count, the caller's
        iterable raised); asked = every valid addition the argument visibly asks for, as a Counter (whatever a
        failing call performed before the exception is a part of that)"""
        kind = op[0]
        none = collections.Counter()
        if kind in ('rx', 'cx'):
            return [], 'S', none
        if kind == 'ax':
            return [], 'B', none
        if kind in ('te', 'tk'):
            fed = list(o.get('fed', []))
            return fed, ('S' if o.get('raised') else None), collections.Counter(fed)
        if kind == 't':
            seq = [k for k, c in last_items[op[1]] for _ in range(c)]
            return seq, None, collections.Counter(seq)
        if kind != 'up':
            seq = ['k%d' % k for k in self.ordered_additions(case, op)]
            return seq, None, collections.Counter(seq)
        seq, fail = self.plan(case, op)
        seq = ['k%d' % k for k in seq]
        if fail is None:
            return seq, None, collections.Counter(seq)
        # what the call got through on the code as it is, plus the valid keyword counts (an implementation may
        # handle them before the positional argument, or although the positional argument raised)
        asked = collections.Counter(seq)
        kws = collections.Counter()
        for k, c in (op[3] or []):
            if c >= 0:
                kws['k%d' % k] += c
        eff = self.up_effect(case, op)
        if eff is not None and any(isinstance(x, str) for x in eff[1]):     # the positional part raised
            asked += kws
        else:       # the keyword part raised: everything positional is in seq, and so are the keywords before
            done = collections.Counter(seq)
            pos = collections.Counter()
            if eff is not None:
                for it in eff[1]:
                    if eff[0] == 'keys':
                        pos['k%d' % it] += 1
                    else:
                        pos['k%d' % it[0]] += it[1]
            asked = pos + kws
            assert not (done - asked), (done, asked)
        return seq, fail, asked

    # A reading of one counter's history: (lo, hi, n, rej) - key k was added between lo[k] and hi[k] times, n
    # additions took effect in all, rej rejected keys were counted in `total` on top (known finding). In a history
    # without calls that raised part-way there is exactly one reading, lo = hi = the true counts, rej = 0.
    @staticmethod
    def _extend(world, adds, n=None, rej=0, exact=True):
        lo, hi, total, r = world
        hi = dict(hi)
        for k, c in adds.items():
            if c:
                hi[k] = hi.get(k, 0) + c
        if exact:
            lo = dict(lo)
            for k, c in adds.items():
                if c:
                    lo[k] = lo.get(k, 0) + c
            n = sum(adds.values())
        return (lo, hi, total + n, r + rej)

    def successors(self, case, op, o, worlds, last_items, seen_total):
        """the readings of the current counter's history after one mutator. A call that returns normally adds
        what it was asked to. A call that met something it cannot take performed SOME of the additions it asks
        for before the exception (all those before the bad element on the code as it is; none for an
        implementation that validates its argument first; the keyword counts too for one that handles them in
        another order) - the statement's "number of additions" counts those: per key between 0 and what the call
        asks for, in all as many as the reported `total` says. A rejected KEY may in addition have been counted
        in `total` although nothing was stored (known finding C20-rejected-key-counted: readings with rej > 0;
        once on the code as it is, at most as often as the call asks for that key)."""
        seq, fail, asked = self.call_effects(case, op, o, last_items)
        if fail is None:
            return [self._extend(wd, asked) for wd in worlds]
        out = []
        rmax = int(fail[1:] or 1) if fail.startswith('B') else 0
        if isinstance(seen_total, int):
            for wd in worlds:
                for r in range(rmax + 1):
                    n = seen_total - (wd[2] + wd[3]) - r
                    if 0 <= n <= sum(asked.values()):
                        out.append(self._extend(wd, asked, n, r, exact=False))
        if not out:     # nothing explains the reported total: judged (and reported) against the code's own reading
            out = [self._extend(wd, collections.Counter(seq)) for wd in worlds]
        return out

    def oracle(self, case, obs):
        self._last = (case, obs)
        w = self.w_of(case)
        ex = self.th_exact(case)
        ni = case.get('ni', 1)
        # worlds[j]: the readings (see _extend) of counter j's history that explain everything observed so far
        worlds = [[({}, {}, 0, 0)] for _ in range(ni)]
        last_items = [[] for _ in range(ni)]
        cur = 0
        compactions = evicted = 0
        deferred = None
        self._nt = False
        oi = 0
        for opi, op in enumerate(case['ops']):
            kind = op[0]
            if kind == 'i':
                cur = op[1]
                continue
            if kind != 'q' and not self.dumps_after(case, opi):     # sparse case: no reader runs here
                adds = collections.Counter('k%d' % k for k in self.ordered_additions(case, op))
                t0 = worlds[cur][0][2]
                worlds[cur] = [self._extend(wd, adds) for wd in worlds[cur]]
                compactions += (t0 + sum(adds.values())) // w - t0 // w
                continue
            if oi >= len(obs):
                return Failure('missing', 'no observation for op %r' % (op,))
            o = obs[oi]
            oi += 1
            if o.get('accepted'):
                # an earlier call RETURNED NORMALLY on an argument outside the statement's domain (an unhashable
                # key, a non-integer count): the statement says nothing about what such a counter does from then
                # on (a float count may sit in it). Judging stops here; the correspondence still compares.
                break
            if 'exc' in o:
                return Failure('raises', '%s%s raised %s: %s' % (o.get('phase', ''), op, o['exc'], o.get('msg')))
            if kind == 'q':
                # judged against the previous dump's items
                n = op[1]
                res = o['q']
                items = last_items[cur]
                if 'q2' in o:
                    return Failure('reread', 'most_common(%d) returned %r, and %r when asked again after the caller '
                                   'modified the first list in place (nothing was added in between); items %r'
                                   % (n, res, o['q2'], items))
                cnts = sorted((c for _, c in items), reverse=True)
                if n <= 0:
                    if res != []:
                        return Failure('most_common', 'most_common(%d) returned %r' % (n, res))
                    continue
                if [c for _, c in res] != cnts[:n]:
                    return Failure('most_common', 'most_common(%d) counts %r, expected %r' % (n, res, cnts[:n]))
                if any(list(p) not in items for p in res) or len({k for k, _ in res}) != len(res):
                    return Failure('most_common', 'most_common(%d) pairs %r not drawn from items %r' % (n, res, items))
                continue
            if len(o['d']) != ni:
                return Failure('missing', 'dump of %d counters, expected %d' % (len(o['d']), ni))
            if kind == 'n':
                worlds[cur] = [({}, {}, 0, 0)]
            else:
                t0 = worlds[cur][0][2]
                worlds[cur] = self.successors(case, op, o, worlds[cur], last_items, o['d'][cur].get('total'))
                compactions += worlds[cur][0][2] // w - t0 // w
            for j in range(ni):
                d = o['d'][j]
                who = '' if ni == 1 else 'counter %d (op %r on counter %d): ' % (j, op, cur)
                last_items[j] = d['items']
                alive, fails = [], []
                for wd in worlds[j]:
                    f = self.judge(d, wd, w, case, ex)
                    if f is None:
                        alive.append(self.narrow(d, wd, w))
                    else:
                        fails.append(f)
                if not alive:
                    # reported from the reading that at least explains `total`, if there is one
                    f = ([f for f in fails if f.tag != 'total'] or fails)[0]
                    f.what = who + f.what
                    return f
                worlds[j] = alive
                if deferred is None and all(wd[3] > 0 for wd in alive):
                    wd = alive[0]
                    deferred = Failure('rejected_total', who + 'total %d after %d additions: %d key(s) that add() then '
                                       'rejected (unhashable / __hash__ raised) were counted in total; every other clause '
                                       'holds with total read as additions + rejected keys' % (d['total'], wd[2], wd[3]))
                    deferred.rej = wd[3]
                if j == cur:
                    got = dict(map(tuple, d['items']))
                    evicted += sum(1 for k, t in alive[0][0].items() if got.get(k, 0) < t)
        self.stats['compactions'] = self.stats.get('compactions', 0) + compactions
        self.stats['ops'] = self.stats.get('ops', 0) + len(case['ops'])
        for op in case['ops']:
            nm = op[0] if op[0] != 'up' else 'up:%s%s' % (op[1], '' if op[3] is None else '+kw')
            self.stats['op:' + nm] = self.stats.get('op:' + nm, 0) + 1
        self._nt = compactions > 0 and evicted > 0
        return deferred

    @staticmethod
    def narrow(o, world, w):
        """what a dump that satisfies the statement tells about the true counts of a reading with open intervals:
        count <= true <= count + slack now, and the true counts only move by known amounts afterwards"""
        lo, hi, total, rej = world
        if lo == hi:
            return world
        slack = (total + rej) // w
        counts = dict((k, c) for k, c in o['items'])
        lo2 = {k: max(lo.get(k, 0), counts.get(k, 0)) for k in hi}
        hi2 = {k: min(h, counts.get(k, 0) + slack) for k, h in hi.items()}
        return ({k: v for k, v in lo2.items() if v}, hi2, total, rej)

    def judge(self, o, world, w, case, ex):
        """every clause of the statement on one dump of one counter, in one reading (lo, hi, additions, rej) of
        its history: key k's true count lies in [lo[k], hi[k]] (lo = hi unless a call raised part-way), the true
        counts sum to `additions`. `rej` > 0: the reading in which `rej` rejected keys were counted in `total`
        (known finding C20-rejected-key-counted): `total` then stands for additions + rej in every clause"""
        lo, hi, total, rej = world
        th = case['th']
        if o.get('reread'):
            name = sorted(o['reread'])[0]
            api = {'mc': 'most_common', 'iter': 'iterkeys'}.get(name, name)
            return Failure('reread', '%s() returned %r, and %r when asked again after the caller modified the first '
                           'result in place (nothing was added in between)' % (api, o[name], o['reread'][name]))
        if o['total'] != total + rej:
            return Failure('total', 'total %d after %d additions' % (o['total'], total))
        additions = total
        total += rej
        slack = total // w
        counts = dict((k, c) for k, c in o['items'])
        if len(counts) != len(o['items']):
            return Failure('views', 'duplicate key in items %r' % (o['items'],))
        for k, c in counts.items():
            t = hi.get(k, 0)
            if c > t:
                return Failure('overcount', 'count[%s]=%d > true %d' % (k, c, t))
        for k, t in lo.items():
            c = counts.get(k, 0)
            if t - c > slack:
                return Failure('undercount', 'count[%s]=%d short of true %d by more than slack %d' % (k, c, t, slack))
        if lo != hi:
            # the true counts are known up to intervals only: some choice within them must add up to the additions
            least = sum(max(lo.get(k, 0), counts.get(k, 0)) for k in hi)
            most = sum(min(h, counts.get(k, 0) + slack) for k, h in hi.items())
            if least > additions:
                return Failure('overcount', 'the reported counts %r need at least %d additions, %d took effect'
                               % (o['items'], least, additions))
            if most < additions:
                return Failure('undercount', 'of %d additions that took effect at most %d are accounted for by the '
                               'reported counts %r within the slack %d' % (additions, most, o['items'], slack))
        if o['common'] + o['uncommon'] != total:
            return Failure('common_uncommon', '%d + %d != %d' % (o['common'], o['uncommon'], total))
        if o['common'] != sum(counts.values()):
            return Failure('views', 'common count %d != sum of counts %d' % (o['common'], sum(counts.values())))
        if [list(p) for p in zip(o['keys'], o['values'])] != o['items'] or o['len'] != len(o['items']) \
                or o['iter'] != o['keys'] or o['getitem'] != o['values']:
            return Failure('views', 'keys/values/len/iter/[] disagree with items: %r' % (o,))
        for i in range(case['nk']):
            if o['gets'][i] != counts.get('k%d' % i, 0) or o['has'][i] != (1 if 'k%d' % i in counts else 0):
                return Failure('views', 'get/in disagree with items for %s' % ('k%d' % i))
        if sorted(o['elements']) != sorted(k for k, c in o['items'] for _ in range(c)):
            return Failure('views', 'elements() disagrees with items')
        mc = o['mc']
        if sorted(map(tuple, mc)) != sorted(map(tuple, o['items'])) or \
                [c for _, c in mc] != sorted((c for _, c in mc), reverse=True):
            return Failure('most_common', 'most_common() = %r for items %r' % (mc, o['items']))
        if (o['len'] * ex > 2) if ex is not None else (o['len'] > 2 / th):
            f = Failure('size_bound', 'tracks %d keys > 2/threshold = %.3f (threshold %r) after %d additions'
                        % (o['len'], 2 / th, th, total))
            f.rej = rej
            return f
        return None

    def nontrivial(self, case, obs):
        return getattr(self, '_nt', False)

    # known finding: the Lossy Counting algorithm itself exceeds 2/threshold (Lean: C20.size_bound_false);
    # an excess is that finding only when the implementation still behaves like the verified model
    def finding_size_bound(self, case, failure):
        if failure.tag != 'size_bound' or getattr(failure, 'rej', 0):
            return False
        if getattr(failure, 'model_agrees', None) is not False:
            return True
        # model and implementation differ somewhere on this case. The finding is about WHICH KEYS ARE TRACKED: it is
        # still the known finding when, after every mutator, total and the tracked keys with their counts (as a
        # set) are exactly the verified model's - whatever else differs (order of ties in most_common, dict
        # order, get_commonality ...) is either free or reported by its own clause (size_bound is judged last)
        try:
            last = getattr(self, '_last', None)
            if last is None or last[0] is not case:
                return False
            from bv.common import Driver
            drv = Driver(self.PID)
            ln = self.line(case)
            if ln is None or not drv.available():
                return False
            return self.core_text(drv.query([ln])[0]) == self.core_text(self.render(case, last[1]))
        except Exception:
            return False

    # known finding until fix ba7c963 is in: add() bumps `total` before the dict operation, so a key it then
    # rejects is counted. Matches only (1) the deferred 'rejected_total' failure - raised when EVERY clause holds
    # in the reading "total = additions + rejected keys" and in no reading with total = additions - and (2) an
    # excess over 2/threshold in such a reading (a compaction point passed by a rejected key is skipped).
    def finding_rejected_total(self, case, failure):
        if failure.tag == 'rejected_total':
            return True
        return failure.tag == 'size_bound' and getattr(failure, 'rej', 0) > 0

    @staticmethod
    def core_text(text):
        """of a correspondence text: per dump `T<total>` and the `I` pairs as a sorted list"""
        out = []
        for rec in text.split(';'):
            if rec[:1] in ('Q', 'X'):
                continue
            if rec.startswith('!raised '):
                rec = rec[len('!raised '):]
            for d in rec.split(' | '):
                toks = d.split(' ')
                t = [x for x in toks if x[:1] == 'T']
                i = [x for x in toks if x[:1] == 'I']
                out.append((t, sorted(i[0][1:].split(',')) if i else None))
        return out

    def shrink(self, case):
        ops = case['ops']
        for i in range(len(ops)):
            yield dict(case, ops=ops[:i] + ops[i + 1:])
        if 'ro' in case:
            yield {k: v for k, v in case.items() if k != 'ro'}
        if 'sp' in case:
            yield {k: v for k, v in case.items() if k != 'sp'}
        if 'cf' in case:
            yield {k: v for k, v in case.items() if k != 'cf'}
        for i, op in enumerate(ops):
            def rep(new):
                return dict(case, ops=ops[:i] + [new] + ops[i + 1:])
            if op[0] == 'up':
                if op[3]:
                    for j in range(len(op[3])):
                        yield rep(['up', op[1], op[2], op[3][:j] + op[3][j + 1:]])
                if op[1] == 'cm':
                    for p in range(len(op[2])):
                        for j in range(len(op[2][p])):
                            parts = [list(x) for x in op[2]]
                            del parts[p][j]
                            yield rep(['up', 'cm', parts, op[3]])
                elif op[2]:
                    for j in range(len(op[2])):
                        yield rep(['up', op[1], op[2][:j] + op[2][j + 1:], op[3]])
                for tgt, src in (('list', ITER_KINDS), ('dict', MAP_KINDS)):
                    if op[1] in src and op[1] not in (tgt, 'cm'):
                        yield rep(['up', tgt, op[2], op[3]])
            elif op[0] not in ('a', 'q', 't', 'n', 'i', 'ax', 'rx', 'cx', 'te', 'tk') and len(op[1]) > 0:
                for j in range(len(op[1])):
                    yield rep([op[0], op[1][:j] + op[1][j + 1:]])
            if op[0] in MAPPING_KINDS or op[0] == 'up':
                # smaller counts
                def lower(pl):
                    for j, (k, c) in enumerate(pl):
                        if c > 1:
                            yield pl[:j] + [[k, c - 1]] + pl[j + 1:]
                if op[0] in MAPPING_KINDS:
                    for pl in lower(op[1]):
                        yield rep([op[0], pl])
                else:
                    if op[1] in MAP_KINDS and op[1] != 'cm':
                        for pl in lower(op[2]):
                            yield rep(['up', op[1], pl, op[3]])
                    if op[3]:
                        for pl in lower(op[3]):
                            yield rep(['up', op[1], op[2], pl])


PROPERTY = C20
