"""C20 - ThresholdCounter: never over-counts, under-counts boundedly, (size bound: known finding)."""
import itertools
import math

from bv.common import Property, Failure, time_limit, exc_name

# thresholds as (float, expected floor(1/threshold)) - the second is computed here, independently
THRESHOLDS = [1 / n for n in range(2, 13)] + [0.3, 0.7, 0.999, 0.0625, 0.04, 1 / 24, 0.021, 0.51]


MAPPING_KINDS = ('m', 'kw', 'mkw', 'mp', 'ud', 'cm', 'tc')


def key(k):
    return 'k%d' % k


class C20(Property):
    PID = 'C20'
    QUICK_BUDGET_S = 40
    THOROUGH_BUDGET_S = 600
    RULE = ('a case is one whole history: threshold, then add / update(iterable) / update(mapping) / '
            'update(**kw) / most_common(n) calls over a small key alphabet; every reader is dumped after every '
            'mutator. Exhaustive: all add-streams up to length L over 3 keys for w=1..6; random mixed histories; '
            'adversarial "just survives" streams. Non-trivial = at least one compaction happened and at least '
            'one key was evicted or under-counted; distinct = distinct (threshold, history).')
    ASSUMPTIONS = ['keys are hashable with == consistent with hash; counts in mappings are non-negative ints',
                   'model parameter w = floor(1/threshold) is computed by the harness with the same float division']
    CORRESPONDENCE_NAME = 'C20.Driver (ThresholdCounter model) vs boltons.cacheutils.ThresholdCounter'

    # ------------------------------------------------------------------ generation
    def cases(self, budget_s):
        rng = self.rng
        L = 7 if self.thorough else 6
        for w in range(1, 7):
            th = {1: 0.7, 2: 0.5, 3: 1 / 3, 4: 0.25, 5: 0.2, 6: 1 / 6}[w]
            for n in range(0, L + 1):
                for st in itertools.product(range(3), repeat=n):
                    yield {'th': th, 'nk': 3, 'ops': [['a', k] for k in st]}
        n_rand = 40000 if self.thorough else 2500
        for i in range(n_rand):
            yield self.random_case(rng, big=self.thorough and i % 10 == 0)
        for c in self.adversarial(rng, 300 if self.thorough else 40):
            yield c

    def deep_cases(self, budget_s):
        rng = self.rng
        for c in self.adversarial(rng, 200):
            yield c
        while True:
            yield self.random_case(rng, big=rng.random() < 0.2)

    def random_case(self, rng, big=False):
        th = rng.choice(THRESHOLDS)
        nk = rng.choice([2, 3, 4, 6, 9]) if not big else rng.choice([12, 30, 60])
        nops = rng.randint(1, 25) if not big else rng.randint(20, 120)
        ops = []
        heavy = rng.randrange(nk)
        for _ in range(nops):
            r = rng.random()

            def pick():
                return heavy if rng.random() < 0.35 else rng.randrange(nk)
            if r < 0.5:
                ops.append(['a', pick()])
            elif r < 0.7:
                ops.append([rng.choice(['u', 'ug', 'ut']), [pick() for _ in range(rng.randint(0, 6))]])
            elif r < 0.85:
                ks = rng.sample(range(nk), rng.randint(0, min(nk, 3)))
                ops.append([rng.choice(['m', 'kw', 'mkw', 'mp', 'ud', 'cm', 'tc']), [[k, rng.randint(0, 4)] for k in ks]])
            else:
                ops.append(['q', rng.choice([-1, 0, 1, 2, 3, 50])])
        return {'th': th, 'nk': nk, 'ops': ops}

    def adversarial(self, rng, n):
        """streams built so that many keys just survive each compaction (stress the size bound / slack)"""
        for _ in range(n):
            w = rng.choice([4, 6, 8, 12, 24])
            th = 1 / w
            stream = []
            nxt = 0
            rounds = rng.randint(2, 4)
            for r in range(rounds, 0, -1):
                # keys that appear r+1 times spread so that each survives r compactions
                cnt = max(1, (w * 1) // (r + 1))
                for _k in range(cnt):
                    stream += [nxt] * (r + 1)
                    nxt += 1
            stream += list(range(nxt, nxt + w - 1))
            nxt += w - 1
            if rng.random() < 0.5:
                rng.shuffle(stream)
            yield {'th': th, 'nk': nxt, 'ops': [['a', k] for k in stream]}

    # ------------------------------------------------------------------ model line
    def line(self, case):
        w = math.floor(1 / case['th'])
        toks = [str(w), str(case['nk'])]
        for op in case['ops']:
            if op[0] == 'a':
                toks.append('a%d' % op[1])
            elif op[0] in ('u', 'ug', 'ut'):
                toks.append('u' + (','.join(map(str, op[1])) or '-'))
            elif op[0] == 'cm':     # ChainMap iterates its LAST map first
                half = len(op[1]) // 2
                toks.append('m' + (','.join('%d:%d' % (k, c) for k, c in op[1][half:] + op[1][:half]) or '-'))
            elif op[0] in MAPPING_KINDS:
                toks.append('m' + (','.join('%d:%d' % (k, c) for k, c in op[1]) or '-'))
            elif op[0] == 'q':
                toks.append('q%d' % op[1])
        return ' '.join(toks)

    # ------------------------------------------------------------------ implementation
    def impl(self, case):
        from boltons.cacheutils import ThresholdCounter
        out = []
        try:
            with time_limit(20):
                tc = ThresholdCounter(threshold=case['th'])
                for op in case['ops']:
                    kind = op[0]
                    if kind == 'a':
                        tc.add(key(op[1]))
                    elif kind == 'u':
                        tc.update([key(k) for k in op[1]])
                    elif kind == 'ug':
                        tc.update(key(k) for k in op[1])
                    elif kind == 'ut':
                        tc.update(tuple(key(k) for k in op[1]))
                    elif kind == 'm':
                        tc.update({key(k): c for k, c in op[1]})
                    elif kind == 'kw':
                        tc.update(**{key(k): c for k, c in op[1]})
                    elif kind == 'mkw':
                        half = len(op[1]) // 2
                        tc.update({key(k): c for k, c in op[1][:half]}, **{key(k): c for k, c in op[1][half:]})
                    elif kind == 'mp':      # read-only mapping proxy (a Mapping that is not a dict)
                        import types
                        tc.update(types.MappingProxyType({key(k): c for k, c in op[1]}))
                    elif kind == 'ud':
                        import collections
                        tc.update(collections.UserDict({key(k): c for k, c in op[1]}))
                    elif kind == 'cm':
                        import collections
                        half = len(op[1]) // 2
                        tc.update(collections.ChainMap({key(k): c for k, c in op[1][:half]},
                                                       {key(k): c for k, c in op[1][half:]}))
                    elif kind == 'tc':      # another counter-like object exposing items()
                        import collections
                        tc.update(collections.Counter({key(k): c for k, c in op[1]}))
                    elif kind == 'q':
                        out.append({'q': [list(p) for p in tc.most_common(op[1])]})
                        continue
                    out.append(self.dump(tc, case['nk']))
        except Exception as e:  # recorded, judged by the oracle
            out.append({'exc': exc_name(e), 'msg': str(e)[:200]})
        return out

    @staticmethod
    def dump(tc, nk):
        return {
            'total': tc.total, 'items': [list(p) for p in tc.items()], 'keys': list(tc.keys()),
            'values': list(tc.values()), 'len': len(tc), 'common': tc.get_common_count(),
            'uncommon': tc.get_uncommon_count(), 'mc': [list(p) for p in tc.most_common()],
            'gets': [tc.get(key(k)) for k in range(nk)],
            'has': [1 if key(k) in tc else 0 for k in range(nk)],
            'elements': list(tc.elements()),
            'iter': list(tc.iterkeys()), 'getitem': [tc[k] for k in tc.keys()],
        }

    def render(self, case, obs):
        def kn(s):
            return s[1:] if isinstance(s, str) and s.startswith('k') else '?%r' % (s,)

        def pairs(l):
            return ','.join('%s:%s' % (kn(k), c) for k, c in l) or '-'

        def nats(l):
            return ','.join(str(x) for x in l) or '-'
        recs = []
        for o in obs:
            if 'exc' in o:
                recs.append('X' + o['exc'])
            elif 'q' in o:
                recs.append('Q' + pairs(o['q']))
            else:
                recs.append(' '.join([
                    'T%d' % o['total'], 'I' + pairs(o['items']), 'K' + nats(kn(k) for k in o['keys']),
                    'V' + nats(o['values']), 'L%d' % o['len'], 'C%d' % o['common'], 'U%d' % o['uncommon'],
                    'M' + pairs(o['mc']), 'G' + nats(o['gets']), 'H' + nats(o['has']),
                    'E' + nats(kn(k) for k in o['elements'])]))
        return ';'.join(recs)

    # ------------------------------------------------------------------ oracle (independent of the model)
    def oracle(self, case, obs):
        th = case['th']
        w = math.floor(1 / th)
        true = {}
        total = 0
        compactions = evicted = 0
        self._last_items = []
        self._nt = False
        oi = 0
        for op in case['ops']:
            if oi >= len(obs):
                return Failure('missing', 'no observation for op %r' % (op,))
            o = obs[oi]
            oi += 1
            if 'exc' in o:
                return Failure('raises', '%s raised %s: %s' % (op, o['exc'], o.get('msg')))
            kind = op[0]
            if kind == 'q':
                # judged against the previous dump's items
                n = op[1]
                res = o['q']
                items = self._last_items
                cnts = sorted((c for _, c in items), reverse=True)
                if n <= 0:
                    if res != []:
                        return Failure('most_common', 'most_common(%d) returned %r' % (n, res))
                    continue
                if [c for _, c in res] != cnts[:n]:
                    return Failure('most_common', 'most_common(%d) counts %r, expected %r' % (n, res, cnts[:n]))
                if any(list(p) not in items for p in res) or len({k for k, _ in res}) != len(res):
                    return Failure('most_common', 'most_common(%d) pairs %r not drawn from items %r' % (n, res, items))
                continue
            if kind == 'a':
                adds = [op[1]]
            elif kind in ('u', 'ug', 'ut'):
                adds = list(op[1])
            else:
                adds = [k for k, c in op[1] for _ in range(c)]
            before_c = total // w
            for k in adds:
                true[key(k)] = true.get(key(k), 0) + 1
            total += len(adds)
            compactions += total // w - before_c
            self._last_items = o['items']
            if o['total'] != total:
                return Failure('total', 'total %d after %d additions' % (o['total'], total))
            slack = total // w
            counts = dict((k, c) for k, c in o['items'])
            if len(counts) != len(o['items']):
                return Failure('views', 'duplicate key in items %r' % (o['items'],))
            for k, c in counts.items():
                t = true.get(k, 0)
                if c > t:
                    return Failure('overcount', 'count[%s]=%d > true %d' % (k, c, t))
            for k, t in true.items():
                c = counts.get(k, 0)
                if t - c > slack:
                    return Failure('undercount', 'count[%s]=%d short of true %d by more than slack %d' % (k, c, t, slack))
                if c < t:
                    evicted += 1
            if o['common'] + o['uncommon'] != total:
                return Failure('common_uncommon', '%d + %d != %d' % (o['common'], o['uncommon'], total))
            if o['common'] != sum(counts.values()):
                return Failure('views', 'common count %d != sum of counts %d' % (o['common'], sum(counts.values())))
            if [list(p) for p in zip(o['keys'], o['values'])] != o['items'] or o['len'] != len(o['items']) \
                    or o['iter'] != o['keys'] or o['getitem'] != o['values']:
                return Failure('views', 'keys/values/len/iter/[] disagree with items: %r' % (o,))
            for i in range(case['nk']):
                if o['gets'][i] != counts.get(key(i), 0) or o['has'][i] != (1 if key(i) in counts else 0):
                    return Failure('views', 'get/in disagree with items for %s' % key(i))
            if sorted(o['elements']) != sorted(k for k, c in o['items'] for _ in range(c)):
                return Failure('views', 'elements() disagrees with items')
            mc = o['mc']
            if sorted(map(tuple, mc)) != sorted(map(tuple, o['items'])) or \
                    [c for _, c in mc] != sorted((c for _, c in mc), reverse=True):
                return Failure('most_common', 'most_common() = %r for items %r' % (mc, o['items']))
            if o['len'] > 2 / th:
                return Failure('size_bound', 'tracks %d keys > 2/threshold = %.3f (threshold %r) after %d additions'
                               % (o['len'], 2 / th, th, total))
        self.stats['compactions'] = self.stats.get('compactions', 0) + compactions
        self.stats['ops'] = self.stats.get('ops', 0) + len(case['ops'])
        self._nt = compactions > 0 and evicted > 0
        return None

    def nontrivial(self, case, obs):
        return getattr(self, '_nt', False)

    # known finding: the Lossy Counting algorithm itself exceeds 2/threshold (Lean: C20.size_bound_false);
    # an excess is that finding only when the implementation still behaves like the verified model
    def finding_size_bound(self, case, failure):
        return failure.tag == 'size_bound' and getattr(failure, 'model_agrees', None) is not False

    def shrink(self, case):
        ops = case['ops']
        for i in range(len(ops)):
            yield dict(case, ops=ops[:i] + ops[i + 1:])
        for i, op in enumerate(ops):
            if op[0] != 'a' and op[0] != 'q' and len(op[1]) > 0:
                for j in range(len(op[1])):
                    yield dict(case, ops=ops[:i] + [[op[0], op[1][:j] + op[1][j + 1:]]] + ops[i + 1:])


PROPERTY = C20
