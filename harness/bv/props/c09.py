"""C09 - chunking / windowing / splitting / stripping / grouping helpers of boltons.iterutils.

Items travel as codes: 0 = None, otherwise 1 + 3*v + t  (t: 0 int or str-char, 1 float, 2 bool).
`==`/`hash` only see the class  cls(code) = 0 for None, v + 1 otherwise.
"""
import collections
import itertools
import sys

from bv.common import Property, Failure, time_limit, exc_name, CaseTimeout

KINDS = ('list', 'tuple', 'iter', 'gen', 'str', 'bytes')
# round 2: more input kinds (chunked_iter has type-specific paths: `not src`, isinstance str/bytes)
KINDS2 = KINDS + ('bytearray', 'deque', 'range')
# round 3: still more input kinds: a dict (its keys, distinct items only), a memoryview and an array of small ints
# (sequences that are not list / str / bytes), a bare iterable (only __iter__: no len, no bool, no indexing)
# and an old-style sequence (only __len__ / __getitem__)
# round 3b: 'words' - a list whose items are whole strings ('aa', 'bb', ...; None allowed), the item type of the
# library's own docstring examples: a str separator / strip value is then ONE item value (is_scalar), not a
# collection of characters
KINDS3 = KINDS2 + ('dict', 'memoryview', 'array', 'iterable', 'getitem', 'words')
REITERABLE = ('list', 'tuple', 'str', 'bytes', 'bytearray', 'deque', 'range', 'dict', 'memoryview', 'array',
              'iterable', 'getitem', 'words')
MUTABLE = ('list', 'bytearray', 'deque', 'dict', 'array', 'words')
WORD_KEYS = ('id', 'const', 'nope', 'real')      # key kinds that make sense for str items
KEYS_NUM = ('id', 'mod2', 'mod3', 'div2', 'const', 'bool', 'real', 'imag', 'den', 'nope')


# ------------------------------------------------------------------ codes <-> Python objects
def cls(c):
    return 0 if c == 0 else (c - 1) // 3 + 1


def val(c):
    return (c - 1) // 3


def tag(c):
    return (c - 1) % 3


def ikind(kind):
    """the item type of an input kind: 'str' (characters), 'bytes' (small ints) or 'list' (any item)"""
    return 'str' if kind == 'str' else 'bytes' if kind in ('bytes', 'bytearray', 'memoryview', 'array') else 'list'


class BareIterable:
    """an iterable with nothing but __iter__ (re-iterable; no __len__, no __getitem__)"""

    def __init__(self, items):
        self._items = list(items)

    def __iter__(self):
        return iter(list(self._items))


class GetItemSeq:
    """an old-style sequence: __len__ and __getitem__ only (iteration through the index protocol)"""

    def __init__(self, items):
        self._items = list(items)

    def __len__(self):
        return len(self._items)

    def __getitem__(self, i):
        if not isinstance(i, int):
            raise TypeError('indices must be integers')
        return self._items[i]


def ekind(kind):
    """the kind that decides how a separator / strip value / fill code is decoded for an input of this kind"""
    return kind if kind in ('str', 'words') else 'list'


def kind_ok(kind, codes):
    """can an input of this kind hold exactly these item codes?"""
    if kind == 'words':
        return all(c == 0 or tag(c) == 0 for c in codes)
    if kind == 'range':
        return is_run(codes)
    if kind == 'dict':
        return len({cls(c) for c in codes}) == len(codes)
    if ikind(kind) == 'bytes':
        return all(c >= 1 and tag(c) == 0 and val(c) < 256 for c in codes)
    if kind == 'str':
        return all(c >= 1 and tag(c) == 0 for c in codes)
    return True


def dec(c, kind='list'):
    if kind == 'words':
        return None if c == 0 else chr(97 + val(c)) * 2
    kind = ikind(kind)
    if kind == 'str':
        return chr(97 + val(c))
    if c == 0:
        return None
    v, t = val(c), tag(c)
    if kind == 'bytes':
        return v
    return v if t == 0 else float(v) if t == 1 else bool(v)


def dec_fill(c, kind):
    """a fill / end value of the item type of `kind` (None stays None)"""
    if c is None or c == 0:
        return None
    return dec(c, kind if kind == 'words' else ikind(kind))


class BadValue(Exception):
    pass


class ChunkList(list):
    """the chunks as code lists, plus the Python type name they all have (`ctype`; None when there is no chunk)"""
    ctype = None


def enc(o):
    if o is None:
        return 0
    if o is True or o is False:
        return 1 + 3 * int(o) + 2
    if type(o) is int and o >= 0:
        return 1 + 3 * o
    if type(o) is float and o >= 0 and o == int(o):
        return 1 + 3 * int(o) + 1
    if type(o) is str and len(o) == 1 and ord(o) >= 97:
        return 1 + 3 * (ord(o) - 97)
    if type(o) is str and len(o) == 2 and o[0] == o[1] and ord(o[0]) >= 97:
        return 1 + 3 * (ord(o[0]) - 97)          # a 'words' item
    raise BadValue('not an input item: ' + repr(o)[:60])


def encl(seq):
    """any sequence of items (list, tuple, str, bytes) -> list of codes"""
    return [enc(x) for x in seq]


def mk_src(codes, kind):
    items = [dec(c, kind) for c in codes]
    if kind in ('list', 'words'):
        if not kind_ok(kind, codes):
            raise BadCase('words input needs plain codes')
        return items
    if kind == 'tuple':
        return tuple(items)
    if kind == 'iter':
        return iter(items)
    if kind == 'gen':
        return (x for x in items)
    if kind == 'str':
        return ''.join(items)
    if kind == 'bytes':
        return bytes(items)
    if kind == 'bytearray':
        return bytearray(items)
    if kind == 'deque':
        return collections.deque(items)
    if kind == 'range':
        if not is_run(codes):
            raise BadCase('range input needs consecutive ints')
        return range(items[0], items[0] + len(items)) if items else range(0)
    if kind == 'dict':
        if not kind_ok(kind, codes):
            raise BadCase('dict input needs distinct items')
        return {x: None for x in items}
    if kind == 'memoryview':
        return memoryview(bytes(items))
    if kind == 'array':
        import array
        return array.array('i', items)
    if kind == 'iterable':
        return BareIterable(items)
    if kind == 'getitem':
        return GetItemSeq(items)
    raise ValueError(kind)


def is_run(codes):
    """codes of consecutive plain ints (what a range object can hold)"""
    return all(c >= 1 and tag(c) == 0 for c in codes) and all(b - a == 3 for a, b in zip(codes, codes[1:]))


class BadCase(Exception):
    """a case the harness itself cannot build (never produced by the generators / shrinker)"""


# ------------------------------------------------------------------ numeric arguments as the caller passes them
# case['pa'] = {param name: alias}; the case field always holds the int the argument converts to
#   'f' float(v)   'h' v +- 0.5 (int() truncates back to v)   'g' -0.5 (v == 0)   'b' bool(v) (v in 0, 1)
def palias(case, name):
    a = (case.get('pa') or {}).get(name)
    v = case.get(name)
    if a is None or v is None:
        return None
    if a == 'g' and v != 0:
        return None
    if a == 'b' and v not in (0, 1):
        return None
    return a


def pobj(case, name):
    """the Python object passed for a numeric parameter"""
    v, a = case[name], palias(case, name)
    if a is None:
        return v
    if a == 'f':
        return float(v)
    if a == 'h':
        return v + 0.5 if v >= 0 else v - 0.5
    if a == 'g':
        return -0.5
    return bool(v)


def ptok(case, name):
    """the same argument for the Lean driver: `5`, `h11` (= 5.5, halves), `bT`"""
    v, a = case[name], palias(case, name)
    if v is None:
        return '-'
    if a is None:
        return str(v)
    if a == 'f':
        return 'h%d' % (2 * v)
    if a == 'h':
        return 'h%d' % (2 * v + 1 if v >= 0 else 2 * v - 1)
    if a == 'g':
        return 'h-1'
    return 'bT' if v else 'bF'


def is_float_alias(case, name):
    return palias(case, name) in ('f', 'h', 'g')


def kcls(k):
    """class of a key object (dict key / key-function result)"""
    if k is None:
        return 0
    if type(k) is str:
        return ord(k[0]) - 97 + 1
    return int(k) + 1


class _CallableObject:
    """an instance with __call__ (callable, but neither a function nor a class)"""

    def __init__(self, f):
        self._f = f

    def __call__(self, x):
        return self._f(x)

    def method(self, x):
        return self._f(x)


class _FalsyCallable(_CallableObject):
    """round 3b: a callable object whose truth value is False (it defines __bool__; an empty callable container
    with __len__ is the same): still callable(), still `is not None`"""

    def __bool__(self):
        return False


def as_callable_kind(f, kc, intvalued=False):
    """round 3: the same function as another KIND of callable - every one satisfies callable():
    'lambda' a plain function, 'partial' a functools.partial, 'object' an instance with __call__,
    'method' a bound method, 'class' a class (an int subclass whose constructor computes the value; only for
    int / bool valued functions, otherwise like 'object')"""
    if kc in (None, 'lambda') or not callable(f):
        return f
    if kc == 'partial':
        import functools
        return functools.partial(lambda g, x: g(x), f)
    if kc == 'object' or (kc == 'class' and not intvalued):
        return _CallableObject(f)
    if kc == 'falsy':
        return _FalsyCallable(f)
    if kc == 'method':
        return _CallableObject(f).method
    if kc == 'class':
        return type('_KeyClass', (_IntKey,), {'_f': staticmethod(f)})
    raise ValueError(kc)


class _IntKey(int):
    """calling the class computes `_f(x)`; the instance is that int (== and hash of the int)"""
    _f = None

    def __new__(cls, x):
        return int.__new__(cls, cls._f(x))


CALLABLE_KINDS = ('lambda', 'partial', 'object', 'method', 'class', 'falsy')


def key_callable(name, kc=None):
    """the Python `key` argument for a key token (callable, attribute name, or None)"""
    return as_callable_kind(_key_callable(name), kc,
                            intvalued=name in ('bool', 'const') or name.startswith(('mod', 'div')))


def _key_callable(name):
    if name == 'id':
        return None
    if name.startswith('mod'):
        n = int(name[3:])
        return lambda x: x % n
    if name.startswith('div'):
        n = int(name[3:])
        return lambda x: x // n
    if name == 'const':
        return lambda x: 0
    if name == 'bool':
        return bool
    return {'real': 'real', 'imag': 'imag', 'den': 'denominator', 'nope': 'no_such_attribute'}[name]


def key_class(name, c):
    """oracle-side table: class of key(item) from the item code (independent of boltons and of Lean)"""
    if name in ('id', 'real', 'nope'):
        return cls(c)
    if name == 'const':
        return 1
    if name == 'bool':
        return 1 if (c == 0 or val(c) == 0) else 2
    if name == 'imag':
        return 0 if c == 0 else 1
    if name == 'den':
        return 0 if c == 0 else (cls(c) if tag(c) == 1 else 2)
    if name.startswith('mod'):
        return val(c) % int(name[3:]) + 1
    if name.startswith('div'):
        return val(c) // int(name[3:]) + 1
    raise ValueError(name)


def sq_code(c):
    v, t = val(c), tag(c)
    return 1 + 3 * (v * v) + (0 if t == 2 else t)


def nats(l):
    return ','.join(map(str, l)) or '-'


def show_ll(ll):
    return '|'.join(nats(l) for l in ll) if ll else '[]'


def opt(x):
    return '-' if x is None else str(x)


def sep_token(sep, sc=None):
    kind = sep[0]
    if kind == 'n':
        return 'n'
    if kind == 'v':
        return 'v%d' % sep[1]
    if kind == 'y':
        return 'kbytes:' + nats(sep[1])            # a bytes object as separator
    if kind == 's' and sc is not None:
        return 'k%s:%s' % (sc, nats(sep[1]))       # the separators held in a container of kind sc
    return kind + nats(sep[1])


def sep_classes(sep):
    if sep[0] == 'n':
        return {0}
    if sep[0] == 'v':
        return {cls(sep[1])}
    if sep[0] == 't':
        # a str separator is a scalar: it equals a character item only if it is that one character
        return {cls(sep[1][0])} if len(sep[1]) == 1 else set()
    if sep[0] == 'y':
        return set()          # a bytes object equals no item
    return {cls(c) for c in sep[1]}


# round 3: the Python object that holds the separators of an 's' separator (case['sc']); the default (no 'sc')
# is a list for an odd number of separators and a tuple for an even number, as before
SEP_CONTAINERS = ('list', 'tuple', 'set', 'frozenset', 'dict', 'deque', 'range', 'bytearray', 'memoryview',
                  'gen', 'iter')
SEP_INT_ONLY = ('range', 'bytearray', 'memoryview')       # containers of plain ints
SEP_MUTABLE = ('list', 'set', 'dict', 'deque', 'bytearray')


def sep_container_ok(sc, codes):
    """can a container of kind `sc` hold exactly these separator codes?"""
    if sc in ('bytearray', 'memoryview'):
        return all(c >= 1 and tag(c) == 0 and val(c) < 256 for c in codes)
    if sc == 'range':
        return is_run(codes)
    return True


def mk_sep_container(sc, objs):
    if sc == 'list':
        return list(objs)
    if sc == 'tuple':
        return tuple(objs)
    if sc == 'set':
        return set(objs)
    if sc == 'frozenset':
        return frozenset(objs)
    if sc == 'dict':
        return {o: None for o in objs}
    if sc == 'deque':
        return collections.deque(objs)
    if sc == 'range':
        return range(objs[0], objs[0] + len(objs)) if objs else range(0)
    if sc == 'bytearray':
        return bytearray(objs)
    if sc == 'memoryview':
        return memoryview(bytes(objs))
    if sc == 'gen':
        return (o for o in objs)
    if sc == 'iter':
        return iter(objs)
    raise ValueError(sc)


def sample_objects():
    """one object of every kind a caller may pass as `sep` (for the generated is_scalar / is_collection table)"""
    return [('str', 'ab'), ('bytes', b'ab'), ('list', [1, 2]), ('tuple', (1, 2)), ('set', {1, 2}),
            ('frozenset', frozenset((1, 2))), ('dict', {1: None}), ('deque', collections.deque([1])),
            ('range', range(2)), ('bytearray', bytearray(b'ab')), ('memoryview', memoryview(b'ab')),
            ('gen', (x for x in (1, 2))), ('iter', iter([1, 2]))]


def flatten(ll):
    return [x for l in ll for x in l]


ATTR_KEYS = ('real', 'imag', 'den', 'nope')


def key_kind(case, fn):
    """round 3b: the KIND of the Python object the harness passes as `key` to `fn` (unique / redundant / bucketize;
    partition hands its key to bucketize) - the model computes the branch of fn's key dispatch from it"""
    name = case['key']
    if name in ATTR_KEYS:
        return 'str'
    if fn == 'bucketize':
        if case.get('dflt') and name == 'bool':
            return 'class'                       # the default: the class `bool`
        return case.get('kc') or 'lambda'        # the identity key is passed as a callable too
    if name == 'id':
        return 'none'
    return case.get('kc') or 'lambda'


def key_probe_objects():
    """one object of every kind a caller may pass as `key` (for the generated key-dispatch table); the callables
    compute x % 2, the attribute is `denominator` (1 for every int), the list holds per-item keys"""
    def f(x):
        return x % 2
    return [('none', None), ('lambda', f), ('partial', as_callable_kind(f, 'partial')),
            ('object', as_callable_kind(f, 'object')), ('method', as_callable_kind(f, 'method')),
            ('class', as_callable_kind(f, 'class', True)), ('falsy', as_callable_kind(f, 'falsy')),
            ('str', 'denominator'), ('list', [7, 7, 8]), ('int', 3)]


def probe_key_branch(iu, fn, obj):
    """which branch of fn's key dispatch the live function takes for this key object, observed on the items
    1, 2, 3 (identity: three keys; call: keys 1, 0, 1; attr: one key; perItem: keys 7, 7, 8)"""
    src = [1, 2, 3]
    try:
        with time_limit(10):
            if fn == 'unique':
                r = list(iu.unique_iter(src, obj))
                table = {(1, 2, 3): 'identity', (1, 2): 'call', (1,): 'attr'}
                return table.get(tuple(r), 'other')
            if fn == 'redundant':
                r = iu.redundant(src, obj)
                table = {(): 'identity', (3,): 'call', (2,): 'attr'}
                return table.get(tuple(r), 'other')
            r = iu.bucketize(src, obj)
            shape = sorted((int(k), tuple(v)) for k, v in r.items())
            table = {((1, (1,)), (2, (2,)), (3, (3,))): 'identity', ((0, (2,)), (1, (1, 3))): 'call',
                     ((1, (1, 2, 3)),): 'attr', ((7, (1, 2)), (8, (3,))): 'perItem'}
            return table.get(tuple(shape), 'other')
    except TypeError:
        return 'typeError'
    except Exception as e:
        return 'raises' + exc_name(e)


def is_subsequence(small, big):
    it = iter(big)
    return all(any(x == y for y in it) for x in small)


class C09(Property):
    PID = 'C09'
    QUICK_BUDGET_S = 40
    THOROUGH_BUDGET_S = 600
    RULE = ('a case is one call: op (chunked, windowed, pairwise, split, l/r/strip, unique, redundant, bucketize, '
            'partition, chunk_ranges; plus pysplit/pystrip = the Lean spec of str.split/strip against CPython), the '
            'input kind (list, tuple, one-shot iterator, generator, str, bytes, bytearray, deque, range), the items '
            'and all parameters; numeric arguments may be passed as float (x.0, x.5) or bool, arguments may be left '
            'at their defaults / passed by keyword, and the call may be repeated on the same input object (results '
            'must agree, a mutable input must be left unchanged); the list-returning and the *_iter form are both '
            'run. First small adversarial families: every input kind x lengths 0..4 x sizes x fills x argument '
            'aliases for chunked/windowed/pairwise; all lists up to 3 over {None, 0, False, 2} x separators None / 0 / '
            'False / 0.0 / empty and one-element collections / callables / str separators x maxsplit for split and '
            'strip; all lists up to 3 over {None, 0, 0.0, True, 1} x every key kind (identity, callable, attribute '
            'with fallback, key list, default) for unique/redundant/bucketize/partition; the separators of split '
            'held in every kind of iterable (list, tuple, set, frozenset, dict keys, deque, range, bytearray, '
            'memoryview, generator, iterator) and a bytes object as separator; small chunk_ranges with '
            'float/bool arguments and defaults; chunk_ranges and chunk sizes at huge magnitudes near chunk '
            'boundaries. Then exhaustive: all lists up to length 6 (7 thorough) over {a, b, sep} for split/strip '
            'with every separator kind and maxsplit -1..5; lengths 0..8 x size -1..9 x count x fill for '
            'chunked/windowed; all lists up to 5 over 4 aliasing items for unique/redundant/bucketize/partition; '
            'all chunk_ranges parameters up to 13/7/9; then seeded random larger cases with 1/1.0/True aliases. '
            'Round 3b: lists of whole-string items (words; a str separator / strip value is one item value), a few '
            'long inputs (63 .. 2049 items) per helper, callable objects whose truth value is False as key / sep / '
            'transform / filter; a call with INVALID parameters is outside the domain (no model line, the oracle '
            'only rejects a hang, a changed input and a list form differing from the *_iter form). '
            'Non-trivial = valid parameters and an output with at least two groups/chunks/windows/ranges, or '
            'something actually stripped / deduplicated; distinct = distinct (op, kind, items, parameters).')
    ASSUMPTIONS = [
        'items are hashable and == is an equivalence consistent with hash (1, 1.0, True are one key); no NaN',
        'inputs are finite; infinite iterators are outside the property',
        'key / value_transform / key_filter callables are pure and drawn from a table both sides can evaluate',
        'chunk_ranges with overlap_size >= chunk_size (zero or negative step) is outside the model and not judged',
        'windowed size 0, non-positive chunk sizes, negative counts / maxsplit, a float count (today rejected by '
        'itertools.islice), a float window size (today rejected by itertools.tee), a str separator of a str input '
        'that is not a single character, a bytes object as separator, invalid chunk_ranges numbers and a key list '
        'of the wrong length are "invalid parameters": the statement quantifies over valid parameters, so nothing '
        'is demanded and nothing is compared there (which exception, raised when, or whether a later version '
        'accepts the call is left open)',
        'numeric arguments are ints or bools (True / False as 1 / 0); a float where an integer is expected (x.0, x.5: '
        'today truncated by int() or rejected by islice / tee) is an invalid parameter in the above sense (round 3b); '
        'chunk sizes above sys.maxsize (rejected by itertools.islice) are not generated',
    ]
    CORRESPONDENCE_NAME = 'C09.Driver (iterutils helper models) vs boltons.iterutils functions'

    # ------------------------------------------------------------------ translator hook
    def regen(self):
        """Generated/C09_SepKinds.lean: what the CURRENT boltons.iterutils answers about one object of every
        kind a caller may pass as `sep` - callable(obj) (CPython), is_iterable / is_scalar / is_collection (boltons:
        the functions split_iter's dispatch rests on).  Props.lean proves (by evaluation of this table) that the
        answers are the ones the model's dispatch (`SepKind.facts`, `isScalar`, `isCollection`) uses."""
        from boltons import iterutils as iu
        rows = []
        for name, obj in sample_objects():
            rows.append('  ("%s", %s, %s, %s, %s)' % (name, *('true' if b else 'false' for b in (
                callable(obj), bool(iu.is_iterable(obj)), bool(iu.is_scalar(obj)), bool(iu.is_collection(obj))))))
        plain = []
        for name, obj in (('None', None), ('int', 3), ('float', 2.5), ('bool', True), ('object', object())):
            plain.append('  ("%s", %s, %s, %s, %s)' % (name, *('true' if b else 'false' for b in (
                callable(obj), bool(iu.is_iterable(obj)), bool(iu.is_scalar(obj)), bool(iu.is_collection(obj))))))
        import inspect
        default_rows = []
        for fname in ('chunked', 'chunk_ranges', 'windowed', 'windowed_iter', 'pairwise', 'pairwise_iter', 'split',
                      'split_iter', 'lstrip', 'lstrip_iter', 'rstrip', 'rstrip_iter', 'strip', 'strip_iter',
                      'unique', 'unique_iter', 'redundant', 'bucketize', 'partition'):
            try:
                params = inspect.signature(getattr(iu, fname)).parameters.values()
            except Exception:
                default_rows.append('  ("%s", "?", "?")' % fname)
                continue
            for prm in params:
                if prm.default is inspect.Parameter.empty:
                    continue
                d = prm.default
                if d is None or d is True or d is False or type(d) is int:
                    text_d = repr(d)
                elif d is bool:
                    text_d = 'bool'
                elif d is getattr(iu, '_UNSET', object()):
                    text_d = '_UNSET'
                else:
                    text_d = 'other:' + type(d).__name__
                default_rows.append('  ("%s", "%s", "%s")' % (fname, prm.name, text_d))
        chunk_rows = []
        for kind in KINDS3:
            try:
                ch = list(iu.chunked_iter(mk_src([4, 7, 10], kind), 2))
                names = sorted({type(c).__name__ for c in ch})
                tname = names[0] if len(names) == 1 else 'mixed'
            except Exception as e:      # the table then disagrees with the model and the theorem names it
                tname = 'raises'
            chunk_rows.append('  ("%s", "%s")' % (kind, tname))
        key_rows = []
        for fn in ('unique', 'redundant', 'bucketize'):
            for kname, obj in key_probe_objects():
                if fn == 'redundant' and kname == 'falsy' and self.falsy_key_defect_known():
                    continue      # the region of the known finding C09-redundant-falsy-key (row back once fixed)
                key_rows.append('  ("%s", "%s", "%s")' % (fn, kname, probe_key_branch(iu, fn, obj)))
        text = ('/- GENERATED by harness/bv/props/c09.py (regen) from the live boltons.iterutils - do not edit.\n'
                '   One row per kind of object: (kind, callable(obj), is_iterable(obj), is_scalar(obj),\n'
                '   is_collection(obj)) as answered by the current source for a sample object of that kind. -/\n'
                'namespace C09.Generated\n\n'
                '/-- strings and iterables that may hold separators -/\n'
                'def sepKindTable : List (String × Bool × Bool × Bool × Bool) := [\n%s]\n\n'
                '/-- objects that hold nothing: `None` and item values -/\n'
                'def plainTable : List (String × Bool × Bool × Bool × Bool) := [\n%s]\n\n'
                '/-- (function, parameter, default value) of every optional parameter, from the live signatures -/\n'
                'def defaultsTable : List (String × String × String) := [\n%s]\n\n'
                '/-- (input kind, type of the chunks `chunked_iter` yields for an input of that kind) -/\n'
                'def chunkTypeTable : List (String × String) := [\n%s]\n\n'
                '/-- (function, kind of the object passed as `key`, branch of the key dispatch the live function takes:\n'
                '    observed on the items 1, 2, 3 with callables computing x %% 2, the attribute `denominator` and the\n'
                '    key list [7, 7, 8]) -/\n'
                'def keyKindTable : List (String × String × String) := [\n%s]\n\n'
                'end C09.Generated\n') % (',\n'.join(rows), ',\n'.join(plain), ',\n'.join(default_rows),
                                          ',\n'.join(chunk_rows), ',\n'.join(key_rows))
        return {'C09_SepKinds.lean': text}

    # ------------------------------------------------------------------ generation
    def cases(self, budget_s):
        rng = self.rng
        th = self.thorough
        # round 2: small, diverse, adversarial families first (a defect should surface within seconds), the big
        # exhaustive scopes after them, seeded random last
        yield from self.gen_small()
        yield from self.gen_words()
        yield from self.gen_huge()
        yield from self.gen_big()
        yield from self.gen_group(th)
        yield from self.gen_ranges(th)
        yield from self.gen_chunk_window(th)
        yield from self.gen_split_strip(8 if th else 7)
        yield from self.gen_spec(7 if th else 6)
        n_rand = 600000 if th else 40000
        for _ in range(n_rand):
            yield self.random_case(rng, big=rng.random() < (0.2 if th else 0.05))

    def deep_cases(self, budget_s):
        """finite (about a minute): wider exhaustive scopes, then random cases with a larger share of big ones"""
        rng = self.rng
        yield from self.gen_small()
        yield from self.gen_words()
        yield from self.gen_huge()
        yield from self.gen_big()
        yield from self.gen_group(True)
        yield from self.gen_ranges(True)
        yield from self.gen_chunk_window(True)
        yield from self.gen_split_strip(7)
        for _ in range(100000):
            yield self.random_case(rng, big=rng.random() < 0.3)

    def gen_small(self):
        """round 2: tiny scopes over the unusual-but-legal corners: every input kind (bytearray, deque, range
        too), None / 0 / 0.0 / False / True items and separators, empty separator collections, str separators,
        numeric arguments given as float / bool, arguments left at their defaults or passed by keyword, and
        calls repeated on the same input object"""
        # -- chunked / windowed / pairwise
        for kind in KINDS3:
            ik = ikind(kind)
            for n in range(0, 5):
                xs = [1 + 3 * i for i in range(n)]
                for fill in (None, 0, 13):
                    if fill == 0 and ik != 'list':
                        continue
                    for size in (1, 2, 3, 0):
                        for pa in (None, 'f', 'h', 'b', 'g'):
                            case = {'op': 'chunked', 'kind': kind, 'xs': xs, 'size': size, 'count': None, 'fill': fill}
                            if pa:
                                case['pa'] = {'size': pa}
                                if palias(case, 'size') is None:
                                    continue
                            if kind in REITERABLE:
                                case['twice'] = True
                            yield case
                        for count, cpa, dflt in ((1, None, False), (2, None, True), (1, 'b', False), (0, 'b', False),
                                                 (1, 'f', False)):
                            case = {'op': 'chunked', 'kind': kind, 'xs': xs, 'size': size, 'count': count, 'fill': fill}
                            if cpa:
                                case['pa'] = {'count': cpa}
                            if dflt:
                                case['dflt'] = True
                            yield case
                    for size, pa in ((1, None), (2, None), (3, None), (4, None), (5, None), (1, 'b'), (2, 'f'), (0, 'b')):
                        case = {'op': 'windowed', 'kind': kind, 'xs': xs, 'size': size, 'fill': fill}
                        if pa:
                            case['pa'] = {'size': pa}
                        if kind in REITERABLE:
                            case['twice'] = True
                        yield case
                    yield {'op': 'pairwise', 'kind': kind, 'xs': xs, 'fill': fill}
        # -- split: falsy separators and items, empty collections, callables; maxsplit as float / bool
        syms = (0, 1, 3, 7)           # None, 0, False, 2
        seps = (['n'], ['v', 1], ['v', 3], ['v', 2], ['s', []], ['s', [1]], ['s', [0]], ['s', [0, 7]],
                ['c', [1]], ['c', []])
        kinds = ('list', 'tuple', 'iter', 'gen', 'deque')
        i = 0
        for n in range(0, 4):
            for xs in itertools.product(syms, repeat=n):
                for sep in seps:
                    for ms in (None, 0, 1, 2):
                        i += 1
                        case = {'op': 'split', 'kind': kinds[i % 5], 'xs': list(xs), 'sep': list(sep), 'ms': ms}
                        if sep[0] == 'c':
                            case['kc'] = CALLABLE_KINDS[i % 6]
                        if ms is not None:
                            a = (None, 'f', 'h', 'b', None, 'g', None)[i % 7]
                            if a:
                                case['pa'] = {'ms': a}
                        elif sep[0] == 'n' and i % 2:
                            case['dflt'] = True
                        if kinds[i % 5] in REITERABLE and i % 3 == 0:
                            case['twice'] = True
                        yield case
        for n in range(0, 4):
            for xs in itertools.product((4, 7, 10), repeat=n):
                for sep in (['t', []], ['t', [4]], ['t', [4, 7]], ['t', [7, 4, 7]], ['v', 4], ['n']):
                    for ms in (None, 1):
                        yield {'op': 'split', 'kind': 'str', 'xs': list(xs), 'sep': sep, 'ms': ms}
            for xs in itertools.product((4, 7), repeat=n):
                for kind in ('bytes', 'bytearray', 'range'):
                    if kind == 'range' and not is_run(list(xs)):
                        continue
                    for ms in (None, 1):
                        yield {'op': 'split', 'kind': kind, 'xs': list(xs), 'sep': ['v', 4], 'ms': ms}
        # -- round 3: the separators held in every kind of iterable (list, tuple, set, frozenset, dict keys, deque,
        #    range, bytearray, memoryview, generator, one-shot iterator), and a bytes object as separator
        ikinds = ('list', 'bytes', 'iter', 'bytearray', 'tuple', 'deque')
        i = 0
        for sc in SEP_CONTAINERS:
            for n in range(0, 4):
                for xs in itertools.product((4, 7, 10), repeat=n):
                    for codes in ([], [4], [4, 7], [7, 4], [4, 7, 10], [10]):
                        if not sep_container_ok(sc, codes):
                            continue
                        i += 1
                        ms = (None, 1, None, 2, 0)[i % 5]
                        case = {'op': 'split', 'kind': ikinds[i % 6], 'xs': list(xs), 'sep': ['s', codes], 'ms': ms,
                                'sc': sc}
                        if ikinds[i % 6] in REITERABLE and i % 4 == 0:
                            case['twice'] = True
                        yield case
            if sc in SEP_INT_ONLY:
                continue
            for n in range(0, 4):
                for xs in itertools.product(syms, repeat=n):
                    for codes in ([0], [0, 7], [1, 3], [2], [3, 0, 1]):
                        i += 1
                        yield {'op': 'split', 'kind': kinds[i % 5], 'xs': list(xs), 'sep': ['s', codes],
                               'ms': (None, 1, None, 2)[i % 4], 'sc': sc}
            for xs in itertools.product((4, 7), repeat=3):
                yield {'op': 'split', 'kind': 'str', 'xs': list(xs), 'sep': ['s', [4]], 'ms': None, 'sc': sc}
        for n in range(0, 4):
            for xs in itertools.product((4, 7), repeat=n):
                for codes in ([], [4], [4, 7]):
                    for kind in ('bytes', 'list', 'bytearray', 'str'):
                        yield {'op': 'split', 'kind': kind, 'xs': list(xs), 'sep': ['y', codes], 'ms': None}
        # -- round 3: every helper on the additional input kinds (dict keys, memoryview, array, a bare iterable,
        #    an old-style __getitem__ sequence)
        for kind in ('dict', 'memoryview', 'array', 'iterable', 'getitem'):
            for n in range(0, 5):
                for xs in ([4 + 3 * j for j in range(n)], [(4, 7, 4, 10, 4)[j] for j in range(n)],
                           [(7, 4, 4, 7, 4)[j] for j in range(n)]):
                    if not kind_ok(kind, xs):
                        continue
                    tw = {'twice': True}
                    for sep in (['v', 4], ['s', [4, 7]], ['c', [4]], ['n']):
                        for ms in (None, 1):
                            yield dict({'op': 'split', 'kind': kind, 'xs': xs, 'sep': sep, 'ms': ms}, **tw)
                    for op in ('lstrip', 'rstrip', 'strip'):
                        yield dict({'op': op, 'kind': kind, 'xs': xs, 'v': 4}, **tw)
                        yield dict({'op': op, 'kind': kind, 'xs': xs, 'v': 7}, **tw)
                    for key in ('id', 'mod2', 'const'):
                        yield dict({'op': 'unique', 'kind': kind, 'xs': xs, 'key': key}, **tw)
                        yield dict({'op': 'redundant', 'kind': kind, 'xs': xs, 'key': key, 'groups': n % 2 == 0}, **tw)
                        yield dict({'op': 'bucketize', 'kind': kind, 'xs': xs, 'key': key, 'vt': 'id', 'kf': None}, **tw)
                        yield {'op': 'partition', 'kind': kind, 'xs': xs, 'key': key}
        # -- strip: None / 0 / False / 0.0 as strip value
        i = 0
        for n in range(0, 4):
            for xs in itertools.product(syms, repeat=n):
                for v in (0, 1, 3, 2):
                    for op in ('lstrip', 'rstrip', 'strip'):
                        i += 1
                        case = {'op': op, 'kind': kinds[i % 5], 'xs': list(xs), 'v': v}
                        if kinds[i % 5] in REITERABLE and i % 3 == 0:
                            case['twice'] = True
                        yield case
            for xs in itertools.product((4, 7), repeat=n):
                for op in ('lstrip', 'rstrip', 'strip'):
                    for kind in ('bytes', 'bytearray', 'str'):
                        yield {'op': op, 'kind': kind, 'xs': list(xs), 'v': 4}
        # -- unique / redundant / bucketize / partition: None and the 0 / 0.0 / True / 1 aliases, every key kind
        gsyms = (0, 1, 2, 6, 4)       # None, 0, 0.0, True, 1
        gkinds = ('list', 'tuple', 'iter', 'gen', 'deque')
        i = 0
        for n in range(0, 4):
            for t in itertools.product(gsyms, repeat=n):
                xs = list(t)
                i += 1
                kind = gkinds[i % 5]
                tw = {'twice': True} if kind in REITERABLE else {}
                keys = ['id', 'nope', 'real', 'den', 'imag', 'bool', 'const']
                if 0 not in xs:
                    keys += ['mod2', 'div2']
                for key in keys:
                    if key in ('bool', 'const', 'mod2', 'div2'):
                        # round 3: the key as every kind of callable (function, partial, __call__ object, bound method,
                        # builtin-based)
                        kc = CALLABLE_KINDS[i % 5]
                        yield {'op': 'unique', 'kind': kind, 'xs': xs, 'key': key, 'kc': kc}
                        yield {'op': 'redundant', 'kind': kind, 'xs': xs, 'key': key, 'groups': bool(i % 2), 'kc': kc}
                        yield {'op': 'bucketize', 'kind': kind, 'xs': xs, 'key': key, 'vt': ('id', 'sq')[0 not in xs and i % 2],
                               'kf': (None, 1)[i % 2], 'kc': kc}
                        yield {'op': 'partition', 'kind': kind, 'xs': xs, 'key': key, 'kc': kc}
                        if i % 3 == 0:
                            # round 3b: the same through a callable object whose truth value is False
                            yield {'op': 'unique', 'kind': kind, 'xs': xs, 'key': key, 'kc': 'falsy'}
                            yield {'op': 'redundant', 'kind': kind, 'xs': xs, 'key': key, 'groups': bool(i % 2),
                                   'kc': 'falsy'}
                            yield {'op': 'bucketize', 'kind': kind, 'xs': xs, 'key': key, 'vt': 'id',
                                   'kf': (None, 1)[i % 2], 'kc': 'falsy'}
                            yield {'op': 'partition', 'kind': kind, 'xs': xs, 'key': key, 'kc': 'falsy'}
                    yield dict({'op': 'unique', 'kind': kind, 'xs': xs, 'key': key}, **tw)
                    yield dict({'op': 'redundant', 'kind': kind, 'xs': xs, 'key': key, 'groups': False}, **tw)
                    yield {'op': 'redundant', 'kind': kind, 'xs': xs, 'key': key, 'groups': False, 'dflt': True}
                    yield dict({'op': 'redundant', 'kind': kind, 'xs': xs, 'key': key, 'groups': True}, **tw)
                    yield dict({'op': 'bucketize', 'kind': kind, 'xs': xs, 'key': key, 'vt': 'id',
                                'kf': (None, 0, 1, 2)[i % 4]}, **tw)
                    yield {'op': 'partition', 'kind': kind, 'xs': xs, 'key': key}
                yield {'op': 'bucketize', 'kind': kind, 'xs': xs, 'key': 'bool', 'vt': 'id', 'kf': None, 'dflt': True}
                yield {'op': 'partition', 'kind': kind, 'xs': xs, 'key': 'bool', 'dflt': True}
                if kind in ('list', 'tuple'):
                    for ks in ([gsyms[(i + j) % 5] for j in range(n)], [gsyms[(i * j) % 5] for j in range(n)],
                               [0] * (n + 1)):
                        yield dict({'op': 'bucketize', 'kind': kind, 'xs': xs, 'key': ['L', ks], 'vt': 'id',
                                    'kf': (None, 0)[i % 2]}, **tw)
        for n in range(0, 5):
            run = [1 + 3 * j for j in range(n)]
            for kind in ('range', 'bytes', 'bytearray'):
                for key in ('id', 'mod2', 'div2', 'bool', 'const'):
                    yield {'op': 'unique', 'kind': kind, 'xs': run, 'key': key, 'twice': True}
                    yield {'op': 'redundant', 'kind': kind, 'xs': run, 'key': key, 'groups': n % 2 == 0}
                    yield {'op': 'bucketize', 'kind': kind, 'xs': run, 'key': key, 'vt': 'sq', 'kf': None}
                    yield {'op': 'partition', 'kind': kind, 'xs': run, 'key': key}
        # -- chunk_ranges: small, arguments as float / bool, defaults / keywords
        i = 0
        for size in range(0, 7):
            for cs in range(1, 4):
                for off in range(0, 4):
                    for ov in range(0, cs):
                        for al in (False, True):
                            i += 1
                            base = {'op': 'chunk_ranges', 'size': size, 'cs': cs, 'off': off, 'ov': ov, 'align': al}
                            yield dict(base, dflt=True)
                            name = ('size', 'cs', 'off', 'ov')[i % 4]
                            a = ('f', 'h', 'b', 'g')[(i // 4) % 4]
                            case = dict(base, pa={name: a})
                            if palias(case, name):
                                yield case
                            yield dict(base, pa={'size': 'h', 'cs': 'f', 'off': 'h', 'ov': 'f'})

    def gen_words(self):
        """round 3b: lists of whole-string items ('aa', 'bb', None ...), as in the library's docstring examples
        (`split(['hi', 'hello', None, ...])`, `lstrip(['Foo', 'Bar'], 'Foo')`): a str separator / strip value is
        ONE item value here (is_scalar), a collection of strings is a collection, the keys are the strings"""
        syms = (0, 1, 4, 7)           # None, 'aa', 'bb', 'cc'
        i = 0
        for n in range(0, 5):
            for xs in itertools.product(syms, repeat=n):
                if n == 4 and xs[0] != 1:
                    continue
                xs = list(xs)
                i += 1
                tw = {'twice': True} if i % 3 == 0 else {}
                for j, sep in enumerate((['n'], ['v', 1], ['v', 4], ['s', [1]], ['s', [1, 4]], ['s', [0, 7]],
                                         ['c', [1]])):
                    ms = (None, 1, None, 2, 0)[(i + j) % 5]
                    case = dict({'op': 'split', 'kind': 'words', 'xs': xs, 'sep': sep, 'ms': ms}, **tw)
                    if sep[0] == 's' and i % 2:
                        case['sc'] = ('list', 'tuple', 'set', 'frozenset', 'dict', 'deque', 'gen', 'iter')[i % 8]
                    yield case
                for op in ('lstrip', 'rstrip', 'strip'):
                    for v in (0, 1, 4):
                        yield dict({'op': op, 'kind': 'words', 'xs': xs, 'v': v}, **tw)
                for key in WORD_KEYS:
                    yield dict({'op': 'unique', 'kind': 'words', 'xs': xs, 'key': key}, **tw)
                    yield dict({'op': 'redundant', 'kind': 'words', 'xs': xs, 'key': key, 'groups': bool(i % 2)}, **tw)
                    yield dict({'op': 'bucketize', 'kind': 'words', 'xs': xs, 'key': key, 'vt': 'id',
                                'kf': (None, 1, 2, 0)[i % 4]}, **tw)
                yield {'op': 'partition', 'kind': 'words', 'xs': xs, 'key': 'const'}
                if n <= 3:
                    for size in (1, 2, 3):
                        for fill in (None, 0, 13):
                            yield dict({'op': 'chunked', 'kind': 'words', 'xs': xs, 'size': size, 'count': None,
                                        'fill': fill}, **tw)
                            yield dict({'op': 'windowed', 'kind': 'words', 'xs': xs, 'size': size, 'fill': fill}, **tw)

    def gen_big(self):
        """round 3b: a few LONG inputs per helper (lengths around powers of two and 1000): a shortcut that is
        only taken above a size threshold is outside every small scope"""
        rng = self.rng
        for n in (63, 64, 65, 127, 129, 255, 257, 511, 1023, 1025, 2049):
            xs = [1 + 3 * (i % 97) for i in range(n)]
            rs = [1 + 3 * rng.randrange(7) for _ in range(n)]
            for kind in ('list', 'iter', 'bytes', 'str', 'tuple'):
                if n > 300 and kind in ('bytes', 'tuple'):
                    continue
                for size in (1, 2, 7, n - 1, n, n + 1, n // 2):
                    if n > 300 and size == 1:
                        continue
                    yield {'op': 'chunked', 'kind': kind, 'xs': xs, 'size': size, 'count': None,
                           'fill': None if size % 2 else 13}
                yield {'op': 'chunked', 'kind': kind, 'xs': xs, 'size': 3, 'count': n // 5, 'fill': None}
                for size in (1, 2, 5, n) if n <= 300 else (2, 3):
                    yield {'op': 'windowed', 'kind': kind, 'xs': xs, 'size': size, 'fill': None}
                    yield {'op': 'windowed', 'kind': kind, 'xs': xs, 'size': size, 'fill': 13}
                yield {'op': 'pairwise', 'kind': kind, 'xs': xs, 'fill': None}
                for sep in (['v', 1], ['s', [1, 4]], ['c', [4]]):
                    yield {'op': 'split', 'kind': kind, 'xs': rs, 'sep': sep, 'ms': None}
                    yield {'op': 'split', 'kind': kind, 'xs': rs, 'sep': sep, 'ms': n // 3}
                for op in ('lstrip', 'rstrip', 'strip'):
                    pad = [4] * (n // 3)
                    yield {'op': op, 'kind': kind, 'xs': pad + rs + pad, 'v': 4}
                if kind != 'str':
                    for key in ('id', 'mod3', 'div2'):
                        yield {'op': 'unique', 'kind': kind, 'xs': rs if n > 300 else xs, 'key': key}
                        yield {'op': 'redundant', 'kind': kind, 'xs': rs, 'key': key, 'groups': n % 2 == 0}
                        yield {'op': 'bucketize', 'kind': kind, 'xs': rs, 'key': key, 'vt': 'id', 'kf': None}
                    yield {'op': 'partition', 'kind': kind, 'xs': rs, 'key': 'mod2'}
            none_rs = [0 if c == 1 else c for c in rs]
            yield {'op': 'split', 'kind': 'list', 'xs': none_rs, 'sep': ['n'], 'ms': None}
            yield {'op': 'split', 'kind': 'gen', 'xs': none_rs, 'sep': ['n'], 'ms': n // 4}

    def gen_huge(self):
        """round 2: boundary arithmetic at huge magnitudes (exact integers; a float shortcut goes wrong here)"""
        for step in (10 ** 17, 2 ** 60 + 1, 3 * 10 ** 18 + 7):
            for ov in (0, 1, 12345):
                cs = step + ov
                for q in (1, 2, 10):
                    for d in (-1, 0, 1):
                        for off in (0, 5, 10 ** 18 + 1):
                            for al in (False, True):
                                yield {'op': 'chunk_ranges', 'size': q * step + ov + d, 'cs': cs, 'off': off, 'ov': ov,
                                       'align': al}
        for kind in ('list', 'iter', 'str', 'bytes', 'range', 'deque'):
            for size in (2 ** 31 - 1, 2 ** 31, sys.maxsize):
                for n in (0, 1, 3):
                    xs = [1 + 3 * i for i in range(n)]
                    yield {'op': 'chunked', 'kind': kind, 'xs': xs, 'size': size, 'count': None, 'fill': None}
                    yield {'op': 'chunked', 'kind': kind, 'xs': xs, 'size': size, 'count': 2, 'fill': None,
                           'pa': {'size': 'f'} if size < 2 ** 53 else {}}

    def gen_chunk_window(self, th):
        maxn = 10 if th else 8
        for kind in KINDS:
            for n in range(0, maxn + 1):
                # distinct items so that any reordering / duplication / loss is visible
                xs = [1 + 3 * i for i in range(n)]
                for size in range(-1, maxn + 2):
                    for fill in (None, 0, 13):
                        if kind == 'str' and fill == 0:
                            continue        # ''.join needs a str fill
                        if kind == 'bytes' and fill == 0:
                            continue        # bytes() needs an int fill
                        for count in (None, 0, 1, 2, 3, -1):
                            yield {'op': 'chunked', 'kind': kind, 'xs': xs, 'size': size, 'count': count, 'fill': fill}
                        yield {'op': 'windowed', 'kind': kind, 'xs': xs, 'size': size, 'fill': fill}
                for fill in (None, 0, 13):
                    if fill == 0 and kind in ('str', 'bytes'):
                        continue
                    yield {'op': 'pairwise', 'kind': kind, 'xs': xs, 'fill': fill}
        # fill=None given explicitly (the value None, not "unset")
        for n in range(0, 6):
            xs = [4 + 3 * i for i in range(n)]
            for size in range(1, 5):
                yield {'op': 'chunked', 'kind': 'list', 'xs': xs, 'size': size, 'count': None, 'fill': 0}

    def gen_split_strip(self, maxlen):
        a, b = 4, 7
        for n in range(0, maxlen + 1):
            for t in itertools.product((0, 1, 2), repeat=n):
                for sep in (('n',), ('v', 10), ('s', [10]), ('c', [10])):
                    s = 0 if sep[0] == 'n' else 10
                    xs = [(s, a, b)[i] for i in t]
                    for ms in (None, 0, 1, 2, 3, 5, -1):
                        if ms is not None and ms > n + 1:
                            continue
                        yield {'op': 'split', 'kind': 'list' if n % 2 else 'iter', 'xs': xs, 'sep': list(sep), 'ms': ms}
                xs0 = [(0, a, b)[i] for i in t]
                xs1 = [(10, a, b)[i] for i in t]
                for op in ('lstrip', 'rstrip', 'strip'):
                    yield {'op': op, 'kind': 'list', 'xs': xs0, 'v': 0}
                    yield {'op': op, 'kind': 'iter' if n % 2 else 'str', 'xs': xs1, 'v': 10}

    def gen_group(self, th):
        items = (1, 2, 4, 6)       # 0, 0.0, 1, True(=1): two classes with aliases
        maxlen = 7 if th else 5
        for n in range(0, maxlen + 1):
            for t in itertools.product(items, repeat=n):
                xs = list(t)
                kind = KINDS[n % 4]
                for key in ('id', 'mod2', 'den'):
                    yield {'op': 'unique', 'kind': kind, 'xs': xs, 'key': key}
                    yield {'op': 'redundant', 'kind': kind, 'xs': xs, 'key': key, 'groups': n % 2 == 0}
                    yield {'op': 'redundant', 'kind': kind, 'xs': xs, 'key': key, 'groups': n % 2 == 1}
                yield {'op': 'bucketize', 'kind': kind, 'xs': xs, 'key': 'bool', 'vt': 'id', 'kf': None}
                yield {'op': 'bucketize', 'kind': kind, 'xs': xs, 'key': 'id', 'vt': 'sq', 'kf': None}
                yield {'op': 'bucketize', 'kind': kind, 'xs': xs, 'key': 'den', 'vt': 'id', 'kf': 2}
                yield {'op': 'partition', 'kind': kind, 'xs': xs, 'key': 'bool'}
                yield {'op': 'partition', 'kind': kind, 'xs': xs, 'key': 'id'}

    def gen_ranges(self, th):
        ms, mc, mo = (20, 8, 12) if th else (13, 7, 9)
        for size in range(0, ms + 1):
            for cs in range(1, mc + 1):
                for off in range(0, mo + 1):
                    for ov in range(0, cs):
                        for al in (False, True):
                            yield {'op': 'chunk_ranges', 'size': size, 'cs': cs, 'off': off, 'ov': ov, 'align': al}
        for bad in ((-1, 3, 0, 0), (4, 0, 0, 0), (4, -2, 0, 0), (4, 3, -1, 0), (4, 3, 0, -1), (4, 3, 0, 3), (4, 3, 0, 5)):
            for al in (False, True):
                yield {'op': 'chunk_ranges', 'size': bad[0], 'cs': bad[1], 'off': bad[2], 'ov': bad[3], 'align': al}

    def gen_spec(self, maxlen):
        """the Lean specs pySplit / pyStrip against CPython's own str.split / str.strip"""
        for n in range(0, maxlen + 1):
            for t in itertools.product((0, 1, 2), repeat=n):
                xs0 = [(0, 4, 7)[i] for i in t]
                xs1 = [(10, 4, 7)[i] for i in t]
                for ms in (None, 0, 1, 2, 4):
                    yield {'op': 'pysplit', 'xs': xs0, 'sep': ['n'], 'ms': ms}
                    yield {'op': 'pysplit', 'xs': xs1, 'sep': ['v', 10], 'ms': ms}
                for side in 'lrb':
                    yield {'op': 'pystrip', 'xs': xs1, 'v': 10, 'side': side}

    def random_items(self, rng, n, nclasses, none_ok=True, aliases=True):
        out = []
        for _ in range(n):
            if none_ok and rng.random() < 0.25:
                out.append(0)
                continue
            v = rng.randrange(nclasses)
            t = 0
            if aliases:
                r = rng.random()
                if r < 0.2:
                    t = 1
                elif r < 0.35 and v in (0, 1):
                    t = 2
            out.append(1 + 3 * v + t)
        return out

    def random_case(self, rng, big=False):
        op = rng.choice(['chunked', 'windowed', 'pairwise', 'split', 'split', 'lstrip', 'rstrip', 'strip', 'unique',
                         'redundant', 'bucketize', 'partition', 'chunk_ranges', 'chunk_ranges', 'pysplit', 'pystrip'])
        n = rng.randint(0, 60) if big else rng.randint(0, 14)
        if op in ('chunked', 'windowed', 'pairwise'):
            kind = rng.choice(KINDS3)
            if kind == 'dict':
                xs = [1 + 3 * v for v in rng.sample(range(max(n, 1) + 3), n)]
                fill = rng.choice([None, 0, rng.choice([1, 2, 4, 6, 13])])
            elif kind == 'range':
                a = rng.randrange(6)
                xs = [1 + 3 * (a + i) for i in range(n)]
                fill = rng.choice([None, 0, rng.choice([1, 2, 4, 6, 13])])
            elif ikind(kind) != 'list':
                xs = self.random_items(rng, n, 6, none_ok=False, aliases=False)
                fill = rng.choice([None, 1 + 3 * rng.randrange(6)])
            elif kind == 'words':
                xs = self.random_items(rng, n, 5, aliases=False)
                fill = rng.choice([None, 0, 1 + 3 * rng.randrange(6)])
            else:
                xs = self.random_items(rng, n, 5)
                fill = rng.choice([None, 0, rng.choice([1, 2, 4, 6, 13])])
            size = rng.choice([rng.randint(1, 5), rng.randint(1, max(1, n + 2)), rng.randint(-1, 3)])
            extra = {}
            if kind in REITERABLE and rng.random() < 0.15:
                extra['twice'] = True
            if op == 'chunked':
                case = {'op': op, 'kind': kind, 'xs': xs, 'size': size, 'fill': fill,
                        'count': rng.choice([None, None, rng.randint(0, 6), -1 if rng.random() < 0.1 else 2])}
                r = rng.random()
                if r < 0.15:
                    extra['pa'] = {'size': rng.choice('fhbg')}
                elif r < 0.2 and case['count'] is not None:
                    extra['pa'] = {'count': rng.choice('bbf')}
                elif r < 0.3:
                    extra['dflt'] = True
                return dict(case, **extra)
            if op == 'windowed':
                if rng.random() < 0.1:
                    extra['pa'] = {'size': rng.choice('bbf')}
                return dict({'op': op, 'kind': kind, 'xs': xs, 'size': size, 'fill': fill}, **extra)
            return dict({'op': op, 'kind': kind, 'xs': xs, 'fill': fill}, **extra)
        if op in ('split', 'pysplit'):
            sk = rng.choice('nnvvsc') if op == 'split' else rng.choice('nv')
            ncl = rng.choice([2, 3, 4])
            if op == 'pysplit':
                xs = self.random_items(rng, n, ncl, none_ok=(sk == 'n'), aliases=False)
                sep = ['n'] if sk == 'n' else ['v', 1 + 3 * rng.randrange(ncl)]
                return {'op': op, 'xs': xs, 'sep': sep, 'ms': rng.choice([None, rng.randint(0, 6)])}
            kind = rng.choice(KINDS[:4])
            xs = self.random_items(rng, n, ncl, none_ok=True)
            if sk == 'n':
                sep = ['n']
            elif sk == 'v':
                sep = ['v', rng.choice(self.random_items(rng, 3, ncl, none_ok=False))]
            else:
                sep = [sk, sorted(set(self.random_items(rng, rng.randint(0, 3), ncl)))]
            if sk == 'v' and rng.random() < 0.25:
                kind = 'str'
                xs = self.random_items(rng, n, ncl, none_ok=False, aliases=False)
                sep = ['v', 1 + 3 * rng.randrange(ncl)]
                if rng.random() < 0.3:
                    sep = ['t', self.random_items(rng, rng.choice([0, 1, 1, 2, 3]), ncl, none_ok=False, aliases=False)]
            elif rng.random() < 0.1:
                kind = 'deque'
            elif rng.random() < 0.15:
                # whole-string items: separators and items without the 1 / 1.0 / True aliases
                kind = 'words'
                xs = [c - tag(c) if c else 0 for c in xs]
                if sep[0] == 'v':
                    sep = ['v', sep[1] - tag(sep[1])]
                elif sep[0] in 's':
                    sep = ['s', sorted({c - tag(c) if c else 0 for c in sep[1]})]
            case = {'op': op, 'kind': kind, 'xs': xs, 'sep': sep,
                    'ms': rng.choice([None, None, rng.randint(0, 5), rng.randint(0, 2), -1 if rng.random() < 0.2 else 1])}
            if sep[0] == 's' and kind != 'str' and rng.random() < 0.5:
                sc = rng.choice(SEP_CONTAINERS)
                if sep_container_ok(sc, sep[1]) and not (kind == 'words' and sc in SEP_INT_ONLY):
                    case['sc'] = sc
            r = rng.random()
            if r < 0.15 and case['ms'] is not None:
                case['pa'] = {'ms': rng.choice('fhbg')}
            elif r < 0.3 and case['ms'] is None and sk == 'n':
                case['dflt'] = True
            if kind in REITERABLE and rng.random() < 0.1:
                case['twice'] = True
            return case
        if op in ('lstrip', 'rstrip', 'strip', 'pystrip'):
            ncl = rng.choice([1, 2, 3])
            if op == 'pystrip':
                xs = self.random_items(rng, n, ncl, none_ok=False, aliases=False)
                return {'op': op, 'xs': xs, 'v': 1 + 3 * rng.randrange(ncl), 'side': rng.choice('lrb')}
            kind = rng.choice(KINDS[:5] + ('deque', 'bytearray', 'bytes'))
            if ikind(kind) != 'list':
                xs = self.random_items(rng, n, ncl, none_ok=False, aliases=False)
                return {'op': op, 'kind': kind, 'xs': xs, 'v': 1 + 3 * rng.randrange(ncl)}
            xs = self.random_items(rng, n, ncl)
            return {'op': op, 'kind': kind, 'xs': xs, 'v': rng.choice([0, 0] + self.random_items(rng, 2, ncl, none_ok=False))}
        if op in ('unique', 'redundant', 'bucketize', 'partition'):
            kind = rng.choice(KINDS2)
            if kind == 'str' and op == 'partition':
                kind = 'list'          # characters are neither True nor False
            ncl = rng.choice([2, 3, 5, 8])
            if kind == 'range':
                a = rng.randrange(4)
                xs = [1 + 3 * (a + i) for i in range(n)]
                key = rng.choice(['id', 'mod2', 'mod3', 'div2', 'const', 'bool'])
            elif ikind(kind) != 'list':
                xs = self.random_items(rng, n, ncl, none_ok=False, aliases=False)
                key = 'id' if kind == 'str' else rng.choice(['id', 'mod2', 'mod3', 'div2', 'const', 'bool'])
            else:
                key = rng.choice(KEYS_NUM)
                none_ok = key in ('id', 'const', 'bool', 'real', 'imag', 'den', 'nope')
                xs = self.random_items(rng, n, ncl, none_ok=none_ok)
            kcx = {'kc': rng.choice(CALLABLE_KINDS)} if rng.random() < 0.3 else {}
            if op == 'unique':
                return dict({'op': op, 'kind': kind, 'xs': xs, 'key': key}, **kcx)
            if op == 'redundant':
                g = rng.random() < 0.5
                return dict({'op': op, 'kind': kind, 'xs': xs, 'key': key, 'groups': g},
                            **({'dflt': True} if not g and rng.random() < 0.3 else {}))
            if op == 'partition':
                return dict({'op': op, 'kind': kind, 'xs': xs, 'key': key},
                            **({'dflt': True} if key == 'bool' and rng.random() < 0.5 else {}))
            if rng.random() < 0.25 and kind in ('list', 'tuple'):
                keys = self.random_items(rng, n if rng.random() < 0.9 else n + 1, 3)
                key = ['L', keys]
            vt = 'sq' if (rng.random() < 0.3 and 0 not in xs and kind not in ('str',)) else 'id'
            kf = rng.choice([None, None, rng.randint(0, 3)])
            case = {'op': op, 'kind': kind, 'xs': xs, 'key': key, 'vt': vt, 'kf': kf}
            if key == 'bool' and rng.random() < 0.5:
                case['dflt'] = True
            if kind in REITERABLE and rng.random() < 0.1:
                case['twice'] = True
            return case
        # chunk_ranges
        cs = rng.randint(1, 40) if big else rng.randint(1, 9)
        ov = rng.randrange(cs)
        if rng.random() < 0.3:
            ov = max(0, cs - 1 - rng.randrange(2))       # overlap close to chunk_size
        case = {'op': 'chunk_ranges', 'size': rng.randint(0, 400 if big else 40), 'cs': cs,
                'off': rng.randint(0, 100 if big else 25), 'ov': ov, 'align': rng.random() < 0.5}
        r = rng.random()
        if r < 0.08:
            # huge magnitudes: a few chunks of astronomically large size, ends near a chunk boundary
            step = rng.choice([10 ** 17, 2 ** 60, 2 ** 64 + 1, 10 ** 30]) + rng.randrange(1000)
            ov = rng.choice([0, 1, rng.randrange(1000)])
            case.update(cs=step + ov, ov=ov, size=rng.randrange(1, 12) * step + ov + rng.choice([-1, 0, 1]),
                        off=rng.choice([0, rng.randrange(10 ** 6), step * rng.randrange(5) + rng.randrange(3)]))
        elif r < 0.25:
            case['pa'] = {name: rng.choice('fhbg') for name in ('size', 'cs', 'off', 'ov') if rng.random() < 0.5}
        elif r < 0.4:
            case['dflt'] = True
        return case

    # ------------------------------------------------------------------ model line
    def line(self, case):
        op = case['op']
        # round 3b: the statement quantifies over VALID parameters only.  What an invalid call does (which exception,
        # raised when, or whether a later version accepts it: a float `count`, a float window size, a non-positive
        # size, a negative count / maxsplit, a str / bytes separator that is no single item, mismatched key lists,
        # invalid chunk_ranges numbers) is left open by the statement, so such a case is outside the domain of the
        # correspondence as well: no model line, the oracle demands nothing (it still rejects a hang, a changed
        # input and a list form that differs from the *_iter form).
        if not self.valid(case):
            self.stats['outside-domain'] = self.stats.get('outside-domain', 0) + 1
            return None
        if op == 'redundant' and case.get('kc') == 'falsy' and self.falsy_key_defect_known():
            # the region of the known finding C09-redundant-falsy-key (the key is ignored): the model follows the
            # repaired code; oracle-only until the entry is `fixed`, compared again from then on
            return None
        if op == 'chunked':
            return 'chunkedk %s %s %s %s %s' % (case['kind'], ptok(case, 'size'), ptok(case, 'count'),
                                                opt(case['fill']), nats(case['xs']))
        if op == 'windowed':
            return 'windowed %s %s %s' % (ptok(case, 'size'), opt(case['fill']), nats(case['xs']))
        if op == 'pairwise':
            return 'pairwise %s %s' % (opt(case['fill']), nats(case['xs']))
        if op == 'split':
            return 'split %s %s %s' % (sep_token(case['sep'], case.get('sc')), ptok(case, 'ms'), nats(case['xs']))
        if op == 'pysplit':
            return '%s %s %s %s' % (op, sep_token(case['sep']), opt(case['ms']), nats(case['xs']))
        if op in ('lstrip', 'rstrip', 'strip'):
            return '%s %d %s' % (op, case['v'], nats(case['xs']))
        if op == 'pystrip':
            return 'pystrip %s %d %s' % (case['side'], case['v'], nats(case['xs']))
        if op in ('unique', 'partition'):
            return '%s %s@%s %s' % (op, case['key'], key_kind(case, 'unique' if op == 'unique' else 'bucketize'),
                                    nats(case['xs']))
        if op == 'redundant':
            return 'redundant %s@%s %d %s' % (case['key'], key_kind(case, 'redundant'), 1 if case['groups'] else 0,
                                              nats(case['xs']))
        if op == 'bucketize':
            k = case['key']
            ktok = '%s@%s' % (k, key_kind(case, 'bucketize')) if isinstance(k, str) else 'L' + nats(k[1])
            return 'bucketize %s %s %s %s' % (ktok, case['vt'], '-' if case['kf'] is None else 'ne%d' % case['kf'],
                                              nats(case['xs']))
        if op == 'chunk_ranges':
            if case['cs'] > 0 and case['ov'] >= case['cs']:
                return None          # zero / negative step: outside the model
            return 'chunk_ranges %s %s %s %s %d' % (ptok(case, 'size'), ptok(case, 'cs'), ptok(case, 'off'),
                                                    ptok(case, 'ov'), 1 if case['align'] else 0)
        raise ValueError(op)

    # ------------------------------------------------------------------ implementation
    def impl(self, case):
        op = case['op']
        self.stats[op] = self.stats.get(op, 0) + 1
        obs = {'r': self.call(case, False)}
        if 'kind' in case:
            k = 'kind:' + case['kind']
            self.stats[k] = self.stats.get(k, 0) + 1
        if 'exc' in obs['r']:
            k = 'exc:' + obs['r']['exc']
            self.stats[k] = self.stats.get(k, 0) + 1
        if op in ('chunked', 'windowed', 'pairwise', 'split', 'lstrip', 'rstrip', 'strip', 'unique') \
                and not (op == 'chunked' and case['count'] is not None):
            obs['ri'] = self.call(case, True)
        return obs

    def call(self, case, iter_form, limit_s=10):
        try:
            with time_limit(limit_s):
                return {'ok': self.call_raw(case, iter_form)}
        except CaseTimeout:
            if limit_s < 20 and not getattr(self, '_hang_confirmed', False):
                # round 3b: the limit is wall-clock time and the machine is shared - a stalled process is not a
                # hanging implementation.  The call is repeated once (the input object is rebuilt from the case) with
                # twice the limit; a real endless loop times out again (and from then on no call is repeated).
                self.stats['timeout-retried'] = self.stats.get('timeout-retried', 0) + 1
                return self.call(case, iter_form, limit_s=20)
            self._hang_confirmed = True
            return {'exc': 'CaseTimeout'}
        except BadValue as e:
            return {'exc': 'BadValue', 'msg': str(e)}
        except BadCase:
            raise
        except Exception as e:
            return {'exc': exc_name(e)}

    def call_raw(self, case, it):
        from boltons import iterutils as iu
        op = case['op']
        if op == 'pysplit':
            return self.cpython_split(case)
        if op == 'pystrip':
            s = ''.join(chr(97 + val(c)) for c in case['xs'])
            ch = chr(97 + val(case['v']))
            r = {'l': s.lstrip, 'r': s.rstrip, 'b': s.strip}[case['side']](ch)
            return encl(r)
        if op == 'chunk_ranges':
            size, cs, off, ov = (pobj(case, n) for n in ('size', 'cs', 'off', 'ov'))
            if case.get('dflt'):
                # by keyword, arguments that have their default value left out
                kw = {'chunk_size': cs, 'input_size': size}
                if off != 0 or type(off) is not int:
                    kw['input_offset'] = off
                if ov != 0 or type(ov) is not int:
                    kw['overlap_size'] = ov
                if case['align']:
                    kw['align'] = True
                r = list(iu.chunk_ranges(**kw))
            else:
                r = list(iu.chunk_ranges(size, cs, off, ov, case['align']))
            # "ranges": pairs of ints (today tuples; the statement does not fix the pair type)
            if not all(isinstance(t, (tuple, list)) and len(t) == 2 and type(t[0]) is int and type(t[1]) is int
                       for t in r):
                raise BadValue('chunk_ranges yielded %r' % (r[:3],))
            return [[s, e] for s, e in r]
        kind = case['kind']
        src = mk_src(case['xs'], kind)
        snap = [(type(x), x) for x in src] if kind in MUTABLE else None
        r = self.invoke(iu, case, it, src)
        if snap is not None and [(type(x), x) for x in src] != snap:
            raise BadValue('the input %s was modified by the call: now %r' % (kind, list(src)[:8]))
        if case.get('twice') and kind in REITERABLE:
            r2 = self.invoke(iu, case, it, src)
            if r2 != r:
                raise BadValue('a second call on the same input object gave %r, the first gave %r' % (r2, r))
            if it:
                # round 3: two live generators over the same input object, advanced in lockstep
                ra, rb = self.invoke(iu, case, it, src, interleave=True)
                if ra != r or rb != r:
                    raise BadValue('two interleaved generators on the same input gave %r and %r, a single one %r'
                                   % (ra, rb, r))
        return r

    def _split_args(self, case, kind):
        """(positional arguments after src, the mutable separator container or None)"""
        dflt = bool(case.get('dflt'))
        sep = case['sep']
        ek = ekind(kind)
        sepobj = None
        if sep[0] == 'n':
            a = (None,)
        elif sep[0] == 'v':
            a = (dec(sep[1], ek),)
        elif sep[0] == 't':
            a = (''.join(dec(c, 'str') for c in sep[1]),)
        elif sep[0] == 'y':
            a = (bytes(val(c) for c in sep[1]),)
        elif sep[0] == 's':
            objs = [dec(c, ek) for c in sep[1]]
            sc = case.get('sc')
            if sc is None:
                sepobj = objs if len(objs) % 2 else tuple(objs)
            else:
                if not sep_container_ok(sc, sep[1]) or ek in ('str', 'words') and sc in SEP_INT_ONLY:
                    raise BadCase('a %s cannot hold the separators %r' % (sc, sep[1]))
                sepobj = mk_sep_container(sc, objs)
                if sc not in SEP_MUTABLE:
                    sepobj, keep = None, sepobj
                    a = (keep,)
            if sepobj is not None:
                a = (sepobj,)
        else:
            classes = {cls(c) for c in sep[1]}
            a = (as_callable_kind(lambda x: kcls(x) in classes, case.get('kc'), True),)
        if case['ms'] is not None:
            a = a + (pobj(case, 'ms'),)
        elif dflt and sep[0] == 'n':
            a = ()
        return a, sepobj

    def _iter_call(self, iu, case, src):
        """the generator object of the *_iter form (not yet advanced)"""
        op, kind = case['op'], case['kind']
        if op in ('chunked', 'windowed', 'pairwise'):
            kw = {}
            if case['fill'] is not None:
                kw['end' if op == 'pairwise' else 'fill'] = dec_fill(case['fill'], kind)
            if op == 'chunked':
                return iu.chunked_iter(src, pobj(case, 'size'), **kw)
            if op == 'windowed':
                return iu.windowed_iter(src, pobj(case, 'size'), **kw)
            return iu.pairwise_iter(src, **kw)
        if op == 'split':
            a, _ = self._split_args(case, kind)
            return iu.split_iter(src, *a)
        if op in ('lstrip', 'rstrip', 'strip'):
            return getattr(iu, op + '_iter')(src, dec(case['v'], ekind(kind)))
        if op == 'unique':
            k = key_callable(case['key'], case.get('kc'))
            return iu.unique_iter(src, *(() if k is None else (k,)))
        raise ValueError(op)

    def invoke(self, iu, case, it, src, interleave=False):
        """one call of the real function on the prepared input object; result as codes.  `interleave` (iter forms
        only): the generator is created twice on the same input and the two are advanced alternately; returns both
        results"""
        if interleave:
            outs = []
            gens = []
            for _ in range(2):
                g = self._iter_call(iu, case, src)
                gens.append(iter(g))
                outs.append([])
            live = [True, True]
            while any(live):
                for j in (0, 1):
                    if live[j]:
                        try:
                            outs[j].append(next(gens[j]))
                        except StopIteration:
                            live[j] = False
            op = case['op']
            if op in ('chunked', 'windowed', 'pairwise', 'split'):
                return [encl(c) for c in outs[0]], [encl(c) for c in outs[1]]
            return encl(outs[0]), encl(outs[1])
        op = case['op']
        kind = case['kind']
        dflt = bool(case.get('dflt'))
        if op == 'chunked':
            kw = {}
            if case['fill'] is not None:
                kw['fill'] = dec_fill(case['fill'], kind)
            size = pobj(case, 'size')
            if it:
                r = list(iu.chunked_iter(src, size, **kw))
            elif case['count'] is None:
                r = iu.chunked(src, size, **kw)
            elif dflt:
                r = iu.chunked(src, size, count=pobj(case, 'count'), **kw)
            else:
                r = iu.chunked(src, size, pobj(case, 'count'), **kw)
            if kind in ('str', 'bytes'):
                want = str if kind == 'str' else bytes
                if not all(type(c) is want for c in r):
                    raise BadValue('chunk type %r' % [type(c).__name__ for c in r][:3])
            # round 3: the type of the chunks is part of the observation (the model has it: `chunkKind`)
            out = ChunkList(encl(c) for c in r)
            types = {type(c).__name__ for c in r}
            out.ctype = types.pop() if len(types) == 1 else ('mixed' if types else None)
            return out
        if op in ('windowed', 'pairwise'):
            kw = {}
            if case['fill'] is not None:
                kw['fill' if op == 'windowed' else 'end'] = dec_fill(case['fill'], kind)
            if op == 'windowed':
                size = pobj(case, 'size')
                r = list(iu.windowed_iter(src, size, **kw)) if it else iu.windowed(src, size, **kw)
            else:
                r = list(iu.pairwise_iter(src, **kw)) if it else iu.pairwise(src, **kw)
            return [encl(w) for w in r]
        if op == 'split':
            sep = case['sep']
            ek = ekind(kind)
            a, sepobj = self._split_args(case, kind)
            r = list(iu.split_iter(src, *a)) if it else iu.split(src, *a)
            if sepobj is not None:
                want = [dec(c, ek) for c in sep[1]]
                now = list(sepobj)
                if type(sepobj) in (set, dict):
                    same = len(now) == len(mk_sep_container('set', want)) and all(
                        any(type(x) is type(y) and x == y for y in want) for x in now)
                else:
                    same = [(type(x), x) for x in now] == [(type(x), x) for x in want]
                if not same:
                    raise BadValue('the separator collection was modified by the call')
            return [encl(g) for g in r]
        if op in ('lstrip', 'rstrip', 'strip'):
            v = dec(case['v'], ekind(kind))
            f = getattr(iu, op + '_iter' if it else op)
            r = f(src) if (case['v'] == 0 and len(case['xs']) % 2) else f(src, v)
            return encl(list(r))
        if op == 'unique':
            k = key_callable(case['key'], case.get('kc'))
            a = () if k is None and len(case['xs']) % 2 else (k,)
            r = list(iu.unique_iter(src, *a)) if it else iu.unique(src, *a)
            return encl(r)
        if op == 'redundant':
            k = key_callable(case['key'], case.get('kc'))
            if dflt and k is None and not case['groups']:
                r = iu.redundant(src)            # both optional arguments left at their defaults
            elif dflt and not case['groups']:
                r = iu.redundant(src, k)         # key positional, groups at its default
            else:
                r = iu.redundant(src, key=k, groups=case['groups'])
            return [encl(g) for g in r] if case['groups'] else encl(r)
        if op == 'bucketize':
            key = case['key']
            k = [dec(c) for c in key[1]] if not isinstance(key, str) else key_callable(key, case.get('kc'))
            kw = {}
            if dflt and key == 'bool':
                pass                      # key left at its default (bool)
            elif k is not None:
                kw['key'] = k
            else:
                kw['key'] = as_callable_kind(lambda x: x, case.get('kc'))
            if case['vt'] == 'sq':
                kw['value_transform'] = as_callable_kind(lambda x: x * x, case.get('kc'))
            if case['kf'] is not None:
                kfc = case['kf']
                kw['key_filter'] = as_callable_kind(lambda kk: kcls(kk) != kfc, case.get('kc'))
            r = iu.bucketize(src, **kw)
            if not isinstance(r, dict):        # a dict (or a subclass: the statement only speaks of buckets)
                raise BadValue('bucketize returned %s' % type(r).__name__)
            if isinstance(k, list) and [(type(x), x) for x in k] != [(type(dec(c)), dec(c)) for c in key[1]]:
                raise BadValue('the key list was modified by the call')
            return [[kcls(kk), encl(vs)] for kk, vs in r.items()]
        if op == 'partition':
            k = key_callable(case['key'], case.get('kc'))
            if dflt and case['key'] == 'bool':
                r = iu.partition(src)
            else:
                r = iu.partition(src, as_callable_kind(lambda x: x, case.get('kc')) if k is None else k)
            return [encl(r[0]), encl(r[1])]
        raise ValueError(op)

    @staticmethod
    def cpython_split(case):
        """real str.split on the string the item list stands for (None <-> ' ', class c <-> a letter)"""
        xs, sep, ms = case['xs'], case['sep'], case['ms']
        s = ''.join(' ' if c == 0 else chr(97 + val(c)) for c in xs)
        a = (None,) if sep[0] == 'n' else (chr(97 + val(sep[1])),)
        if ms is not None:
            a = a + (ms,)
        return [[0 if ch == ' ' else 1 + 3 * (ord(ch) - 97) for ch in piece] for piece in s.split(*a)]

    # ------------------------------------------------------------------ canonical text
    def render(self, case, obs):
        r = obs['r']
        if 'exc' in r:
            return 'err ' + r['exc']
        v = r['ok']
        op = case['op']
        if op == 'chunked':
            # no chunk: no type observed, the model's answer for this input kind is taken over
            # the statement fixes the chunk type only where "concatenating gives back the input" needs it: str
            # chunks for a str, bytes chunks for a bytes; for any other input the chunks are just sequences
            if case['kind'] in ('str', 'bytes'):
                ctype = getattr(v, 'ctype', None) or case['kind']
            else:
                ctype = 'seq'
            return 'ok %s %s' % (ctype, show_ll(v))
        if op in ('windowed', 'pairwise', 'split', 'pysplit') or (op == 'redundant' and case['groups']):
            return 'ok ' + show_ll(v)
        if op in ('lstrip', 'rstrip', 'strip', 'pystrip', 'unique', 'redundant'):
            return 'ok ' + nats(v)
        if op == 'bucketize':
            return 'ok ' + ('|'.join('%d:%s' % (k, nats(vs)) for k, vs in v) if v else '[]')
        if op == 'partition':
            return 'ok %s|%s' % (nats(v[0]), nats(v[1]))
        if op == 'chunk_ranges':
            return 'ok ' + ('|'.join('%d:%d' % (s, e) for s, e in v) if v else '[]')
        raise ValueError(op)

    # ------------------------------------------------------------------ oracle (independent of the model)
    def oracle(self, case, obs):
        self._nt = False
        op = case['op']
        r = obs['r']
        if op in ('pysplit', 'pystrip'):
            self._nt = 'ok' in r and len(r['ok']) >= 2
            return None      # CPython itself; only the correspondence (Lean spec vs CPython) is of interest
        for form, rr in (('list form', r), ('iter form', obs.get('ri'))):
            if rr is not None and rr.get('exc') in ('CaseTimeout', 'BadValue'):
                return Failure('hang' if rr['exc'] == 'CaseTimeout' else 'badvalue',
                               '%s %s: %s %s' % (op, form, rr['exc'], rr.get('msg', '')))
        valid = self.valid(case)
        if 'ri' in obs and obs['ri'] != r and (valid or ('ok' in r and 'ok' in obs['ri'])):
            return Failure('iter_ne_list', '%s: the *_iter form gave %r, the list form %r' % (op, obs['ri'], r))
        if not valid:
            return None
        if 'exc' in r:
            return Failure('raises', '%s raised %s on valid parameters' % (op, r['exc']))
        got = r['ok']
        f = getattr(self, 'o_' + op)(case, got)
        if f is not None and len(f.what) > 600:
            f.what = f.what[:380] + ' ... ' + f.what[-200:]      # long inputs: keep both ends of the message
        return f

    @staticmethod
    def valid(case):
        op = case['op']
        if any(is_float_alias(case, n) for n in (case.get('pa') or {})):
            # round 3b: a FLOAT where an integer parameter is expected (size=2.0, maxsplit=1.5, input_size=6.5).
            # Today most of them are accepted through int(), but the statement's laws ("every chunk has exactly
            # size elements") say nothing for a non-integer: any judgement would need the extra assumption that the
            # value is truncated.  A version validating with operator.index, or rounding, is as good: outside the domain.
            return False
        if op == 'chunked':
            # a float count is rejected by itertools.islice (modelled; the property demands nothing there)
            return case['size'] >= 1 and (case['count'] is None or
                                          (case['count'] >= 0 and not is_float_alias(case, 'count')))
        if op == 'windowed':
            return case['size'] >= 1 and not is_float_alias(case, 'size')      # itertools.tee rejects a float
        if op == 'split':
            if case['sep'][0] == 't' and len(case['sep'][1]) != 1:
                return False     # a multi-character (or empty) str separator has no str.split counterpart item-wise
            if case['sep'][0] == 'y':
                return False     # a bytes object as separator of an item sequence: equals no item, nothing is split
            return case['ms'] is None or case['ms'] >= 0
        if op == 'chunk_ranges':
            return case['size'] >= 0 and case['cs'] >= 1 and case['off'] >= 0 and 0 <= case['ov'] < case['cs']
        if op == 'bucketize' and not isinstance(case['key'], str):
            return len(case['key'][1]) == len(case['xs'])
        return True

    def o_chunked(self, case, got):
        xs, size, fill, count = case['xs'], case['size'], case['fill'], case['count']
        n = len(xs)
        self._nt = len(got) >= 2
        if count is None:
            flat = flatten(got)
            if fill is None:
                if flat != xs:
                    return Failure('chunked_concat', 'concatenated chunks %r != input %r' % (flat, xs))
                if any(len(c) != size for c in got[:-1]) or (got and not 1 <= len(got[-1]) <= size):
                    return Failure('chunked_sizes', 'chunk sizes %r for size %d' % ([len(c) for c in got], size))
            else:
                if any(len(c) != size for c in got):
                    return Failure('chunked_sizes', 'padded chunk sizes %r for size %d' % ([len(c) for c in got], size))
                if flat[:n] != xs or any(x != fill for x in flat[n:]) or len(flat) - n >= size:
                    return Failure('chunked_fill', 'concatenated chunks %r != input %r + <%d fills' % (flat, xs, size))
            if not got and n:
                return Failure('chunked_concat', 'no chunks for a non-empty input')
        else:
            pieces = [xs[i:i + size] for i in range(0, n, size)]
            if fill is not None and pieces:
                pieces[-1] = pieces[-1] + [fill] * (size - len(pieces[-1]))
            if got != pieces[:count]:
                return Failure('chunked_count', 'chunked(count=%d) = %r, expected %r' % (count, got, pieces[:count]))
        return None

    def o_windowed(self, case, got, size=None):
        xs = case['xs']
        size = case['size'] if size is None else size
        n = len(xs)
        if case['fill'] is None:
            exp = [xs[i:i + size] for i in range(0, n - size + 1)]
        else:
            exp = [(xs[i:i + size] + [case['fill']] * size)[:size] for i in range(n)]
        self._nt = len(got) >= 2
        if got != exp:
            return Failure('windowed', 'windows %r, expected the slices %r' % (got, exp))
        return None

    def o_pairwise(self, case, got):
        return self.o_windowed(case, got, 2)

    def o_split(self, case, got):
        xs, sep, ms = case['xs'], case['sep'], case['ms']
        sc = sep_classes(sep)
        self._nt = len(got) >= 2
        if sep[0] in ('n', 'v'):
            # the corresponding character string: separator class <-> ' ' (None mode) or ',' ; class c <-> a letter
            sepch = ' ' if sep[0] == 'n' else ','

            def ch(c):
                return sepch if cls(c) in sc else chr(65 + cls(c))
            s = ''.join(ch(c) for c in xs)
            a = (None,) if sep[0] == 'n' else (sepch,)
            if ms is not None:
                a = a + (ms,)
            exp = s.split(*a)
            gots = [''.join(ch(c) for c in g) for g in got]
            if gots != exp:
                return Failure('split', 'split gave %r for %r, str.split%r gives %r' % (gots, s, a, exp))
        else:
            cuts = [i for i, c in enumerate(xs) if cls(c) in sc]
            if ms is not None:
                cuts = cuts[:ms]
            exp, start = [], 0
            for i in cuts:
                exp.append(xs[start:i])
                start = i + 1
            exp.append(xs[start:])
            if got != exp:
                return Failure('split', 'split gave %r, cutting at the separators gives %r' % (got, exp))
        if not is_subsequence(flatten(got), xs):
            return Failure('split', 'split output %r is not an in-order selection of the input items %r' % (got, xs))
        return None

    def strip_generic(self, case, got, left, right):
        xs, v = case['xs'], case['v']
        s = ''.join(' ' if cls(c) == cls(v) else chr(65 + cls(c)) for c in xs)
        a = len(s) - len(s.lstrip(' ')) if left else 0
        b = len(s.rstrip(' ')) if right else len(s)
        exp = xs[a:max(a, b)]
        self._nt = len(exp) < len(xs) and len(exp) > 0
        if got != exp:
            return Failure('strip', '%s gave %r, str.%s gives %r' % (case['op'], got, case['op'], exp))
        return None

    def o_lstrip(self, case, got):
        return self.strip_generic(case, got, True, False)

    def o_rstrip(self, case, got):
        return self.strip_generic(case, got, False, True)

    def o_strip(self, case, got):
        return self.strip_generic(case, got, True, True)

    def o_unique(self, case, got):
        xs = case['xs']
        ks = [key_class(case['key'], c) for c in xs]
        exp = [x for i, x in enumerate(xs) if ks[i] not in ks[:i]]
        self._nt = 1 <= len(exp) < len(xs)
        if got != exp:
            return Failure('unique', 'unique gave %r, first occurrences are %r' % (got, exp))
        return None

    def o_redundant(self, case, got):
        xs = case['xs']
        name = case['key']
        ks = [key_class(name, c) for c in xs]
        dup = sorted({k for k in ks if ks.count(k) > 1})
        self._nt = bool(dup)
        if case['groups']:
            gk = []
            for g in got:
                kk = {key_class(name, c) for c in g}
                if len(kk) != 1:
                    return Failure('redundant', 'group %r does not have one key' % (g,))
                k = kk.pop()
                gk.append(k)
                if g != [x for i, x in enumerate(xs) if ks[i] == k]:
                    return Failure('redundant', 'group %r is not all items with key class %d' % (g, k))
        else:
            gk = [key_class(name, c) for c in got]
            if not is_subsequence_multiset(got, xs):
                return Failure('redundant', 'reported items %r are not input items' % (got,))
        if sorted(gk) != dup:
            return Failure('redundant', 'reported key classes %r, keys seen more than once %r' % (gk, dup))
        return None

    def o_bucketize(self, case, got):
        xs = case['xs']
        key = case['key']
        if isinstance(key, str):
            ks = [key_class(key, c) for c in xs]
        else:
            ks = [cls(c) for c in key[1]]
        vals = [sq_code(c) if case['vt'] == 'sq' else c for c in xs]
        keep = [i for i in range(len(xs)) if case['kf'] is None or ks[i] != case['kf']]
        keys = [k for k, _ in got]
        self._nt = len(got) >= 2
        if len(set(keys)) != len(keys):
            return Failure('bucketize', 'duplicate bucket keys %r' % (keys,))
        for k, vs in got:
            exp = [vals[i] for i in keep if ks[i] == k]
            if vs != exp or not vs:
                return Failure('bucketize', 'bucket %d holds %r, the items with that key are %r' % (k, vs, exp))
        if sum(len(vs) for _, vs in got) != len(keep):
            return Failure('bucketize', '%d items bucketed, %d expected' % (sum(len(vs) for _, vs in got), len(keep)))
        return None

    def o_partition(self, case, got):
        xs = case['xs']
        ks = [key_class(case['key'], c) for c in xs]
        self._nt = bool(got[0]) and bool(got[1])
        if case['key'] == 'bool' or all(k in (1, 2) for k in ks):
            # class 2 = True/1, class 1 = False/0
            exp = [[x for x, k in zip(xs, ks) if k == 2], [x for x, k in zip(xs, ks) if k == 1]]
            if got != exp:
                return Failure('partition', 'partition gave %r, filters give %r' % (got, exp))
        return None

    def o_chunk_ranges(self, case, r):
        size, cs, off, ov, al = case['size'], case['cs'], case['off'], case['ov'], case['align']
        stop = off + size
        self._nt = len(r) >= 2
        if not r:
            if size:
                return Failure('cr_cover', 'no ranges for input_size %d' % size)
            return None
        if r[0][0] != off:
            return Failure('cr_start', 'first range starts at %d, not at input_offset %d' % (r[0][0], off))
        if r[-1][1] != stop:
            return Failure('cr_end', 'last range ends at %d, not at %d' % (r[-1][1], stop))
        if any(e - s > cs or e < s for s, e in r):
            return Failure('cr_len', 'a range is longer than chunk_size %d (or negative): %r' % (cs, r))
        for (s1, e1), (s2, e2) in zip(r, r[1:]):
            if s2 != e1 - ov:
                return Failure('cr_overlap', 'range (%d,%d) does not begin %d before the previous end %d' % (s2, e2, ov, e1))
        if al and any(s % (cs - ov) for s, _ in r[1:]):
            return Failure('cr_align', 'align=True but a later range does not start on a multiple of %d: %r' % (cs - ov, r))
        if stop - off <= 100000:
            cov = set()
            for s, e in r:
                cov.update(range(s, e))
            if not cov >= set(range(off, stop)) or not cov <= set(range(off, stop)):
                return Failure('cr_cover', 'ranges %r do not cover exactly [%d, %d)' % (r, off, stop))
        else:
            # huge spans: the same demand (union of the ranges == [off, stop)) by a sweep over the sorted ranges
            cur = off
            for s, e in sorted(r):
                if s < off or e > stop or s > cur:
                    return Failure('cr_cover', 'ranges %r do not cover exactly [%d, %d)' % (r, off, stop))
                cur = max(cur, e)
            if cur != stop:
                return Failure('cr_cover', 'ranges %r do not cover exactly [%d, %d)' % (r, off, stop))
        return None

    # ------------------------------------------------------------------ known findings
    def falsy_key_defect_known(self):
        if not hasattr(self, '_falsy_known'):
            from bv.common import load_findings
            self._falsy_known = any(e.get('id') == 'C09-redundant-falsy-key' and e.get('status') == 'known'
                                    for e in load_findings(self.PID))
        return self._falsy_known

    def finding_redundant_falsy_key(self, case, failure):
        """redundant() decides with `if key` (truthiness) whether to apply the key: a callable key object whose
        truth value is False is silently ignored.  Matched only for redundant() called with such a key, and only
        while the result is exactly what the identity key gives (any other wrong answer is a new violation)."""
        if case.get('op') != 'redundant' or case.get('kc') != 'falsy' or failure.tag != 'redundant':
            return False
        if not isinstance(case.get('key'), str) or not callable(_key_callable(case['key'])):
            return False
        r = self.call(case, False)
        if 'ok' not in r:
            return False
        return self.o_redundant(dict(case, key='id'), r['ok']) is None

    def nontrivial(self, case, obs):
        return getattr(self, '_nt', False)

    # ------------------------------------------------------------------ shrinking
    def shrink(self, case):
        if case.get('kc'):
            yield {k: v for k, v in case.items() if k != 'kc'}
        if case.get('sc') not in (None, 'list'):
            yield dict(case, sc='list')
        for f in ('twice', 'dflt', 'pa'):
            if case.get(f):
                yield {k: v for k, v in case.items() if k != f}
        if case.get('kind') == 'range':
            # a range can only lose items at its ends; otherwise become a list first
            xs = case['xs']
            if xs:
                yield dict(case, xs=xs[:-1])
                yield dict(case, xs=xs[1:])
            yield dict(case, kind='list')
            return
        if 'xs' in case:
            xs = case['xs']
            if len(xs) > 8 and not isinstance(case.get('key'), list):
                h = len(xs) // 2
                yield dict(case, xs=xs[:h])
                yield dict(case, xs=xs[h:])
                yield dict(case, xs=xs[:len(xs) - len(xs) // 8])
            for i in range(len(xs)):
                c = dict(case, xs=xs[:i] + xs[i + 1:])
                if isinstance(case.get('key'), list):
                    k = case['key'][1]
                    c['key'] = ['L', k[:i] + k[i + 1:]]
                yield c
            for i, x in enumerate(xs):
                if x > 1 and tag(x) != 0:
                    yield dict(case, xs=xs[:i] + [x - tag(x)] + xs[i + 1:])
        for f in ('size', 'count', 'ms', 'cs', 'off', 'ov'):
            v = case.get(f)
            if isinstance(v, int) and not isinstance(v, bool) and v > 0:
                yield dict(case, **{f: v - 1})
                if v > 3:
                    yield dict(case, **{f: v // 2})
        if case.get('kind') not in (None, 'list') and case.get('kind') not in ('str', 'bytes', 'bytearray'):
            yield dict(case, kind='list')
        if case.get('kind') == 'bytearray':
            yield dict(case, kind='bytes')
        if case.get('op') == 'split' and case['sep'][0] in ('s', 't', 'c', 'y') and case['sep'][1]:
            yield dict(case, sep=[case['sep'][0], case['sep'][1][:-1]])
            if len(case['sep'][1]) > 1:
                yield dict(case, sep=[case['sep'][0], case['sep'][1][1:]])


def is_subsequence_multiset(small, big):
    pool = list(big)
    for x in small:
        if x in pool:
            pool.remove(x)
        else:
            return False
    return True


PROPERTY = C09
