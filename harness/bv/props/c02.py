"""C02 - LRI/LRU: capacity, eviction strictly by recency, counters, on_miss, copy().

A case is one whole history over a small world of caches:
  {'cls': 'LRI'|'LRU', 'max': n, 'om': None|[a, b], 'km': 's'|'n', 'nk': n_keys,
   'init': None|[[k, v], ...], 'ops': [[name, cache_index, args...], ...]}
on_miss [a, b] is the function key k -> value a*k+b; [a, b, ke, ve] is the same function except that it raises
KeyError for the keys in ke and ValueError for the keys in ve.
Keys and values are small naturals in the case; the runner turns them into Python objects:
  km 's': key k -> 'k<k>';  km 'n': key k -> k / float(k) / bool(k) (== - and hash-equal aliases);
  km 'x': key k -> an "exotic" hashable (None, (), '', a tuple, a frozenset, a negative int, a big int, bytes ...);
  value 0 -> None, value v -> v;  on_miss [a, b] is the function key k -> value a*k+b.
Cache 0 is built by the constructor, every `copy` appends a cache.
Optional fields: 'ik' = how the constructor's `values` are passed ('list' (default) | 'dict' | 'iter' | 'map');
'omk': 'falsy' = on_miss is a callable object whose truth value is False (a fixed finding: an on_miss like any other).
'prog': {str(k): [act, ...]} makes on_miss RE-ENTRANT: before it returns / raises as 'om' says, on_miss(k) performs the
acts (ops in the format below; the cache number is ignored) on the very cache whose lookup called it (the RLock
permits that); an act that raises ends the callback with that exception; lookups among the acts may miss and call
on_miss again; 'depth' (default 3) is the nesting depth at which the callback raises ValueError instead.  An act whose
name starts with '?' is wrapped in try / except Exception: pass by the callback; ['if_in' | 'if_not_in', 0, kt, act] makes the
callback test `kt in cache` and perform `act` only if the answer is True / False (a callback that branches on what it sees).  'st': s makes the callback stateful: it
returns a*k + b + s * (number of on_miss calls made on this cache before this one).
Argument kinds of update / |=: 'dict' | 'list' | 'iter' | 'self' | 'map' (a mapping that is not a dict: keys() +
__getitem__) | 'cache' (another cache of the world, op[3] = its number) | 'fail' (a generator that yields the pairs,
then raises ValueError) | 'bad' (a list of the pairs followed by a malformed 1-tuple -> ValueError) | 'none'
(update(**kw) without a positional argument; a fixed finding, inside the model as update((), **kw)).  ==/!= operands: 'dict' | 'cache' |
'other' (op[3] selects None / 5 / 'x' / a list of pairs / []).
"""
import itertools
import zlib

from bv.common import Property, Failure, time_limit, exc_name, CaseTimeout

LOOKUPS = ('getitem', 'get', 'setdefault')


# ----------------------------------------------------------------------------- encoding

EXOTIC = [None, (), '', (3,), frozenset((4,)), -5, 2 ** 70 + 6, 'k7', 8.5, b'9', (10, 'a'), '\xe911', -12.25,
          (None,), frozenset()]
_XREV = {v: i for i, v in enumerate(EXOTIC)}


def enc_key(km, k, salt=0):
    if km == 's':
        return 'k%d' % k
    if km == 'x':
        return EXOTIC[k] if k < len(EXOTIC) else ('t', k)
    variant = (salt + k) % 3
    if variant == 1:
        return float(k)
    if variant == 2 and k in (0, 1):
        return bool(k)
    return k


def dec_key(km, o):
    try:
        if km == 's':
            if isinstance(o, str) and o.startswith('k'):
                return int(o[1:])
        elif km == 'x':
            if isinstance(o, tuple) and len(o) == 2 and o[0] == 't' and type(o[1]) is int and o[1] >= len(EXOTIC):
                return o[1]
            if o in _XREV and type(o) is type(EXOTIC[_XREV[o]]):
                return _XREV[o]
        elif isinstance(o, (int, float, bool)) and int(o) == o:
            return int(o)
    except Exception:
        pass
    return '?%r' % (o,)


def enc_val(v):
    return None if v == 0 else v


def dec_val(o):
    if o is None:
        return 0
    if isinstance(o, int) and not isinstance(o, bool) and o > 0:
        return o
    return '?%r' % (o,)


def dedup(pairs):
    """what dict(pairs) holds, in dict order"""
    d = {}
    for k, v in pairs:
        d[k] = v
    return [[k, v] for k, v in d.items()]


def pairs_txt(pairs):
    return ','.join('%s.%s' % (k, v) for k, v in pairs) or '-'


def nats_txt(l):
    return ','.join(str(x) for x in l) or '-'


class MapObj:
    """a mapping that is not a dict: only keys() and __getitem__ (what dict.update needs of a mapping)"""

    def __init__(self, pairs):
        self._d = dict(pairs)

    def keys(self):
        return list(self._d)

    def __getitem__(self, k):
        return self._d[k]


def fail_iter(pairs):
    """yields the pairs, then raises ValueError"""
    for p in pairs:
        yield p
    raise ValueError('iterable failed')


class FalsyCallable:
    """a callable whose truth value is False (it has a length of 0)"""

    def __init__(self, f):
        self.f = f

    def __call__(self, key):
        return self.f(key)

    def __len__(self):
        return 0


PAIR_KINDS = ('dict', 'list', 'iter', 'map', 'fail', 'bad')      # update / |= arguments that carry pairs
DEDUP_KINDS = ('dict', 'map')
N_OTHERS = 5


# ----------------------------------------------------------------------------- reference cache
# Independent restatement of the property: a mapping plus, per key, the time of its latest
# insertion-or-assignment (LRI) / insertion, assignment or successful lookup (LRU).  Inserting a
# new key into a full cache evicts the key whose time is oldest.  No list, no ring.

ACT_NAMES = ('set', 'getitem', 'get', 'setdefault', 'del', 'pop', 'popitem', 'clear', 'update', 'ior', 'in', 'len', 'iter', 'eq', 'ne')
DEFAULT_DEPTH = 3


class Ref:
    def __init__(self, lru, max_size, om, prog=None, depth=DEFAULT_DEPTH, st=0):
        self.lru, self.max, self.om = lru, max_size, om
        self.prog, self.depth, self.st = prog, depth, st
        self.ncalls = 0            # on_miss calls made on this cache so far (the callback's own state)
        self.obs = None            # what the calls made by on_miss returned / raised in the implementation, in order
        self.nested_fail = None
        self.vals, self.stamp, self.clock = {}, {}, 0
        self.h = self.m = self.s = 0
        self.evictions = 0
        self.nested = 0

    def clone(self):
        r = Ref(self.lru, self.max, self.om, self.prog, self.depth, self.st)
        r.vals, r.stamp, r.clock = dict(self.vals), dict(self.stamp), self.clock
        return r

    def clone_full(self):
        r = self.clone()
        r.h, r.m, r.s, r.evictions, r.ncalls = self.h, self.m, self.s, self.evictions, self.ncalls
        return r

    def assign(self, k, v):
        if k not in self.vals and len(self.vals) >= self.max:
            victim = min(self.vals, key=lambda x: self.stamp[x])
            del self.vals[victim], self.stamp[victim]
            self.evictions += 1
        self.vals[k] = v
        self.stamp[k] = self.clock
        self.clock += 1

    def remove(self, k):
        del self.vals[k], self.stamp[k]

    def lookup(self, k, depth=0):
        """-> (answered, value, on_miss calls, exception class raised by on_miss or None).
        A lookup that does not find the key is a miss whatever on_miss then does.  A re-entrant on_miss
        (self.prog) first performs its acts on this very reference cache - nested lookups are lookups like
        any other - and the value it finally returns is assigned to the key, whatever the acts did to it."""
        if k in self.vals:
            self.h += 1
            if self.lru:
                self.stamp[k] = self.clock
                self.clock += 1
            return True, self.vals[k], [], None
        self.m += 1
        if self.om is not None:
            calls = [k]
            earlier = self.ncalls
            self.ncalls += 1
            if self.prog is not None:
                if depth >= self.depth:
                    return False, None, calls, 'ValueError'
                for act in self.prog.get(str(k), ()):
                    self.nested += 1
                    exc = self.act(act, depth + 1, calls)
                    if exc is not None and not act[0].startswith('?'):
                        return False, None, calls, exc
            if len(self.om) > 2 and k in self.om[2]:
                return False, None, calls, 'KeyError'
            if len(self.om) > 2 and k in self.om[3]:
                return False, None, calls, 'ValueError'
            v = self.om[0] * k + self.om[1] + self.st * earlier
            self.assign(k, v)
            return True, v, calls, None
        return False, None, [], None

    def act(self, op, depth, calls):
        """one dict-API call made by on_miss on the cache; -> the class of the exception it raises, or None.
        With self.obs (the results the implementation's callback saw, in completion order) the result of the call
        is compared with what the reference cache answers at that moment."""
        name, a = op[0].lstrip('?'), op[2:]
        if name in ('if_in', 'if_not_in'):
            self.act(['in', 0, a[0]], depth, calls)
            if (a[0] in self.vals) == (name == 'if_in'):
                exc = self.act(a[1], depth, calls)
                return None if a[1][0].startswith('?') else exc
            return None
        exc, ret = None, ['none']
        if name == 'set':
            self.assign(a[0], a[1])
        elif name in LOOKUPS:
            dflt = a[1] if len(a) > 1 else 0
            found, v, sub, lexc = self.lookup(a[0], depth)
            calls.extend(sub)
            if found:
                ret = ['val', v]
            elif lexc is not None and lexc != 'KeyError':
                exc = lexc
            elif name == 'getitem':
                exc = 'KeyError'
            else:
                self.s += 1
                ret = ['val', dflt]
                if name == 'setdefault':
                    self.assign(a[0], dflt)
        elif name == 'del':
            if a[0] not in self.vals:
                exc = 'KeyError'
            else:
                self.remove(a[0])
        elif name == 'pop':
            if a[0] in self.vals:
                ret = ['val', self.vals[a[0]]]
                self.remove(a[0])
            elif len(a) < 2:
                exc = 'KeyError'
            else:
                ret = ['val', a[1]]
        elif name == 'popitem':
            if not self.vals:
                exc = 'KeyError'
            else:
                # which item goes is the implementation's choice: any item of the reference cache is accepted
                got = self.obs[0] if self.obs else None
                if got and got[0] == 'item' and self.vals.get(got[1], object()) == got[2]:
                    k = got[1]
                else:
                    k = next(reversed(list(self.vals)))
                ret = ['item', k, self.vals[k]]
                self.remove(k)
        elif name == 'clear':
            self.vals.clear()
            self.stamp.clear()
        elif name in ('update', 'ior'):
            for k, v in (dedup(a[1]) if a[0] in DEDUP_KINDS else a[1]):
                self.assign(k, v)
        elif name == 'in':
            ret = ['bool', a[0] in self.vals]
        elif name == 'len':
            ret = ['nat', len(self.vals)]
        elif name == 'iter':
            ret = ['items', sorted([k, v] for k, v in self.vals.items())]
        elif name in ('eq', 'ne'):
            same = self.vals == {k: v for k, v in dedup(a[1])}
            ret = ['bool', same if name == 'eq' else not same]
        else:
            raise ValueError('unknown act %r' % (op,))
        if self.obs is not None and self.nested_fail is None:
            exp = ['exc', exc] if exc is not None else ret
            if not self.obs:
                self.nested_fail = 'the call %r made by on_miss was not observed' % (op,)
            else:
                got = self.obs.pop(0)
                if got and got[0] == 'items':
                    got = ['items', sorted(got[1])]
                if got != exp:
                    self.nested_fail = ('the call %r made by on_miss gave %r, the reference cache answers %r at that moment'
                                        % (op, got, exp))
        return exc


class C02(Property):
    PID = 'C02'
    QUICK_BUDGET_S = 38
    THOROUGH_BUDGET_S = 600
    RULE = ('a case is one whole history of dict-API calls (item get/set/del, get, setdefault, update and |= with a '
            'dict / list of pairs / one-shot iterator / mapping object that is not a dict / the cache itself / ANOTHER cache '
            'of the world / an iterable that raises after some pairs / a list with a malformed element, update keyword '
            'arguments, pop, popitem, clear, copy, in, len, iteration, ==/!= against dicts, other caches and non-mappings '
            '(None, 5, a string, a list)) on an LRI or LRU with max_size 1-5 (8 in thorough; 33-200 in the big family), '
            'on_miss None, k->a*k+b (also returning None), or that function raising KeyError / ValueError for chosen keys, or a '
            'RE-ENTRANT on_miss: a callback that, before it returns / raises, itself calls methods of the cache that is waiting '
            'for its result (per key a program of set / item get / get / setdefault / del / pop / popitem / clear / update / |= / in / len / iteration / == '
            'calls: stores the key itself, prefetches or drops a neighbour, clears, fills the cache beyond capacity, looks other '
            'absent keys up - nested on_miss calls down to a depth guard of 1-3 -, raises after mutating, wraps some of its calls in '
            'try / except, branches on a membership test, keeps state: its value depends on how often it was called on that cache; what each of its calls returned or '
            'raised is recorded and judged against the reference cache at that moment), '
            'constructor values passed as list / dict / iterator / mapping object, over max_size+1..+3 keys (strings, the '
            'aliases 1/1.0/True, or exotic hashables: None, (), \'\', tuples, frozensets, negative and huge ints, bytes), '
            'ended by a probe that inserts max_size (+1 in the scripted, adversarial and half of the random cases) fresh keys '
            'into every cache so that the eviction order, and any link left behind in the ring, becomes visible; every cache of '
            'the world is dumped (items/keys/values/iter/len/in/counters/max_size/on_miss) after every call. Order: (0) 3114 '
            'scripted scenarios (falsy on_miss results, stored None, removal of a None-valued newest/oldest key then overflow, '
            'lookups on a not-yet-full LRU, update/|= with exactly the current contents after a reorder, equal contents in a '
            'different dict order, every argument kind overflowing with duplicates, one cache read into another then both '
            'diverging, keyword arguments overlapping E; plus the two families of the fixed findings: update(**kw) alone, a falsy callable as on_miss; get / setdefault / pop defaults identical to the stored value or to on_miss\'s result), 2448 scripted re-entrant '
            'on_miss scenarios (15 program kinds x 3 result kinds x every kind of lookup, loading max_size+1 keys, refresh, '
            'overflow, copy), 14 (thorough 60) big-'
            'capacity cases with bulk updates of 34-400 pairs, 300 adversarial scripts; (1) exhaustive: all histories of <=2 '
            'calls over a 43-call alphabet on 3 keys x max_size 1-3 x both classes x on_miss none / total / raising, and all '
            'histories of <=2 calls over a 12-call alphabet x 14 re-entrant on_miss programs x max_size 1-2 (8736 cases); (2) 14k '
            '(thorough 60k) sampled 3-5-call histories on pre-filled caches; (3) 1500 (6000) adversarial scripts of 13 kinds; '
            '(4) 8000 (105000) random histories of 4-40 (thorough up to 300) calls (45% of those with an on_miss, and 40% of the '
            'adversarial scripts with one, make it re-entrant with random programs). 3 cases of 4 run on the pointer-level Lean '
            'model of the linked list (C02.hwstep / C02.rhwstep), the others on the ring model (C02.wstep / C02.rwstep). Non-trivial = at least one '
            'eviction happened in the reference cache; distinct = distinct whole case.')
    ASSUMPTIONS = ['keys are hashable with == consistent with hash; values are compared with ==',
                   'on_miss is a deterministic callback: it may call any dict-API method of the cache it was called from (re-entrantly, any nesting depth, any try / except around those calls, any branching on their results in the Lean model - straight-line programs with optional try / except in the generators), may keep state of its own (in the model: any function of the keys it was called with before; in the generators: its call count), then returns a value, raises KeyError or raises another exception (ValueError in the generators); it does not touch OTHER caches',
                   'max_size is an int >= 1 and is not reassigned after construction',
                   'one thread (C03 covers concurrency)',
                   'a failing update(): the statement does not say what remains; the oracle accepts "the pairs received before the exception are assigned" (dict.update, and the model) or "none of them"; update(other_cache): the oracle accepts the source either untouched or looked up once per item (the model: looked up)']
    CORRESPONDENCE_NAME = 'C02.Driver (LRI/LRU pointer-level model C02.hwstep and ring model C02.wstep) vs boltons.cacheutils.LRI/LRU'

    # ------------------------------------------------------------------ generation
    def small_alphabet(self, mx, with_copy):
        """op alphabet for the exhaustive part: 3 keys, cache 0 (and 1 after a copy)"""
        ops = []
        for k in range(3):
            ops += [['set', 0, k, 1 + k], ['getitem', 0, k], ['del', 0, k], ['get', 0, k], ['setdefault', 0, k, 7],
                    ['pop', 0, k], ['pop', 0, k, 8]]
        ops += [['get', 0, 1, 5], ['setdefault', 0, 2], ['pop', 0, 0, 0], ['in', 0, 1], ['ne', 0, 'dict', [[2, 3]]],
                ['popitem', 0], ['clear', 0], ['update', 0, 'dict', [[0, 4], [1, 5], [2, 6]], []],
                ['update', 0, 'list', [[2, 4], [0, 5], [2, 6]], []], ['ior', 0, 'dict', [[1, 9], [2, 9]]],
                ['ior', 0, 'self', []], ['eq', 0, 'dict', [[0, 1], [1, 2]]], ['copy', 0]]
        # round 2: a failing iterable, a non-mapping operand of ==, a mapping object + overlapping keyword arguments
        ops += [['update', 0, 'fail', [[1, 4], [0, 5]], []], ['eq', 0, 'other', 0],
                ['update', 0, 'map', [[1, 3]], [[1, 7], [0, 8]]]]
        if with_copy:
            ops += [['set', 1, 2, 9], ['getitem', 1, 0], ['eq', 0, 'cache', 1], ['popitem', 1]]
            ops += [['ior', 0, 'cache', 1], ['update', 1, 'cache', 0, [[2, 2]]]]
        return ops

    def probe(self, case, extra=0, limit=None):
        """append fresh inserts into every cache so that the eviction order becomes visible (max_size of them
        evict everything that was there, in order; one more also evicts through a link that was left behind
        in the ring by a removal)"""
        n_caches = 1 + sum(1 for op in case['ops'] if op[0] == 'copy')
        nk = case['nk']
        ops = list(case['ops'])
        n = case['max'] + extra if limit is None else min(limit, case['max'] + extra)
        for i in range(n_caches):
            for j in range(n):
                ops.append(['set', i, nk + j, 50 + j])
        return dict(case, ops=ops, nk=nk + n)

    def normalize(self, case):
        """drop ops that refer to caches that do not exist (after shrinking removed a copy)"""
        n = 1
        ops = []
        for op in case['ops']:
            idx = [op[1]] + ([op[3]] if op[0] in ('eq', 'ne', 'update', 'ior') and op[2] == 'cache' else [])
            if any(i >= n for i in idx):
                continue
            if op[0] == 'copy':
                if n >= 4:
                    continue
                n += 1
            if op[0] == 'update' and op[4] and case['km'] != 's':
                op = op[:4] + [[]]      # keyword arguments exist for string keys only
            ops.append(op)
        return dict(case, ops=ops)

    def configs(self, maxes):
        for cls in ('LRI', 'LRU'):
            for mx in maxes:
                for om in (None, [2, 1], [2, 1, [0], [2]]):
                    yield cls, mx, om

    def cases(self, budget_s):
        rng = self.rng
        # (0) small scripted scenarios (unusual-but-legal inputs, multi-step interplay, several caches), big sizes
        for c in self.scripted():
            yield c
        for c in self.reentrant_scripted():
            yield c
        for c in self.big_cases(rng, 60 if self.thorough else 14):
            yield c
        for c in self.adversarial(rng, 300):
            yield c
        # (1) exhaustive: every history of <= 2 calls, every config
        for cls, mx, om in self.configs((1, 2, 3)):
            alpha = self.small_alphabet(mx, True)
            base = {'cls': cls, 'max': mx, 'om': om, 'km': 's', 'nk': 3, 'init': None}
            for n in (0, 1, 2):
                for hist in itertools.product(alpha, repeat=n):
                    yield self.probe(self.normalize(dict(base, ops=[list(o) for o in hist])))
        # (1b) the same for a re-entrant on_miss: every program kind, <= 2 calls
        for c in self.reentrant_small():
            yield c
        # (2) sampled from the space of 3..4(5)-call histories, pre-filled caches
        n_samp = 60000 if self.thorough else 14000
        for _ in range(n_samp):
            cls, mx, om = rng.choice(('LRI', 'LRU')), rng.choice((1, 2, 2, 3)), rng.choice((None, None, [2, 1], [2, 1, [1], [0]], [1, 0, [0, 1, 2], []]))
            alpha = self.small_alphabet(mx, True)
            n = rng.choice((3, 4, 5) if self.thorough else (3, 4))
            init = rng.choice([None, [[0, 1]], [[1, 2], [0, 3]], [[2, 1], [1, 1], [0, 1]]])
            hist = [list(rng.choice(alpha)) for _ in range(n)]
            yield self.probe(self.normalize({'cls': cls, 'max': mx, 'om': om, 'km': rng.choice('sn'), 'nk': 3,
                                             'init': init, 'ops': hist}))
        # (3) adversarial scripts
        for c in self.adversarial(rng, 6000 if self.thorough else 1500):
            yield c
        # (4) random long histories
        n_rand = 105000 if self.thorough else 8000
        for i in range(n_rand):
            yield self.random_case(rng, big=self.thorough and i % 8 == 0)

    def deep_cases(self, budget_s):
        rng = self.rng
        for c in self.scripted():
            yield c
        for c in self.reentrant_scripted():
            yield c
        for c in self.reentrant_small():
            yield c
        for c in self.big_cases(rng, 40):
            yield c
        for cls, mx, om in self.configs((1, 2, 3)):
            alpha = self.small_alphabet(mx, True)
            base = {'cls': cls, 'max': mx, 'om': om, 'km': 's', 'nk': 3, 'init': None}
            for hist in itertools.product(alpha, repeat=3):
                if rng.random() < 0.15:
                    yield self.probe(self.normalize(dict(base, ops=[list(o) for o in hist])))
        for c in self.adversarial(rng, 2000):
            yield c
        while True:
            yield self.random_case(rng, big=rng.random() < 0.2)

    def rand_pairs(self, rng, nk, unique, lo=0, hi=4):
        n = rng.randint(lo, hi)
        ps = [[rng.randrange(nk), rng.randint(0, 9)] for _ in range(n)]
        return dedup(ps) if unique else ps

    def random_case(self, rng, big=False):
        cls = rng.choice(('LRI', 'LRU'))
        mx = rng.choice((1, 2, 3, 4, 5)) if not big else rng.choice((3, 5, 8))
        nk = mx + rng.choice((1, 2, 3))
        km = rng.choice('ssnx')
        om = rng.choice((None, None, [rng.randint(0, 3), rng.randint(0, 3)], 'raise'))
        if om == 'raise':
            ke = [k for k in range(nk + mx) if rng.random() < 0.3]
            ve = [k for k in range(nk + mx) if k not in ke and rng.random() < 0.15]
            om = [rng.randint(0, 3), rng.randint(0, 3), ke, ve]
        nops = rng.randint(4, 40) if not big else rng.randint(40, 300)
        init = None if rng.random() < 0.6 else self.rand_pairs(rng, nk, rng.random() < 0.5, 0, mx + 2)
        ops = []
        n = 1
        hot = rng.randrange(nk)

        def key():
            return hot if rng.random() < 0.25 else rng.randrange(nk)
        for _ in range(nops):
            i = rng.randrange(n)
            r = rng.random()
            if r < 0.22:
                ops.append(['set', i, key(), rng.randint(0, 9)])
            elif r < 0.36:
                ops.append(['getitem', i, key()])
            elif r < 0.44:
                ops.append(['get', i, key()] + ([rng.randint(0, 9)] if rng.random() < 0.5 else []))
            elif r < 0.52:
                ops.append(['setdefault', i, key()] + ([rng.randint(0, 9)] if rng.random() < 0.7 else []))
            elif r < 0.58:
                ops.append(['del', i, key()])
            elif r < 0.64:
                ops.append(['pop', i, key()] + ([rng.randint(0, 9)] if rng.random() < 0.5 else []))
            elif r < 0.68:
                ops.append(['popitem', i])
            elif r < 0.70:
                ops.append(['clear', i])
            elif r < 0.78:
                kind = rng.choice(('dict', 'list', 'iter', 'self', 'map', 'cache', 'dict', 'list', 'iter', 'fail', 'bad'))
                kw = self.rand_pairs(rng, nk, True, 0, 2) if km == 's' and rng.random() < 0.4 else []
                arg = [] if kind == 'self' else rng.randrange(n) if kind == 'cache' else \
                    self.rand_pairs(rng, nk, kind in DEDUP_KINDS, 0, mx + 2)
                ops.append(['update', i, kind, arg, kw])
            elif r < 0.84:
                kind = rng.choice(('dict', 'list', 'iter', 'self', 'map', 'cache', 'dict', 'list', 'iter', 'fail', 'bad'))
                arg = [] if kind == 'self' else rng.randrange(n) if kind == 'cache' else \
                    self.rand_pairs(rng, nk, kind in DEDUP_KINDS, 0, mx + 2)
                ops.append(['ior', i, kind, arg])
            elif r < 0.88:
                if n < 3:
                    ops.append(['copy', i])
                    n += 1
                else:
                    ops.append(['len', i])
            elif r < 0.91:
                ops.append([rng.choice(('in', 'in', 'len', 'iter')), i] + [])
                if ops[-1][0] == 'in':
                    ops[-1].append(key())
            else:
                name = rng.choice(('eq', 'eq', 'ne'))
                z = rng.random()
                if z < 0.4:
                    ops.append([name, i, 'cache', rng.randrange(n)])
                elif z < 0.5:
                    ops.append([name, i, 'other', rng.randrange(N_OTHERS)])
                else:
                    ops.append([name, i, 'dict', None])   # filled in below with (a variation of) the current contents
        case = {'cls': cls, 'max': mx, 'om': om, 'km': km, 'nk': nk, 'init': init, 'ops': ops}
        if om is not None and rng.random() < 0.45:
            case['prog'] = self.random_prog(rng, nk, mx)
            case['depth'] = rng.choice((1, 2, 3, 3))
            if rng.random() < 0.4:
                case['st'] = rng.choice((1, 2, 5))
        if init is not None and rng.random() < 0.5:
            case['ik'] = rng.choice(('dict', 'iter', 'map'))
        self.fill_eq(case, rng)
        return self.probe(case, extra=rng.choice((0, 1)))

    def fill_eq(self, case, rng):
        """replace the placeholder operand of ==/!= by the reference contents at that point, sometimes perturbed
        (same length, different value / key), so that the equal-length paths are exercised"""
        refs = self.ref_run(case, upto_placeholders=True, rng=rng)
        return refs

    def adversarial(self, rng, n):
        for _ in range(n):
            cls = rng.choice(('LRI', 'LRU'))
            mx = rng.randint(1, 4)
            km = rng.choice('sn')
            nk = mx + 3
            om = rng.choice((None, None, [1, 1], [1, 1, [k for k in range(nk) if rng.random() < 0.4], [rng.randrange(nk)]]))
            order = list(range(nk))
            rng.shuffle(order)
            fill = order[:mx]
            ops = [['set', 0, k, 1 + k] for k in fill]
            kind = rng.randrange(13)
            victim = rng.choice(fill)
            fresh = order[mx]
            if kind == 0:      # re-assign an old key, then overflow
                ops += [['set', 0, victim, 9], ['set', 0, fresh, 3]]
            elif kind == 1:    # look an old key up in every way, then overflow
                ops += [[rng.choice(LOOKUPS), 0, victim], ['in', 0, victim], ['set', 0, fresh, 3]]
            elif kind == 2:    # |= / update overflowing the capacity, with duplicates
                ps = [[k, 2] for k in order[mx:]] + [[victim, 5]] + [[k, 3] for k in order[mx:mx + 1]]
                k2 = rng.choice(('dict', 'list', 'iter'))
                ops += [[rng.choice(('ior', 'update')), 0, k2, dedup(ps) if k2 == 'dict' else ps]]
                if ops[-1][0] == 'update':
                    ops[-1].append([])
            elif kind == 3:    # copy after reordering, then diverge
                ops += [['set', 0, victim, 9], [rng.choice(LOOKUPS), 0, rng.choice(fill)], ['copy', 0],
                        ['eq', 0, 'cache', 1], ['set', 1, fresh, 3], ['ne', 0, 'cache', 1], ['set', 0, order[mx + 1], 4],
                        ['getitem', 1, victim], ['eq', 1, 'cache', 0]]
            elif kind == 4:    # remove in the middle, refill
                ops += [[rng.choice(('del', 'pop')), 0, victim], ['set', 0, fresh, 3], ['set', 0, order[mx + 1], 4],
                        ['popitem', 0], ['set', 0, victim, 5], ['set', 0, order[mx + 2], 6]]
            elif kind == 5:    # == against dicts of the same length
                cur = [[k, 1 + k] for k in fill]
                other = [list(p) for p in cur]
                if other and rng.random() < 0.6:
                    other[rng.randrange(len(other))][rng.randrange(2)] += rng.choice((7, 11))
                rng.shuffle(other)
                ops += [[rng.choice(('eq', 'ne')), 0, 'dict', other], ['eq', 0, 'dict', cur], ['eq', 0, 'cache', 0]]
            elif kind == 6:    # clear / self-update in between
                ops += [['update', 0, 'self', [], [[fresh, 1]] if km == 's' else []], ['ior', 0, 'self', []],
                        ['clear', 0], ['set', 0, fresh, 1], ['getitem', 0, victim]]
            elif kind == 7:    # setdefault / get on absent keys when full
                ops += [['setdefault', 0, fresh, 4], ['get', 0, order[mx + 1], 5], ['setdefault', 0, fresh],
                        ['get', 0, victim], ['pop', 0, order[mx + 2], 1]]
            elif kind == 8:    # copy of a copy, popitem order
                ops += [['getitem', 0, victim], ['copy', 0], ['copy', 1], ['popitem', 2], ['set', 2, fresh, 1],
                        ['set', 2, order[mx + 1], 1], ['eq', 2, 'cache', 0]]
            elif kind == 9:    # reorder, then update / |= with exactly the current contents (in the old order)
                cur = [[k, 1 + k] for k in fill]
                k2 = rng.choice(('dict', 'list', 'iter', 'map'))
                ops += [rng.choice((['set', 0, victim, 1 + victim], [rng.choice(LOOKUPS), 0, victim])),
                        [rng.choice(('ior', 'update')), 0, k2, cur]]
                if ops[-1][0] == 'update':
                    ops[-1].append([])
            elif kind == 10:   # equal contents in a different dict order: == between caches, == with non-mappings
                ops += [['copy', 0], [rng.choice(('pop', 'del')), 1, victim], ['set', 1, victim, 1 + victim],
                        ['eq', 0, 'cache', 1], ['ne', 1, 'cache', 0], ['eq', 0, 'other', rng.randrange(N_OTHERS)],
                        ['ne', 1, 'other', rng.randrange(N_OTHERS)], ['set', 1, victim, 9], ['eq', 1, 'cache', 0]]
            elif kind == 11:   # one cache read into another (update / |=), then both diverge
                ops += [rng.choice((['set', 0, victim, 9], [rng.choice(LOOKUPS), 0, victim])), ['copy', 0],
                        rng.choice((['clear', 1], ['set', 1, fresh, 3], ['popitem', 1])),
                        rng.choice((['ior', 1, 'cache', 0], ['update', 1, 'cache', 0, [[fresh, 4]] if km == 's' else []],
                                    ['ior', 0, 'cache', 1], ['update', 0, 'cache', 0, []])),
                        ['set', 0, order[mx + 1], 4], ['set', 1, order[mx + 2], 5], ['eq', 0, 'cache', 1]]
            else:              # an update that fails half-way, a removed None value, then overflow
                ps = [[k, rng.randint(0, 3)] for k in order[mx - 1:mx + 2]]
                ops += [[rng.choice(('ior', 'update')), 0, rng.choice(('fail', 'bad')), ps], ['set', 0, victim, 0],
                        rng.choice((['pop', 0, victim], ['pop', 0, victim, 4], ['del', 0, victim])), ['len', 0]]
                if ops[mx][0] == 'update':
                    ops[mx].append([])
            init = None
            if rng.random() < 0.3:
                init, ops = [[op[2], op[3]] for op in ops[:mx]], ops[mx:]
            case = {'cls': cls, 'max': mx, 'om': om, 'km': km, 'nk': nk, 'init': init, 'ops': ops}
            if om is not None and rng.random() < 0.4:
                case['prog'] = rng.choice(self.prog_kinds(nk))[1] if rng.random() < 0.6 else self.random_prog(rng, nk, 0)
            yield self.probe(self.normalize(case), extra=1)

    def scripted(self):
        """small deterministic scenarios aimed at unusual-but-legal inputs and multi-step interplay"""
        out = []

        def add(cls, mx, om, km, nk, init, ops, **extra):
            c = {'cls': cls, 'max': mx, 'om': om, 'km': km, 'nk': nk, 'init': init, 'ops': [list(o) for o in ops]}
            c.update(extra)
            out.append(self.probe(self.normalize(c), extra=1))

        for cls in ('LRI', 'LRU'):
            for mx in (1, 2, 3):
                nk = mx + 3
                fill = [['set', 0, k, 1 + k] for k in range(mx)]
                cur = [[k, 1 + k] for k in range(mx)]
                for km in ('s', 'n', 'x'):
                    # on_miss whose result is None (falsy), alone and with raising keys
                    for om in ([0, 0], [1, 0], [0, 0, [1], [2]]):
                        for look in LOOKUPS:
                            add(cls, mx, om, km, nk, None, [[look, 0, 0], [look, 0, 0], ['getitem', 0, 1], ['get', 0, 2, 5],
                                                            ['setdefault', 0, 0, 3], ['in', 0, 0], ['len', 0]])
                    # a stored None is a value like any other
                    for look in (['get', 0, 0, 5], ['setdefault', 0, 0, 5], ['pop', 0, 0, 5], ['get', 0, 0], ['getitem', 0, 0]):
                        add(cls, mx, None, km, nk, None, [['set', 0, 0, 0], look, ['in', 0, 0], ['get', 0, 0, 7]])
                        add(cls, mx, None, km, nk, [[0, 0]], [look, ['set', 0, 1, 0], ['setdefault', 0, 1, 4]])
                    # pop(k, d) where d is the very object stored under k (seeded C02-2): the key must be gone afterwards
                    for val in (0, 5):
                        add(cls, mx, None, km, nk, None, fill[1:] + [['set', 0, 0, val], ['pop', 0, 0, val], ['get', 0, 0, 7], ['in', 0, 0]])
                        add(cls, mx, [2, 1], km, nk, [[0, val]], [['pop', 0, 0, val], ['pop', 0, 0, val], ['getitem', 0, 0]])
                    # get / setdefault whose default is the very object stored under the key, or the very object
                    # on_miss returns: found is a hit (no soft miss), answered by on_miss is a miss (no soft miss)
                    for val in (0, 5):
                        add(cls, mx, None, km, nk, None, fill[1:] + [['set', 0, 0, val], ['get', 0, 0, val], ['setdefault', 0, 0, val],
                                                                     ['get', 0, mx + 1, val], ['setdefault', 0, mx + 1, val],
                                                                     ['get', 0, mx + 1, val], ['pop', 0, mx + 1, val], ['in', 0, mx + 1]])
                        add(cls, mx, [0, val], km, nk, None, [['get', 0, 0, val], ['setdefault', 0, 1, val], ['get', 0, 0, val],
                                                              ['pop', 0, 0, val], ['get', 0, 0, val], ['len', 0]])
                    # a key whose value is None removed in every way (as newest / as oldest key), then overflow
                    for rm in (['pop', 0, 0], ['pop', 0, 0, 5], ['del', 0, 0], ['popitem', 0]):
                        add(cls, mx, None, km, nk, None, fill[1:] + [['set', 0, 0, 0], rm])
                        add(cls, mx, None, km, nk, None, [['setdefault', 0, 0]] + fill[1:] + [rm, ['set', 0, 0, 2]])
                    # lookups while the cache is not full yet must count for the later eviction order (LRU)
                    for look in LOOKUPS + ('in',):
                        add(cls, mx, None, km, nk, None, fill[:-1] + [[look, 0, 0]])
                        add(cls, mx, [2, 1], km, nk, cur[:-1], [[look, 0, 0], ['set', 0, mx, 9], [look, 0, 0]])
                    # reorder, then update / |= with exactly the current contents in the old order: every key is re-assigned
                    for reorder in (['set', 0, 0, 1], ['getitem', 0, 0], ['get', 0, 0], ['setdefault', 0, 0, 9]):
                        for kind in ('dict', 'list', 'iter', 'map'):
                            add(cls, mx, None, km, nk, None, fill + [reorder, ['ior', 0, kind, cur]])
                            add(cls, mx, None, km, nk, cur, [reorder, ['update', 0, kind, list(reversed(cur)), []]])
                    # equal contents, different dict order; operands of == that are not mappings
                    add(cls, mx, None, km, nk, None, fill + [['copy', 0], ['pop', 1, 0], ['set', 1, 0, 1], ['eq', 0, 'cache', 1],
                                                             ['ne', 0, 'cache', 1], ['eq', 1, 'cache', 0], ['eq', 0, 'dict', list(reversed(cur))]]
                        + [[n, 0, 'other', j] for j in range(N_OTHERS) for n in ('eq', 'ne')])
                    add(cls, mx, None, km, nk, None, [['eq', 0, 'other', 4], ['ne', 0, 'other', 0], ['eq', 0, 'dict', []], ['ne', 0, 'dict', []]])
                    # constructor values passed as list / dict / one-shot iterator / mapping object (with duplicates, empty)
                    for ik in ('list', 'dict', 'iter', 'map'):
                        for init in ([[0, 1], [1, 2], [0, 3], [2, 4]], [], [[1, 0]], [[k, 2] for k in range(mx + 2)]):
                            add(cls, mx, None, km, nk, init, [['getitem', 0, 0], ['len', 0], ['copy', 0]], ik=ik)
                    # update / |= with every kind of argument, overflowing, with duplicates
                    for kind in ('dict', 'list', 'iter', 'map', 'fail', 'bad'):
                        ps = [[0, 1], [1, 2], [2, 3], [0, 4], [3, 5]]
                        add(cls, mx, None, km, nk, None, [['update', 0, kind, ps, []], ['len', 0], ['getitem', 0, 0]])
                        add(cls, mx, None, km, nk, None, fill + [['ior', 0, kind, ps[2:]], ['ior', 0, kind, []], ['getitem', 0, 3]])
                        add(cls, mx, [1, 1], km, nk, None, [['getitem', 0, 1], ['ior', 0, kind, ps[:mx]], ['update', 0, kind, ps[1:], []]])
                    # one cache read into another
                    for reorder in (['set', 0, 0, 9], ['getitem', 0, 0], ['len', 0]):
                        for prep in (['clear', 1], ['set', 1, mx, 3], ['popitem', 1], ['len', 1]):
                            for upd in (['ior', 1, 'cache', 0], ['update', 1, 'cache', 0, []], ['ior', 0, 'cache', 1],
                                        ['update', 0, 'cache', 0, []], ['ior', 1, 'cache', 1]):
                                add(cls, mx, None, km, nk, None, fill + [reorder, ['copy', 0], prep, upd, ['set', 0, mx + 1, 4],
                                                                         ['eq', 0, 'cache', 1]])
                    add(cls, mx, [2, 1], km, nk, None, fill + [['copy', 0], ['copy', 1], ['del', 1, 0], ['ior', 2, 'cache', 1],
                                                               ['ior', 1, 'cache', 2], ['update', 0, 'cache', 2, []], ['getitem', 1, 0]])
                # keyword arguments of update: after E, overlapping E (string keys only)
                for kind in ('dict', 'list', 'iter', 'map', 'self'):
                    arg = [] if kind == 'self' else [[0, 7], [mx, 8]]
                    add(cls, mx, None, 's', nk, None, fill + [['update', 0, kind, arg, [[mx, 9], [0, 6], [mx + 1, 5]]], ['getitem', 0, 0]])
                    add(cls, mx, None, 's', nk, None, [['update', 0, kind, [] if kind == 'self' else [[1, 1]], [[1, 2], [0, 3]]], ['getitem', 0, 1]])
                add(cls, mx, None, 's', nk, None, fill + [['copy', 0], ['update', 1, 'cache', 0, [[0, 6], [mx, 5]]], ['getitem', 1, 0]])
                # --- two formerly oracle-only families (fixed findings): update(**kw) without a positional argument; a falsy callable as on_miss
                add(cls, mx, None, 's', nk, None, fill[:1] + [['update', 0, 'none', [], [[0, 5], [1, 2]]], ['getitem', 0, 0]])
                for look in LOOKUPS:
                    add(cls, mx, [2, 1], 's', nk, None, [[look, 0, 0], [look, 0, 0], ['len', 0]], omk='falsy')
        return out

    # ------------------------------------------------------------------ re-entrant on_miss
    @staticmethod
    def prog_kinds(nk):
        """on_miss programs, one per key: what a loader may do to the cache that is waiting for its result"""
        def table(f):
            return {str(k): [list(a) for a in f(k)] for k in range(nk)}
        n1 = lambda k: (k + 1) % nk
        n2 = lambda k: (k + 2) % nk
        return [
            ('self', table(lambda k: [['set', 0, k, 9]])),                       # self-priming loader (seeded C02-8)
            ('next', table(lambda k: [['set', 0, n1(k), 4]])),                   # prefetches a neighbour
            ('self_del', table(lambda k: [['set', 0, k, 9], ['del', 0, k]])),
            ('pop_next', table(lambda k: [['pop', 0, n1(k), 0], ['in', 0, k]])),
            ('prime_then_raise', table(lambda k: [['set', 0, k, 9], ['del', 0, n1(k)]])),   # KeyError if the neighbour is absent
            ('clear', table(lambda k: [['set', 0, n1(k), 3], ['clear', 0], ['len', 0]])),
            ('get_next', table(lambda k: [['getitem', 0, n1(k)]])),               # nested misses down to the depth guard
            ('soft_next', table(lambda k: [['get', 0, n1(k), 5], ['setdefault', 0, n2(k), 6]])),
            ('fill', table(lambda k: [['update', 0, 'list', [[j, 1 + j] for j in range(nk)], []]])),
            ('self_hit', table(lambda k: [['set', 0, k, 9], ['getitem', 0, k], ['get', 0, k, 9]])),
            ('guarded', table(lambda k: [['?del', 0, n1(k)], ['set', 0, k, 9], ['?getitem', 0, n2(k)], ['?pop', 0, n2(k)]])),   # try / except around its calls
            ('observe', table(lambda k: [['in', 0, k], ['len', 0], ['iter', 0], ['?popitem', 0], ['eq', 0, 'dict', [[n1(k), 4]]],
                                         ['set', 0, n1(k), 4], ['in', 0, n1(k)], ['?getitem', 0, n1(k)], ['popitem', 0]])),   # looks at the cache in between
            ('branching', table(lambda k: [['if_not_in', 0, n1(k), ['set', 0, n1(k), 4]], ['if_in', 0, n2(k), ['?del', 0, n2(k)]],
                                           ['if_in', 0, k, ['set', 0, k, 8]], ['if_not_in', 0, n2(k), ['getitem', 0, n2(k)]]])),   # decides by what it sees
            ('only0', {'0': [['set', 0, 0, 9], ['set', 0, 1, 8]]}),              # other keys: an ordinary loader
            ('empty', {}),                                                       # no acts at all: must equal the plain on_miss
        ]

    def reentrant_scripted(self):
        out = []
        for cls in ('LRI', 'LRU'):
            for mx in (1, 2, 3):
                nk = mx + 2
                for name, prog in self.prog_kinds(nk):
                    for om in ([2, 1], [2, 1, [0], [nk - 1]], [0, 0]):
                        for km in ('s', 'n'):
                            for depth in ((1, 3) if name in ('get_next', 'soft_next') else (3,)):
                                base = {'cls': cls, 'max': mx, 'om': om, 'km': km, 'nk': nk, 'init': None, 'prog': prog,
                                        'depth': depth}
                                if km == 'n' and name in ('self', 'get_next', 'guarded', 'empty', 'clear'):
                                    base['st'] = 3        # a callback with state: the value depends on its call count
                                # load every key through every kind of lookup, refresh the first, insert one more
                                for look in LOOKUPS:
                                    ops = [[look, 0, k] for k in range(mx + 1)]
                                    ops += [['getitem', 0, 0] if cls == 'LRU' else ['set', 0, 0, 1], ['set', 0, mx + 1, 2],
                                            [look, 0, 1], ['len', 0]]
                                    out.append(self.probe(dict(base, ops=ops), extra=1))
                                # pre-filled cache: a miss on a full cache whose loader touches the oldest / newest key
                                init = [[k, 1 + k] for k in range(1, mx + 1)]
                                out.append(self.probe(dict(base, init=init, ops=[['getitem', 0, 0], ['get', 0, mx + 1, 5],
                                                                                 ['setdefault', 0, 0, 7], ['copy', 0],
                                                                                 ['getitem', 1, mx + 1], ['eq', 0, 'cache', 1]]),
                                                      extra=1))
        return out

    def reentrant_small(self):
        """every history of <= 2 calls over a 12-call alphabet, every program kind"""
        for cls in ('LRI', 'LRU'):
            for mx in (1, 2):
                alpha = []
                for k in range(3):
                    alpha += [['getitem', 0, k], ['get', 0, k, 9], ['setdefault', 0, k, 9]]
                alpha += [['set', 0, 0, 9], ['del', 0, 1], ['pop', 0, 2, 9]]
                for name, prog in self.prog_kinds(3):
                    if name == 'empty':
                        continue
                    for om in ([2, 1, [1], [2]],):      # key 0 is answered, 1 raises KeyError, 2 raises ValueError
                        base = {'cls': cls, 'max': mx, 'om': om, 'km': 's', 'nk': 3, 'init': None, 'prog': prog}
                        for n in (1, 2):
                            for hist in itertools.product(alpha, repeat=n):
                                yield self.probe(dict(base, ops=[list(o) for o in hist]))

    def random_prog(self, rng, nk, mx):
        prog = {}
        for k in range(nk + mx):
            if rng.random() < 0.6:
                acts = []
                for _ in range(rng.choice((1, 1, 2, 3))):
                    t = k if rng.random() < 0.4 else rng.randrange(nk)
                    r = rng.random()
                    if r < 0.35:
                        acts.append(['set', 0, t, rng.randint(0, 9)])
                    elif r < 0.5:
                        acts.append([rng.choice(LOOKUPS), 0, t] + ([rng.randint(0, 9)] if rng.random() < 0.5 else []))
                        if acts[-1][0] == 'getitem':
                            acts[-1] = acts[-1][:3]
                    elif r < 0.62:
                        acts.append(['pop', 0, t] + ([rng.randint(0, 9)] if rng.random() < 0.7 else []))
                    elif r < 0.7:
                        acts.append(['del', 0, t])
                    elif r < 0.75:
                        acts.append(['clear', 0])
                    elif r < 0.88:
                        acts.append([rng.choice(('update', 'ior')), 0, rng.choice(('dict', 'list')),
                                     self.rand_pairs(rng, nk, False, 0, mx + 1)])
                        if acts[-1][0] == 'update':
                            acts[-1].append([])
                        if acts[-1][2] == 'dict':
                            acts[-1][3] = dedup(acts[-1][3])
                    else:
                        acts.append(rng.choice((['in', 0, t], ['len', 0], ['popitem', 0], ['iter', 0],
                                                [rng.choice(('eq', 'ne')), 0, 'dict', self.rand_pairs(rng, nk, True, 0, 2)])))
                    if rng.random() < 0.25:
                        acts[-1][0] = '?' + acts[-1][0]       # the callback catches whatever this call raises
                    if rng.random() < 0.15:                   # ... or makes it depend on a membership test
                        acts[-1] = [rng.choice(('if_in', 'if_not_in')), 0, rng.randrange(nk), acts[-1]]
                prog[str(k)] = acts
        return prog

    def big_cases(self, rng, n):
        """capacities around and above DEFAULT_MAX_SIZE, bulk updates of tens to hundreds of pairs"""
        for _ in range(n):
            cls = rng.choice(('LRI', 'LRU'))
            mx = rng.choice((33, 64, 127, 128, 129, 200))
            nk = mx + 60
            om = rng.choice((None, None, [1, 1]))
            ops = []
            n_c = 1
            for _step in range(rng.randint(3, 7)):
                i = rng.randrange(n_c)
                z = rng.random()
                if z < 0.55:
                    kind = rng.choice(('dict', 'list', 'iter', 'map', 'list'))
                    cnt = rng.choice((34, 40, mx - 1, mx, mx + 1, mx + 30, 2 * mx + 7))
                    lo = rng.randrange(nk)
                    ps = [[(lo + j * rng.choice((1, 1, 1, 3))) % nk, rng.randint(0, 9)] for j in range(cnt)]
                    if kind in ('list', 'iter') and rng.random() < 0.5:
                        ps += [list(rng.choice(ps)) for _ in range(5)]
                    ps = dedup(ps) if kind in DEDUP_KINDS else ps
                    ops.append([rng.choice(('update', 'ior')), i, kind, ps])
                    if ops[-1][0] == 'update':
                        ops[-1].append([[k, 1] for k in range(3)] if rng.random() < 0.3 else [])
                elif z < 0.75:
                    ops += [[rng.choice(LOOKUPS), i, rng.randrange(nk)] for _ in range(rng.randint(1, 20))]
                elif z < 0.85 and n_c < 3:
                    ops.append(['copy', i])
                    n_c += 1
                elif z < 0.92 and n_c > 1:
                    ops.append([rng.choice(('ior', 'update')), i, 'cache', rng.randrange(n_c)])
                    if ops[-1][0] == 'update':
                        ops[-1].append([])
                else:
                    ops += [[rng.choice(('del', 'pop')), i, rng.randrange(nk)] for _ in range(rng.randint(1, 10))]
            init = None
            if rng.random() < 0.4:
                init = [[k, 1 + k % 9] for k in range(rng.choice((mx - 2, mx, mx + 5)))]
            case = {'cls': cls, 'max': mx, 'om': om, 'km': 's', 'nk': nk, 'init': init, 'ops': ops}
            if init is not None:
                case['ik'] = rng.choice(('list', 'dict', 'iter', 'map'))
            if om is not None and rng.random() < 0.6:
                # a re-entrant loader at big capacities: self-priming / prefetching / dropping a neighbour / soft lookups
                kinds = dict(self.prog_kinds(nk))
                case['prog'] = kinds[rng.choice(('self', 'next', 'pop_next', 'soft_next', 'guarded'))]
            yield self.probe(self.normalize(case), limit=8)

    # ------------------------------------------------------------------ predicates of the (now fixed) findings
    def _passes(self, case):
        self._quiet = True
        try:
            return self.ref_run(case, self.impl(case)) is None
        finally:
            self._quiet = False

    def finding_falsy_on_miss(self, case, failure):
        """the failing case uses a callable on_miss whose truth value is False, and the same history with an
        ordinary function computing the same values passes"""
        if case.get('omk') != 'falsy':
            return False
        return self._passes({k: v for k, v in case.items() if k != 'omk'})

    def finding_update_requires_positional(self, case, failure):
        """the failing call is update(**kw) without a positional argument raising TypeError, and the same history
        with update({}, **kw) in its place passes"""
        si = getattr(failure, 'si', None)
        if si is None or si >= len(case['ops']):
            return False
        op = case['ops'][si]
        if not (op[0] == 'update' and op[2] == 'none' and failure.tag == 'raises' and 'TypeError' in failure.what):
            return False
        ops = [(o[:2] + ['dict'] + o[3:]) if o[0] == 'update' and o[2] == 'none' else o for o in case['ops']]
        return self._passes(dict(case, ops=ops))

    # ------------------------------------------------------------------ model line
    @staticmethod
    def om_txt(om):
        if om is None:
            return '-'
        if len(om) == 2:
            return '%d,%d' % tuple(om)
        return '%d,%d/%s/%s' % (om[0], om[1], '.'.join(map(str, om[2])) or '-', '.'.join(map(str, om[3])) or '-')

    @staticmethod
    def op_tok(op):
        """one call as a driver token (None: outside the model)"""
        name, i = op[0], op[1]
        a = op[2:]
        if name == 'set':
            return 's:%d:%d:%d' % (i, a[0], a[1])
        if name == 'getitem':
            return 'g:%d:%d' % (i, a[0])
        if name == 'del':
            return 'd:%d:%d' % (i, a[0])
        if name == 'get':
            return 'G:%d:%d:%d' % (i, a[0], a[1] if len(a) > 1 else 0)
        if name == 'setdefault':
            return 'D:%d:%d:%d' % (i, a[0], a[1] if len(a) > 1 else 0)
        if name in ('update', 'ior'):
            kind, ps = a[0], a[1]
            if kind == 'none':
                arg = 'P:-'    # update(**kw) without a positional argument: E defaults to ()
            elif kind == 'self':
                arg = 'S'
            elif kind == 'cache':
                arg = 'C:%d' % ps
            elif kind in ('fail', 'bad'):
                arg = 'F:' + pairs_txt(ps)
            else:
                arg = 'P:' + pairs_txt(dedup(ps) if kind in DEDUP_KINDS else ps)
            if name == 'update':
                return 'u:%d:%s:%s' % (i, arg, pairs_txt(dedup(a[2])))
            return 'o:%d:%s' % (i, arg)
        if name == 'pop':
            return 'p:%d:%s' % (i, ':'.join(str(x) for x in a))
        if name == 'popitem':
            return 'P:%d' % i
        if name == 'clear':
            return 'c:%d' % i
        if name == 'copy':
            return 'C:%d' % i
        if name == 'in':
            return 'i:%d:%d' % (i, a[0])
        if name == 'len':
            return 'l:%d' % i
        if name == 'iter':
            return 't:%d' % i
        if name in ('eq', 'ne'):
            t = 'e' if name == 'eq' else 'n'
            if a[0] == 'cache':
                return '%s:%d:C:%d' % (t, i, a[1])
            if a[0] == 'other':
                return '%s:%d:O' % (t, i)
            return '%s:%d:P:%s' % (t, i, pairs_txt(dedup(a[1])))
        return None

    def line(self, case):
        # ('omk': 'falsy' - a callable whose truth value is False - is an on_miss like any other since fix 358a3f4)
        init = case['init'] or []
        if (case.get('ik') or 'list') in DEDUP_KINDS:
            init = dedup(init)
        om = self.om_txt(case['om'])
        if case.get('prog') is not None and case['om'] is not None:
            # re-entrant on_miss: a,b/ke/ve/k=act+act~k=act/depth  (acts are op tokens on cache number 0)
            if case.get('st'):
                om = '%d,%d,%d' % (case['om'][0], case['om'][1], case['st']) + om[len('%d,%d' % tuple(case['om'][:2])):]
            if len(case['om']) == 2:
                om += '/-/-'
            progs = []
            def act_tok(a):
                if a[0] in ('if_in', 'if_not_in'):
                    t = act_tok(a[3])
                    return None if t is None or a[3][0] in ('if_in', 'if_not_in') else '@%d:%d:%s' % (a[0] == 'if_in', a[2], t)
                if a[0].lstrip('?') not in ACT_NAMES:
                    return None
                t = self.op_tok([a[0].lstrip('?'), 0] + list(a[2:]))
                return None if t is None else ('?' if a[0].startswith('?') else '') + t
            for k in sorted(case['prog'], key=int):
                acts = [act_tok(a) for a in case['prog'][k]]
                if any(t is None for t in acts):
                    return None
                progs.append('%s=%s' % (k, '+'.join(acts) or '-'))
            om += '/%s/%d' % ('~'.join(progs) or '-', case.get('depth', DEFAULT_DEPTH))
        toks = ['1' if case['cls'] == 'LRU' else '0', str(case['max']), om, str(case['nk']),
                pairs_txt(init)]
        for op in case['ops']:
            t = self.op_tok(op)
            if t is None:
                return None
            toks.append(t)
        # three cases out of four are run on the pointer-level model of the linked list (cls 2 / 3: C02.hwstep),
        # the others on the ring model (cls 0 / 1: C02.wstep); the two are proved equivalent and print the same text
        if zlib.crc32(' '.join(toks).encode()) % 4:
            toks[0] = '3' if case['cls'] == 'LRU' else '2'
        return ' '.join(toks)

    # ------------------------------------------------------------------ implementation
    def impl(self, case):
        from boltons import cacheutils
        km = case['km']
        calls = []
        om = None
        if case['om'] is not None:
            a, b = case['om'][:2]
            ke, ve = case['om'][2:] if len(case['om']) > 2 else ([], [])

            prog = case.get('prog')
            max_depth = case.get('depth', DEFAULT_DEPTH)
            st = case.get('st', 0) if prog is not None else 0
            nest = [0]
            ncalls = {}            # id(cache) -> on_miss calls made on it so far (the callback's own state)

            def om(key):
                k = dec_key(km, key)
                calls.append(k)
                earlier = ncalls.get(id(cur[0]), 0)
                ncalls[id(cur[0])] = earlier + 1
                if prog is not None:
                    # re-entrant: the callback uses the cache whose lookup called it before it answers
                    if nest[0] >= max_depth:
                        raise ValueError('on_miss nested too deeply')
                    nest[0] += 1
                    try:
                        def perform(sj, act):
                            guarded = act[0].startswith('?')
                            try:
                                nested.append(do(sj, [act[0].lstrip('?')] + list(act[1:]), cur[0]))
                            except CaseTimeout:
                                raise
                            except Exception as e:
                                nested.append(['exc', exc_name(e)])
                                if not guarded:
                                    raise
                        for j, act in enumerate(prog.get(str(k), ())):
                            sj = cur[1] + 7 * (j + 1)
                            if act[0] in ('if_in', 'if_not_in'):
                                seen = do(sj, ['in', 0, act[2]], cur[0])
                                nested.append(seen)
                                if seen[1] == (act[0] == 'if_in'):
                                    perform(sj + 3, act[3])
                            else:
                                perform(sj, act)
                    finally:
                        nest[0] -= 1
                if k in ke:
                    raise KeyError(key)
                if k in ve:
                    raise ValueError(key)
                return enc_val(a * k + b + st * earlier) if isinstance(k, int) else None
            if case.get('omk') == 'falsy':
                om = FalsyCallable(om)
        recs = []
        world = []
        nested = []                # results of the calls on_miss made during the current step, in completion order
        cur = [None, 0]            # the cache the running top-level call is made on, and its step number
        nk = case['nk']

        def ek(k, salt):
            return enc_key(km, k, salt)

        def mk_pairs(ps, salt):
            return [(ek(k, salt + j), enc_val(v)) for j, (k, v) in enumerate(ps)]

        def dump(c):
            try:
                items = list(c.items())
                return {'items': [[dec_key(km, k), dec_val(v)] for k, v in items],
                        'keys': [dec_key(km, k) for k in c.keys()],
                        'values': [dec_val(v) for v in c.values()],
                        'iter': [dec_key(km, k) for k in c],
                        'len': len(c), 'h': c.hit_count, 'm': c.miss_count, 's': c.soft_miss_count,
                        'max': c.max_size, 'om': 0 if c.on_miss is None else 1,
                        'has': [1 if ek(k, 0) in c else 0 for k in range(nk)]}
            except CaseTimeout:
                raise
            except Exception as e:
                return {'exc': exc_name(e)}

        def do(si, op, c=None):
            name, a = op[0], op[2:]
            if c is None:
                c = world[op[1]]
                cur[0], cur[1] = c, si
            if name == 'set':
                c[ek(a[0], si)] = enc_val(a[1])
                return ['none']
            if name == 'getitem':
                return ['val', dec_val(c[ek(a[0], si)])]
            if name == 'del':
                del c[ek(a[0], si)]
                return ['none']
            if name == 'get':
                r = c.get(ek(a[0], si), enc_val(a[1])) if len(a) > 1 else c.get(ek(a[0], si))
                return ['val', dec_val(r)]
            if name == 'setdefault':
                r = c.setdefault(ek(a[0], si), enc_val(a[1])) if len(a) > 1 else c.setdefault(ek(a[0], si))
                return ['val', dec_val(r)]
            if name in ('update', 'ior'):
                kind = a[0]
                if kind == 'self':
                    arg = c
                elif kind == 'cache':
                    arg = world[a[1]]
                elif kind == 'dict':
                    arg = dict(mk_pairs(dedup(a[1]), si))
                elif kind == 'map':
                    arg = MapObj(mk_pairs(dedup(a[1]), si))
                elif kind == 'list':
                    arg = mk_pairs(a[1], si)
                elif kind == 'fail':
                    arg = fail_iter(mk_pairs(a[1], si))
                elif kind == 'bad':
                    arg = mk_pairs(a[1], si) + [(ek(0, si),)]
                elif kind == 'none':
                    r = c.update(**{ek(k, 0): enc_val(v) for k, v in dedup(a[2])})
                    return ['none'] if r is None else ['other', repr(r)[:40]]
                else:
                    arg = iter(mk_pairs(a[1], si))
                if name == 'update':
                    r = c.update(arg, **{ek(k, 0): enc_val(v) for k, v in dedup(a[2])})
                    return ['none'] if r is None else ['other', repr(r)[:40]]
                before = c
                c |= arg
                return ['none'] if c is before else ['other', 'rebinds']
            if name == 'pop':
                r = c.pop(ek(a[0], si), enc_val(a[1])) if len(a) > 1 else c.pop(ek(a[0], si))
                return ['val', dec_val(r)]
            if name == 'popitem':
                k, v = c.popitem()
                return ['item', dec_key(km, k), dec_val(v)]
            if name == 'clear':
                r = c.clear()
                return ['none'] if r is None else ['other', repr(r)[:40]]
            if name == 'copy':
                n = c.copy()
                if type(n) is not type(c) or any(n is o for o in world):
                    return ['other', 'copy() returned %s' % type(n).__name__]
                world.append(n)
                return ['copy']
            if name == 'in':
                return ['bool', bool(ek(a[0], si) in c)]
            if name == 'len':
                return ['nat', len(c)]
            if name == 'iter':
                return ['items', [[dec_key(km, k), dec_val(v)] for k, v in c.items()]]
            if name in ('eq', 'ne'):
                if a[0] == 'cache':
                    other = world[a[1]]
                elif a[0] == 'other':
                    other = [None, 5, 'x', [(ek(0, si), 1)], []][a[1] % N_OTHERS]
                else:
                    other = dict(mk_pairs(dedup(a[1]), si))
                r = (c == other) if name == 'eq' else (c != other)
                return ['bool', r] if isinstance(r, bool) else ['other', repr(r)[:40]]
            raise ValueError('unknown op %r' % (op,))

        try:
            with time_limit(10):
                rec = {}
                try:
                    cls = cacheutils.LRU if case['cls'] == 'LRU' else cacheutils.LRI
                    if case['init'] is None:
                        world.append(cls(max_size=case['max'], on_miss=om))
                    else:
                        ik = case.get('ik') or 'list'
                        vals = mk_pairs(dedup(case['init']) if ik in DEDUP_KINDS else case['init'], 1)
                        vals = {'list': lambda: vals, 'dict': lambda: dict(vals), 'iter': lambda: iter(vals),
                                'map': lambda: MapObj(vals)}[ik]()
                        world.append(cls(max_size=case['max'], values=vals, on_miss=om))
                    rec['ret'] = ['none']
                except CaseTimeout:
                    raise
                except Exception as e:
                    rec['exc'] = exc_name(e)
                rec['calls'] = list(calls)
                rec['dumps'] = [dump(c) for c in world]
                recs.append(rec)
                if world:
                    for si, op in enumerate(case['ops']):
                        del calls[:]
                        del nested[:]
                        rec = {}
                        try:
                            rec['ret'] = do(si, op)
                        except CaseTimeout:
                            raise
                        except Exception as e:
                            rec['exc'] = exc_name(e)
                        rec['calls'] = list(calls)
                        if case.get('prog') is not None and case['om'] is not None:
                            rec['nested'] = list(nested)
                        rec['dumps'] = [dump(c) for c in world]
                        recs.append(rec)
        except CaseTimeout:
            recs.append({'exc': 'CaseTimeout', 'calls': [], 'dumps': []})
        return recs

    # ------------------------------------------------------------------ canonical text (= driver output format)
    @staticmethod
    def render_dump(d):
        if 'exc' in d:
            return 'X' + d['exc']
        s = ' '.join(['I' + pairs_txt(d['items']), 'K' + nats_txt(d['keys']), 'V' + nats_txt(d['values']),
                      'L%d' % d['len'], 'H%s' % d['h'], 'M%s' % d['m'], 'S%s' % d['s'], 'X%s' % d['max'],
                      'O%d' % d['om'], 'B' + nats_txt(d['has'])])
        if d['iter'] != d['keys']:
            s += ' T' + nats_txt(d['iter'])
        return s

    def render(self, case, obs):
        out = []
        for rec in obs:
            if 'exc' in rec:
                r = '!' + rec['exc']
            else:
                ret = rec['ret']
                t = ret[0]
                if t == 'none':
                    r = '-'
                elif t == 'val':
                    r = 'v%s' % ret[1]
                elif t == 'item':
                    r = 'p%s.%s' % (ret[1], ret[2])
                elif t == 'bool':
                    r = 't' if ret[1] else 'f'
                elif t == 'nat':
                    r = 'n%d' % ret[1]
                elif t == 'items':
                    r = 'L' + pairs_txt(ret[1])
                elif t == 'copy':
                    r = 'c'
                else:
                    r = '?' + str(ret[1:])
            out.append('|'.join(['%s@%s' % (r, nats_txt(rec['calls']))] + [self.render_dump(d) for d in rec['dumps']]))
        return ';'.join(out)

    # ------------------------------------------------------------------ oracle (independent of the Lean model)
    def ref_run(self, case, obs=None, upto_placeholders=False, rng=None):
        """Run the reference caches over the history.  With `obs`: judge the observation, return a Failure or
        None.  With `upto_placeholders`: fill the `None` operands of ==/!= from the reference contents."""
        lru = case['cls'] == 'LRU'
        has_prog = case['om'] is not None and case.get('prog') is not None
        refs = [Ref(lru, case['max'], case['om'], case.get('prog') if has_prog else None,
                    case.get('depth', DEFAULT_DEPTH), case.get('st', 0) if has_prog else 0)]
        judge = obs is not None
        ctx = {'si': None}

        def F(tag, what):
            f = Failure(tag, what)
            f.si = ctx['si']
            return f

        def check_dumps(rec, what):
            dumps = rec['dumps']
            if len(dumps) != len(refs):
                return F('copy', '%s: %d caches dumped, %d expected' % (what, len(dumps), len(refs)))
            for ci, (d, r) in enumerate(zip(dumps, refs)):
                if 'exc' in d:
                    return F('raises', '%s: reading cache %d raised %s' % (what, ci, d['exc']))
                items = d['items']
                got = {}
                for k, v in items:
                    if k in got:
                        return F('views', '%s: duplicate key %r in items of cache %d' % (what, k, ci))
                    got[k] = v
                if d['len'] > r.max or len(items) > r.max:
                    return F('size', '%s: cache %d holds %d items, max_size %d' % (what, ci, max(d['len'], len(items)), r.max))
                if got != r.vals:
                    return F('contents', '%s: cache %d holds %r, reference cache holds %r' % (what, ci, got, r.vals))
                if d['len'] != len(items) or d['keys'] != [k for k, _ in items] or d['values'] != [v for _, v in items] \
                        or d['iter'] != d['keys'] or d['has'] != [1 if k in got else 0 for k in range(case['nk'])]:
                    return F('views', '%s: len/keys/values/iter/in of cache %d disagree with items(): %r' % (what, ci, d))
                if (d['h'], d['m'], d['s']) != (r.h, r.m, r.s):
                    return F('counters', '%s: cache %d (hit, miss, soft_miss) = %r, lookups counted by the reference: %r'
                                   % (what, ci, (d['h'], d['m'], d['s']), (r.h, r.m, r.s)))
                if d['s'] > d['m']:
                    return F('counters', '%s: soft_miss_count %d > miss_count %d' % (what, d['s'], d['m']))
                if d['max'] != r.max:
                    return F('copy', '%s: cache %d has max_size %r, expected %r' % (what, ci, d['max'], r.max))
            return None

        if judge:
            if not obs or 'dumps' not in obs[0]:
                return F('raises', 'no observation')
            if 'exc' in obs[0]:
                return F('raises', 'constructor raised %s' % obs[0]['exc'])
        if case['init']:
            # a mapping holds one value per key (the last one given), at the position of the key's first occurrence
            for k, v in (dedup(case['init']) if (case.get('ik') or 'list') in DEDUP_KINDS else case['init']):
                refs[0].assign(k, v)
        if judge:
            f = check_dumps(obs[0], 'after construction')
            if f:
                return f
            if obs[0]['calls']:
                return F('on_miss', 'on_miss called by the constructor')
        for si, op in enumerate(case['ops']):
            name, i, a = op[0], op[1], op[2:]
            r = refs[i]
            ctx['si'] = si
            what = 'op %d %r' % (si, op)
            r.nested_fail = None
            r.obs = list(obs[si + 1]['nested']) if judge and si + 1 < len(obs) and 'nested' in obs[si + 1] else None
            exp_exc = None
            exp_ret = ['none']
            exp_calls = []
            any_item = False
            alts = []          # [(cache number, alternative reference state)]: readings the statement leaves open
            if name == 'set':
                r.assign(a[0], a[1])
            elif name in LOOKUPS:
                dflt = a[1] if len(a) > 1 else 0
                found, v, exp_calls, om_exc = r.lookup(a[0])
                if found:
                    exp_ret = ['val', v]
                elif om_exc is not None and om_exc != 'KeyError':
                    exp_exc = om_exc          # propagates out of c[k], get and setdefault alike
                elif name == 'getitem':
                    exp_exc = 'KeyError'
                else:
                    r.s += 1
                    exp_ret = ['val', dflt]
                    if name == 'setdefault':
                        r.assign(a[0], dflt)
            elif name == 'del':
                if a[0] in r.vals:
                    r.remove(a[0])
                else:
                    exp_exc = 'KeyError'
            elif name == 'pop':
                if a[0] in r.vals:
                    exp_ret = ['val', r.vals[a[0]]]
                    r.remove(a[0])
                elif len(a) > 1:
                    exp_ret = ['val', a[1]]
                else:
                    exp_exc = 'KeyError'
            elif name == 'popitem':
                if r.vals:
                    any_item = True
                else:
                    exp_exc = 'KeyError'
            elif name == 'clear':
                r.vals.clear()
                r.stamp.clear()
            elif name in ('update', 'ior'):
                kind = a[0]
                kw = dedup(a[2]) if name == 'update' else []
                if kind == 'self':
                    pass                       # updating a cache with itself changes nothing
                elif kind == 'cache':
                    src = refs[a[1]]
                    if src is not r:
                        # the items of the source, in its iteration order, are assigned to the target.  Reading them
                        # through src[k] is one found lookup per item on the source (hit; LRU refresh) - the
                        # statement also admits a reading that leaves the source untouched (alternative)
                        alts.append((a[1], src.clone_full()))
                        for k, v in list(src.vals.items()):
                            src.lookup(k)
                            r.assign(k, v)
                        for k, v in kw:
                            r.assign(k, v)
                elif kind in ('fail', 'bad'):
                    # the iterable raises ValueError after the pairs: the exception propagates; like dict.update
                    # the pairs received before it have been assigned (alternative: none of them)
                    exp_exc = 'ValueError'
                    alts.append((i, r.clone_full()))
                    for k, v in a[1]:
                        r.assign(k, v)
                elif kind == 'none':
                    for k, v in kw:
                        r.assign(k, v)
                else:
                    for k, v in (dedup(a[1]) if kind in DEDUP_KINDS else a[1]):
                        r.assign(k, v)
                    for k, v in kw:
                        r.assign(k, v)
            elif name == 'copy':
                exp_ret = ['copy']
            elif name == 'in':
                exp_ret = ['bool', a[0] in r.vals]
            elif name == 'len':
                exp_ret = ['nat', len(r.vals)]
            elif name == 'iter':
                exp_ret = None   # judged below: the items of the reference in any order
            elif name in ('eq', 'ne'):
                if a[0] == 'cache':
                    same = r.vals == refs[a[1]].vals
                elif a[0] == 'other':
                    same = False               # not a mapping: never equal
                else:
                    if a[1] is None:
                        if not upto_placeholders:
                            raise ValueError('unfilled == operand')
                        cur = [[k, v] for k, v in r.vals.items()]
                        z = rng.random()
                        if cur and z < 0.35:
                            cur[rng.randrange(len(cur))][1] += 11
                        elif cur and z < 0.55:
                            cur[rng.randrange(len(cur))][0] += case['nk'] + 7
                        elif z < 0.65:
                            cur.append([case['nk'] + 9, 1])
                        rng.shuffle(cur)
                        a[1] = op[3] = cur
                    same = r.vals == {k: v for k, v in dedup(a[1])}
                exp_ret = ['bool', same if name == 'eq' else not same]
            if not judge:
                if name == 'copy':
                    refs.append(r.clone())
                elif name == 'popitem' and r.vals:
                    # which item goes is the implementation's choice (dict order): generation-time runs
                    # only need *some* consistent choice to fill in == operands
                    k = next(reversed(list(r.vals)))
                    r.remove(k)
                continue
            # ---- judge this step
            if si + 1 >= len(obs):
                return F('raises', '%s: no observation (%s)' % (what, obs[-1].get('exc')))
            rec = obs[si + 1]
            if 'exc' in rec:
                if rec['exc'] != exp_exc:
                    return F('raises', '%s raised %s (expected %s)' % (what, rec['exc'], exp_exc or 'no exception'))
            else:
                if exp_exc:
                    return F('return', '%s returned %r, expected %s: the key is not in the reference cache'
                                   % (what, rec['ret'], exp_exc))
                ret = rec['ret']
                if any_item:
                    if ret[0] != 'item' or r.vals.get(ret[1], object()) != ret[2]:
                        return F('return', '%s returned %r, not an item of the reference cache %r' % (what, ret, r.vals))
                    r.remove(ret[1])
                elif name == 'iter':
                    if ret[0] != 'items' or sorted(map(tuple, ret[1])) != sorted(r.vals.items()):
                        return F('return', '%s yielded %r, reference cache holds %r' % (what, ret, r.vals))
                elif ret != exp_ret:
                    tag = 'eq' if name in ('eq', 'ne') else 'return'
                    return F(tag, '%s returned %r, expected %r' % (what, ret, exp_ret))
            if rec['calls'] != exp_calls:
                return F('on_miss', '%s: on_miss called with %r, expected %r (called exactly for lookups of absent keys)'
                               % (what, rec['calls'], exp_calls))
            if r.nested_fail or r.obs:
                return F('nested', '%s: %s' % (what, r.nested_fail or 'on_miss made calls the reference does not: %r' % (r.obs,)))
            r.obs = None
            if name == 'copy' and 'exc' not in rec:
                n = r.clone()
                if len(rec['dumps']) == len(refs) + 1 and 'exc' not in rec['dumps'][-1]:
                    nd = rec['dumps'][-1]
                    # which on_miss the copy carries is read off its public attribute (the statement fixes
                    # contents, capacity and eviction order only); its counters start at zero or at the source's
                    if not nd['om']:
                        n.om = None
                    cnt = (nd['h'], nd['m'], nd['s'])
                    if cnt == (r.h, r.m, r.s):
                        n.h, n.m, n.s = cnt
                    elif cnt != (0, 0, 0):
                        return F('copy', '%s: counters of the copy are %r' % (what, cnt))
                refs.append(n)
            f = check_dumps(rec, what)
            if f and alts:
                saved = [(ci, refs[ci]) for ci, _ in alts]
                for ci, alt in alts:
                    refs[ci] = alt
                if check_dumps(rec, what) is None:
                    f = None
                else:
                    for ci, old in saved:
                        refs[ci] = old
            if f:
                return f
        if judge and getattr(self, '_quiet', False):
            return None
        if judge:
            self._nt = any(r.evictions for r in refs)
            st = self.stats
            st['evictions'] = st.get('evictions', 0) + sum(r.evictions for r in refs)
            st['steps'] = st.get('steps', 0) + len(case['ops'])
            if case.get('prog') is not None:
                st['reentrant_cases'] = st.get('reentrant_cases', 0) + 1
                st['reentrant_acts'] = st.get('reentrant_acts', 0) + sum(r.nested for r in refs)
            ops = st.setdefault('ops', {})
            for op in case['ops']:
                ops[op[0]] = ops.get(op[0], 0) + 1
            for rec in obs:
                if 'exc' in rec:
                    ex = st.setdefault('exceptions', {})
                    ex[rec['exc']] = ex.get(rec['exc'], 0) + 1
            cf = st.setdefault('configs', {})
            ck = '%s/max%d/%s/%s' % (case['cls'], case['max'], ('om-raises' if len(case['om']) > 2 else 'om') if case['om'] else 'no-om', case['km'])
            cf[ck] = cf.get(ck, 0) + 1
            return None
        return refs

    def oracle(self, case, obs):
        self._nt = False
        return self.ref_run(case, obs)

    def nontrivial(self, case, obs):
        return getattr(self, '_nt', False)

    # ------------------------------------------------------------------ shrinking
    def shrink(self, case):
        ops = case['ops']
        # big cases first: a smaller capacity, then halves / quarters of long pair lists
        if case['max'] > 8:
            for m in (2, 3, 5, 8, 16, 33, 64):
                if m < case['max']:
                    yield dict(case, max=m)
        for i, op in enumerate(ops):
            if op[0] in ('update', 'ior') and op[2] in PAIR_KINDS and len(op[3]) >= 8:
                n = len(op[3])
                for lo, hi in ((0, n // 2), (n // 2, n), (n // 4, n), (0, 3 * n // 4)):
                    yield dict(case, ops=ops[:i] + [op[:3] + [op[3][lo:hi]] + op[4:]] + ops[i + 1:])
        # drop a suffix / one op
        for i in range(len(ops)):
            c = self.normalize(dict(case, ops=ops[:i] + ops[i + 1:]))
            if len(c['ops']) < len(ops):
                yield c
        if case['init']:
            yield dict(case, init=None)
            n = len(case['init'])
            if n >= 8:
                yield dict(case, init=case['init'][:n // 2])
                yield dict(case, init=case['init'][n // 2:])
            for j in range(len(case['init'])):
                yield dict(case, init=case['init'][:j] + case['init'][j + 1:])
        for i, op in enumerate(ops):
            if op[0] in ('update', 'ior') and op[2] in PAIR_KINDS:
                for j in range(len(op[3])):
                    yield dict(case, ops=ops[:i] + [op[:3] + [op[3][:j] + op[3][j + 1:]] + op[4:]] + ops[i + 1:])
                if op[0] == 'update' and op[4]:
                    yield dict(case, ops=ops[:i] + [op[:4] + [[]]] + ops[i + 1:])
        if case['km'] != 's':
            yield dict(case, km='s')
        if case.get('ik'):
            yield {k: v for k, v in case.items() if k != 'ik'}
        if case.get('prog') is not None:
            yield {k: v for k, v in case.items() if k not in ('prog', 'depth', 'st')}
            if case.get('st'):
                yield {k: v for k, v in case.items() if k != 'st'}
            for key in sorted(case['prog']):
                yield dict(case, prog={k: v for k, v in case['prog'].items() if k != key})
            for key in sorted(case['prog']):
                acts = case['prog'][key]
                for j in range(len(acts)):
                    yield dict(case, prog=dict(case['prog'], **{key: acts[:j] + acts[j + 1:]}))
        if case['om'] is not None:
            yield dict(case, om=None)
            if len(case['om']) > 2:
                yield dict(case, om=case['om'][:2])
                if case['om'][3]:
                    yield dict(case, om=case['om'][:3] + [[]])


PROPERTY = C02
