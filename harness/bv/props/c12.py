"""C12 - BufferedSocket framing is independent of chunking; no byte lost or duplicated.

Case kinds (all JSON):
  rx   receive-side call sequence over a scripted socket (chunks + socket.timeout events)
  tx   send / sendall / buffer / flush over a socket that accepts partial sends / raises timeouts
  ns   NetstringSocket round trip: write_ns payloads (partial sends), cut the wire, read_ns back
  nsr  read_ns over an arbitrary scripted stream
  duo  two independent BufferedSockets (each an rx or tx case of its own) whose calls are interleaved
Timeouts come only from the script.  Two ways: 'T' = the wrapped socket raises socket.timeout (sockets
used with timeout=None), and - cases with clk=1 - 'W' = the wall clock passes the deadline: the
BufferedSocket is then used with timeout=1000.0 and `boltons.socketutils.time` is replaced, for the
duration of each public call, by a complete scripted clock (FakeClock: time / monotonic / perf_counter / *_ns /
sleep) whose value is a function of the socket events only: it jumps past any deadline when a socket call
returns and leaves a 'W' at the head of the script, so the deadline branches run deterministically whichever
clock function the code reads and however often it reads it.
"""
import itertools
import socket

from bv.common import Property, Failure, time_limit, exc_name, CaseTimeout, InfraError, Driver

EXC = {'Timeout': 'timeout', 'ConnectionClosed': 'closed', 'MessageTooLong': 'toolong', 'BlockingIOError': 'oserror',
       'NetstringInvalidSize': 'invalidsize', 'NetstringMessageTooLong': 'nstoolong',
       'NetstringProtocolError': 'protocolerror'}
# bytes Python's int() tolerates around / inside a number (modelled by parsePyInt since round 2)
INT_LENIENT = b' \t\n\r\x0b\x0c+-_'


def hx(b):
    return b.hex() or '-'


def unhx(s):
    return b'' if s == '-' else bytes.fromhex(s)


class FakeSock:
    """Scripted socket.  recv script: list of bytes (a chunk that arrives) or 'T'
    (socket.timeout); exhausted = peer closed.  send script: ('a', k) = accept at most k bytes,
    'T' = socket.timeout; exhausted = accept everything."""

    def __init__(self, rscript=(), sscript=()):
        self.rscript = [e for e in rscript]
        self.sscript = [e for e in sscript]
        self.wire = b''
        self.clock = None           # FakeClock of a clk=1 case: told about every socket event
        self.w_how = []             # send script: how each 'W' was used up, in order: 'S' the socket raised
                                    # socket.timeout for it, 'C' a deadline check of the code fired
        self.sends = []             # every sock.send call: (bytes offered, bytes on the wire before it)

    def _io_done(self, script):
        if self.clock is not None:
            self.clock.after_io(script)

    def _fault(self, ev):
        if self.clock is not None and ev == 'W':
            self.clock.consumed_by_socket()

    def gettimeout(self):
        return None

    def settimeout(self, t):
        pass

    def recv(self, n, flags=0):
        s = self.rscript
        while s and s[0] == b'':
            s.pop(0)
        if not s:
            return b''
        ev = s[0]
        if ev == 'T' or ev == 'W':      # a recv that finds the deadline already passed times out too
            s.pop(0)
            self._fault(ev)
            raise socket.timeout()
        if ev == 'E':
            s.pop(0)
            raise BlockingIOError(11, 'Resource temporarily unavailable')
        if len(ev) <= n:
            s.pop(0)
            self._io_done(s)
            return ev
        s[0] = ev[n:]
        self._io_done(s)
        return ev[:n]

    def recv_into(self, buf, nbytes=0, flags=0):
        # part of the socket API; the verified code does not use it, a changed one might
        view = memoryview(buf)
        data = self.recv(nbytes or len(view), flags)
        view[:len(data)] = data
        return len(data)

    def send(self, data, flags=0):
        data = bytes(data)
        self.sends.append((len(data), len(self.wire)))
        s = self.sscript
        if not s:
            self.wire += data
            return len(data)
        ev = s.pop(0)
        if ev == 'T' or ev == 'W':
            self._fault(ev)
            if ev == 'W':
                self.w_how.append('S')
            raise socket.timeout()
        if ev == 'E':
            raise BlockingIOError(11, 'Resource temporarily unavailable')
        k = min(ev[1], len(data))
        self.wire += data[:k]
        self._io_done(s)
        return k

    def sendall(self, data, flags=0):
        # the socket API has it; the verified code does not use it, a changed one might: like the real
        # thing it may raise socket.timeout after part of the data has gone out
        data = bytes(data)
        while data:
            n = self.send(data)
            data = data[n:]

    def undelivered(self):
        return b''.join(e for e in self.rscript if not is_to(e))

    def faults_left(self):
        return sum(1 for e in self.rscript if is_to(e))

    def owed(self):
        """(undelivered bytes, faults still in the recv script) in one pass"""
        parts, nf = [], 0
        for e in self.rscript:
            if type(e) is bytes:
                parts.append(e)
            else:
                nf += 1
        return b''.join(parts), nf


class FakeClock:
    """Stands in for the `time` module inside boltons.socketutils while a clk=1 case runs.

    The clock is a function of *socket events*, never of how often (or through which function) the code
    reads it: a socket call that returns normally and leaves a 'W' at the head of the watched script makes
    the clock jump far past any deadline (the W is then `armed`).  Whatever deadline check the code performs
    next - time(), monotonic(), perf_counter(), ..._ns(), once or ten times - sees the deadline passed.  Code
    that performs no check but goes back to the socket gets socket.timeout from the socket (FakeSock pops the
    W).  Either way the W is used up by exactly one fault: `end_call` removes an armed W when the public call
    ended in Timeout without the socket having consumed it.  A call that ends without looking at the clock
    again leaves the W for the next call, whose own deadline starts after the jump."""

    def __init__(self, script=None):
        self.now = 1000.0
        self.armed = None           # the script whose head 'W' made the clock jump during this public call

    # -- driven by the harness / FakeSock
    def begin_call(self):
        self.armed = None

    def after_io(self, script):
        if self.armed is None and script and script[0] == 'W':
            self.armed = script
            self.now += 1e9

    def consumed_by_socket(self):
        self.armed = None

    def end_call(self, result, fs=None):
        sc = self.armed
        if sc is not None and result == 'timeout' and sc and sc[0] == 'W':
            sc.pop(0)
            if fs is not None and sc is fs.sscript:
                fs.w_how.append('C')
        self.armed = None

    # -- the `time` module API
    def time(self):
        return self.now

    monotonic = perf_counter = process_time = thread_time = time

    def time_ns(self):
        return int(self.now * 1e9)

    monotonic_ns = perf_counter_ns = process_time_ns = thread_time_ns = time_ns

    def sleep(self, secs):
        return None

    def __getattr__(self, name):
        import time as _t
        return getattr(_t, name)


class patched_clock:
    """`boltons.socketutils.time` (and any clock function the module imported by name from `time`) is the
    scripted clock while one public call runs"""

    def __init__(self, clock):
        self.clock = clock

    def __enter__(self):
        import boltons.socketutils as su
        self.su, self.saved = su, {}
        for name, val in list(vars(su).items()):
            if name == 'time' and not callable(val):
                self.saved[name] = val
                setattr(su, name, self.clock)
            elif (callable(val) and getattr(val, '__module__', None) == 'time'
                  and getattr(val, '__name__', '') in FakeClock.__dict__):
                self.saved[name] = val
                setattr(su, name, getattr(self.clock, val.__name__))
        return self.clock

    def __exit__(self, *a):
        for name, val in self.saved.items():
            setattr(self.su, name, val)
        return False


CLK_TIMEOUT = 1000.0


class nullctx:
    def __enter__(self):
        return None

    def __exit__(self, *a):
        return False


def is_to(e):
    """a script event that is not data: socket timeout, wall-clock expiry, or 'E' = the socket raises a
    transient OSError (BlockingIOError, what a non-blocking socket does when nothing is ready)"""
    return e == 'T' or e == 'W' or e == 'E'


def compositions(n):
    """all ways to cut a length-n stream into non-empty chunks (as lists of sizes)"""
    if n == 0:
        yield []
        return
    for mask in range(1 << (n - 1)):
        sizes, cur = [], 1
        for i in range(n - 1):
            if mask >> i & 1:
                sizes.append(cur)
                cur = 1
            else:
                cur += 1
        sizes.append(cur)
        yield sizes


def cut(stream, sizes):
    out, i = [], 0
    for s in sizes:
        if s <= 0:
            continue
        if i >= len(stream):
            break
        out.append(stream[i:i + s])
        i += s
    if i < len(stream):
        out.append(stream[i:])
    return out


class C12(Property):
    PID = 'C12'
    QUICK_BUDGET_S = 34
    THOROUGH_BUDGET_S = 540
    RULE = ('a case is one whole scripted session. rx: constructor recvsize/maxsize, a network script (chunks and '
            'socket.timeout events, then EOF) and a sequence of recv / peek / recv_size / recv_until / recv_close '
            'calls (each retried after Timeout when retry=1), every attempt recording result + getrecvbuffer(); '
            'exhaustive: all streams <= 4 (quick) / 6 (thorough) bytes over {a,b} x all compositions into chunks x '
            'timeout placements x recvsize x maxsize x call families; random: streams <= 48 bytes, delimiters cut '
            'from the stream, one-byte chunkings; adversarial: delimiter straddling a chunk edge, size met exactly '
            'at an edge, maxsize at offset+len(delimiter)+-1, timeout just before completion. tx: partial-send / '
            'timeout scripts x send/sendall/buffer/flush. ns: write_ns payloads over partial sends, wire re-cut, '
            'read_ns (maxsize via constructor / setmaxsize / argument); nsr: read_ns over valid frames with point '
            'mutations. Non-trivial = the stream reaches the code in >= 2 pieces or with a timeout (rx/nsr/ns), or a '
            'send is partial / times out (tx), and at least one call returns a non-empty value. Round 2, generated '
            'FIRST: clk=1 cases (rx and tx) where timeouts are wall-clock expiries (W events, scripted clock, '
            'timeout=1000.0) - exhaustive small scope plus random; read-side NetstringSocket configured through '
            'every path (constructor c0, then setmaxsize, then maxsize= argument, c0 smaller/larger than the '
            'effective maxsize, digit-count boundaries 9/10/99/100); duo: two BufferedSockets interleaved '
            '(cross-instance state); multi-step families: timed-out call followed by a different call, calls '
            'on pre-buffered data (after peek / surplus) with the window boundary inside the buffer; fault cases '
            'where the wrapped socket raises BlockingIOError (E events) instead of timing out; nsr with size prefixes '
            'only int() accepts (whitespace, sign incl. negative, underscores) and near misses. Round 3, generated right '
            'after the configuration cases: dx = ONE BufferedSocket over one scripted socket used in both directions '
            '(receive-side and send-side calls interleaved, all four observables - result, getrecvbuffer(), '
            'getsendbuffer(), wire - after every call): exhaustive streams <= 3 bytes x chunkings x one fault of each '
            'kind (socket.timeout T, deadline expiry W, BlockingIOError E) in every gap x 7 send scripts x 3 interleaved '
            'families, plus random interleavings of the rx/tx random families; recv/send/sendall with a flags argument '
            '(0 and non-zero); nonblocking mode (timeout=0.0) for fault cases; return values that are not immutable '
            'bytes are re-read at the end of the case. The scripted clock jumps as a function of socket events only. '
            'Round 3c: what the statement leaves free reaches the model as an observation instead of being predicted by '
            'it - every recv attempt (returned value / fault class, getrecvbuffer(), bytes and faults the network still '
            'holds) is accepted or rejected by the Lean predicate acceptRecv (the recv clause of the statement) and the '
            'model continues from the observed state; after every attempt of a framing call the model, which computed '
            'the attempt, is re-seated on the observed split when it is a split of the same bytes owed; the sizes every '
            'sock.send was given are handed to the model (offers) when some call offered less than the whole buffer; '
            'nsr compares rbuf ++ undelivered after each read_ns.')
    ASSUMPTIONS = [
        'the wrapped socket returns b"" from recv only at end of stream, never more than the requested bytes, and '
        'send returns how many bytes it took (scripted FakeSock in harness/bv/props/c12.py)',
        'timeouts are scripted: raised by the wrapped socket (timeout=None) or, in clk=1 cases, by the code\'s own '
        'deadline checks under a scripted clock substituted for boltons.socketutils.time (time, monotonic, '
        'perf_counter, their _ns variants, sleep; timeout=1000.0) whose value depends on the socket events only, '
        'not on the number of clock reads; the real clock never decides anything',
        'recvsize >= 1; sizes and maxsize are non-negative ints; non-zero flags are outside the statement: a call '
        'refused with ValueError must leave every byte in place, a call that takes them is held to the contract of '
        'the plain call (the scripted socket ignores flags)',
        'where on the send side the code compares the clock with its deadline is left free: a W event of a send '
        'script is presented to the model as a deadline event only if a deadline check of the code fired for it',
        'read_ns size prefixes go through int(): the model of int(bytes) (parsePyInt) is compared with this '
        'interpreter\'s int() on every byte string of length <= 4 over a 12-letter alphabet on every run',
        'single-threaded use (the RLocks are not exercised)',
        'left free by the statement and therefore observed, not predicted: which non-empty prefix recv() returns, how '
        'any receive-side call splits the bytes still owed between rbuf and the socket (how much it asks the socket '
        'for), and how many bytes of the send buffer one sock.send call is given; the observation is trusted only as '
        'far as the scripted socket reports it (bytes / faults it still holds, len(data) of every send) and '
        'getrecvbuffer() / getsendbuffer() return the buffers',
    ]
    CORRESPONDENCE_NAME = 'C12.Driver (BufferedSocket/NetstringSocket model) vs boltons.socketutils over a scripted socket'

    # ------------------------------------------------------------------ translator
    def regen(self):
        import boltons.socketutils as su
        dm, lm = su.DEFAULT_MAXSIZE, su._RECV_LARGE_MAXSIZE
        if not (isinstance(dm, int) and isinstance(lm, int) and dm >= 0 and lm >= 0):
            raise ValueError('DEFAULT_MAXSIZE/_RECV_LARGE_MAXSIZE are not non-negative ints: %r %r' % (dm, lm))
        self._consts = (dm, lm)
        src = ('/- GENERATED by harness/bv/props/c12.py (regen) from boltons/socketutils.py - do not edit -/\n'
               'namespace C12.Gen\n'
               'def DEFAULT_MAXSIZE : Nat := %d\n'
               'def RECV_LARGE_MAXSIZE : Nat := %d\n'
               'end C12.Gen\n' % (dm, lm))
        rows = self._ns_window_rows()
        win = ('/- GENERATED by harness/bv/props/c12.py (regen) by EVALUATING boltons.socketutils.NetstringSocket - do not edit.\n'
               '   For each maxsize n: the longest size prefix, its `:` included, that read_ns still accepts (measured through\n'
               '   the public API on the streams `0...0:,`) when n was given to the constructor / to setmaxsize() / as the\n'
               '   maxsize= argument of read_ns.  Props.lean proves that the model computes the same three numbers. -/\n'
               'namespace C12.Gen\n'
               'def nsWindowTable : List (Nat × Nat × Nat × Nat) :=\n  [%s]\n'
               'end C12.Gen\n' % ',\n   '.join('(%d, %d, %d, %d)' % r for r in rows))
        return {'C12_Consts.lean': src, 'C12_NsWindow.lean': win}

    NS_WINDOW_DOMAIN = ([0, 1, 5, 9, 10, 11, 99, 100, 101, 999, 1000, 32768, 65535, 99999, 100000] +
                        [10 ** k - 1 for k in (9, 12, 15, 16, 17, 18)] + [10 ** k for k in (9, 12, 15, 16, 17, 18)] +
                        [2 ** 31 - 1, 2 ** 31, 2 ** 53, 2 ** 63 - 1, 2 ** 64])

    def _ns_window_rows(self):
        """evaluate (never pattern-match) how long a size prefix the reader accepts, per configuration path"""
        from boltons.socketutils import NetstringSocket

        def accepted(n, path, k):
            try:
                with time_limit(5):
                    fake = FakeSock([b'0' * k + b':,'])
                    if path == 'ctor':
                        ns, kw = NetstringSocket(fake, timeout=None, maxsize=n), {}
                    elif path == 'set':
                        ns, kw = NetstringSocket(fake, timeout=None, maxsize=0), {}
                        ns.setmaxsize(n)
                    else:
                        ns, kw = NetstringSocket(fake, timeout=None, maxsize=0), {'maxsize': n}
                    ns.bsock.settimeout(None)
                    return bytes(ns.read_ns(**kw)) == b''
            except InfraError:
                raise
            except BaseException as e:
                if isinstance(e, (KeyboardInterrupt, SystemExit)):
                    raise
                return False

        def window(n, path):
            w = 1
            for k in range(1, 40):
                if accepted(n, path, k):
                    w = k + 1
                else:
                    break
            return w
        return [(n, window(n, 'ctor'), window(n, 'set'), window(n, 'arg')) for n in self.NS_WINDOW_DOMAIN]

    def extra_checks(self):
        """the generated constants, printed back by the compiled driver, equal the live ones"""
        out = []
        try:
            d = Driver(self.PID)
            if d.available():
                import boltons.socketutils as su
                got = d.query(['consts'])[0]
                want = 'DEFAULT_MAXSIZE=%d RECV_LARGE_MAXSIZE=%d' % (su.DEFAULT_MAXSIZE, su._RECV_LARGE_MAXSIZE)
                if got != want:
                    raise InfraError('generated constants out of date: driver says %r, source says %r' % (got, want))
                # the model of Python's int(bytes) against this interpreter's int(), exhaustively at small scope
                alpha = b' \t\x0b+-_07a:\x00\xb2'
                words = [bytes(t) for n in range(0, 5) for t in itertools.product(alpha, repeat=n)]
                words += [b'1_000', b'  12  ', b'\n+1_2_3\r', b'-0', b'- 1', b'0_', b'1__1', b'+-1', b'\x0c5\x0c']
                outs = d.query(['int ' + hx(w) for w in words])
                for w, o in zip(words, outs):
                    try:
                        want = str(int(w))
                    except ValueError:
                        want = 'err'
                    if o != want:
                        raise InfraError('model of int() disagrees with Python on %r: model %s, int() %s' % (w, o, want))
                self.stats['int_model_checked'] = len(words)
        except InfraError:
            raise
        except Exception:
            pass
        return out

    # ------------------------------------------------------------------ generation
    def bump(self, k, n=1):
        self.stats[k] = self.stats.get(k, 0) + n

    def cases(self, budget_s):
        rng = self.rng
        th = self.thorough
        # -- round 2: small, diverse, adversarial families first
        yield from self.ns_config_cases()
        yield from self.dx_small()
        for i in range(30000 if th else 3000):
            yield self.dx_random(rng)
        yield from self.rx_clock_exhaustive(4 if th else 3)
        yield from self.tx_clock_exhaustive()
        yield from self.rx_multistep(rng, 6000 if th else 1500)
        for i in range(20000 if th else 2500):
            yield self.duo_random(rng)
        for i in range(40000 if th else 3000):
            yield self.clk_random(rng)
        for i in range(20000 if th else 2000):
            yield self.fault_random(rng)
        for i in range(20000 if th else 1500):
            yield self.ns_cfg_random(rng)
        for i in range(20000 if th else 1500):
            yield self.nsr_lenient(rng)
        # -- rx exhaustive small scope
        yield from self.rx_exhaustive(6 if th else 4)
        # -- tx exhaustive small scope
        yield from self.tx_exhaustive()
        # -- adversarial + random, interleaved so that every family is hit within the budget
        n = 1500000 if th else 100000
        for i in range(n):
            r = i % 10
            if r < 4:
                yield self.rx_random(rng, big=th and i % 50 == 0)
            elif r < 6:
                yield self.rx_adversarial(rng)
            elif r == 6:
                yield self.tx_random(rng)
            elif r == 7:
                yield self.ns_random(rng)
            elif r == 8:
                yield self.nsr_random(rng)
            else:
                yield self.rx_random(rng, onebyte=True)
        if th:
            for i in range(6):
                yield self.rx_long(rng, 10000)
                yield self.ns_long(rng)

    def deep_cases(self, budget_s):
        rng = self.rng
        yield from self.ns_config_cases()
        yield from self.dx_small()
        yield from self.rx_clock_exhaustive(4)
        yield from self.tx_clock_exhaustive()
        yield from self.rx_multistep(rng, 5000)
        yield from self.rx_exhaustive(5)
        yield from self.tx_exhaustive()
        while True:
            yield self.dx_random(rng)
            yield self.duo_random(rng)
            yield self.clk_random(rng)
            yield self.fault_random(rng)
            yield self.ns_cfg_random(rng)
            yield self.nsr_lenient(rng)
            yield self.rx_random(rng)
            yield self.rx_adversarial(rng)
            yield self.tx_random(rng)
            yield self.ns_random(rng)
            yield self.nsr_random(rng)
            yield self.rx_random(rng, onebyte=True)

    OPFAMS = [
        [['u', 0, 'U', '61'], ['u', 1, 'U', '61'], ['c', 'U']],
        [['u', 0, 'U', '6162'], ['u', 1, 'U', '6162'], ['s', 1], ['u', 0, 'U', '6162']],
        [['u', 1, 'U', '6161'], ['u', 0, 'U', '6161'], ['r', 2]],
        [['u', 0, 'U', '616261'], ['p', 2], ['u', 0, 'U', '62']],
        [['s', 2], ['u', 0, 'U', '62'], ['p', 1], ['s', 1]],
        [['p', 3], ['s', 1], ['r', 1], ['s', 2], ['c', 'U']],
        [['r', 1], ['p', 2], ['r', 3], ['r', 1], ['r', 1]],
        [['c', 'U']],
        [['s', 3], ['c', 'U'], ['s', 1]],
        [['u', 0, 'U', '6262'], ['c', 'N'], ['p', 0]],
        [['m', 2], ['u', 0, 'U', '62'], ['m', 0], ['c', 'U'], ['m', 9], ['c', 'U']],
    ]

    def rx_exhaustive(self, L):
        for n in range(0, L + 1):
            for t in itertools.product(b'ab', repeat=n):
                stream = bytes(t)
                for sizes in compositions(n):
                    chunks = cut(stream, sizes)
                    k = len(chunks)
                    # timeout placements: none, everywhere, each single gap (incl. before first / after last)
                    placements = [()] + [tuple(range(k + 1))] + [(g,) for g in range(k + 1)]
                    for pl in placements:
                        script = []
                        for i, c in enumerate(chunks):
                            if i in pl:
                                script.append('T')
                            script.append(hx(c))
                        if k in pl:
                            script.append('T')
                        for rs in (1, 2, 64):
                            for ms in (1, 2, 3, 100):
                                for fi, fam in enumerate(self.OPFAMS):
                                    # thin the product deterministically: every (script, rs, ms) meets every family
                                    # over the enumeration, each single case meets 3 of them
                                    if (fi + n + len(pl) + rs + ms + k) % 3:
                                        continue
                                    yield {'k': 'rx', 'rs': rs, 'ms': ms, 'retry': 1 if (fi + k) % 4 else 0,
                                           'script': script, 'ops': fam}

    def tx_exhaustive(self):
        datas = ['-', '61', '6162', '616263']
        evs = [['a', 0], ['a', 1], ['a', 2], 'T']
        for n in range(0, 4):
            for script in itertools.product(evs, repeat=n):
                for d1 in datas:
                    for d2 in ('-', '78', '7879'):
                        yield {'k': 'tx', 'script': list(script),
                               'ops': [['s', d1], ['b', d2], ['f'], ['sa', d2], ['f'], ['f'], ['f']]}
                        yield {'k': 'tx', 'script': list(script),
                               'ops': [['b', d1], ['b', d2], ['s', '-'], ['f'], ['s', d1], ['f'], ['f']]}

    # ---- round 2 families
    def rx_clock_exhaustive(self, L):
        """the small exhaustive scope again with wall-clock expiries: every single gap gets a W, every gap
        gets a W, and W / T alternate"""
        for n in range(1, L + 1):
            for t in itertools.product(b'ab', repeat=n):
                stream = bytes(t)
                for sizes in compositions(n):
                    chunks = cut(stream, sizes)
                    k = len(chunks)
                    placements = [{g: 'W'} for g in range(k + 1)]
                    placements.append({g: 'W' for g in range(k + 1)})
                    placements.append({g: 'WT'[g % 2] for g in range(k + 1)})
                    placements.append({g: 'TW'[g % 2] for g in range(k + 1)})
                    for pi, pl in enumerate(placements):
                        script = []
                        for i, c in enumerate(chunks):
                            if i in pl:
                                script.append(pl[i])
                            script.append(hx(c))
                        if k in pl:
                            script.append(pl[k])
                        for rs in (1, 2, 64):
                            for ms in (1, 2, 100):
                                for fi, fam in enumerate(self.OPFAMS):
                                    if (fi + n + pi + rs + ms + k) % 3:
                                        continue
                                    yield {'k': 'rx', 'clk': 1, 'rs': rs, 'ms': ms, 'retry': 1 if (fi + k) % 4 else 0,
                                           'script': script, 'ops': fam}

    def tx_clock_exhaustive(self):
        datas = ['-', '61', '6162', '616263']
        evs = [['a', 0], ['a', 1], ['a', 2], ['a', 9], 'T', 'W']
        for n in range(0, 4):
            for script in itertools.product(evs, repeat=n):
                if 'W' not in script:
                    continue
                for d1 in datas:
                    for d2 in ('-', '78'):
                        yield {'k': 'tx', 'clk': 1, 'script': list(script),
                               'ops': [['s', d1], ['b', d2], ['f'], ['sa', d2], ['f'], ['f'], ['f']]}
                        yield {'k': 'tx', 'clk': 1, 'script': list(script),
                               'ops': [['b', d1], ['b', d2], ['s', '-'], ['f'], ['s', d1], ['f'], ['f']]}

    def clk_random(self, rng):
        """random rx / tx cases whose timeouts are a mix of socket timeouts and wall-clock expiries"""
        if rng.random() < 0.6:
            c = self.rx_adversarial(rng) if rng.random() < 0.4 else self.rx_random(rng, onebyte=rng.random() < 0.2)
            if not any(e == 'T' for e in c['script']):
                # make sure there is something to expire
                pos = rng.randrange(len(c['script']) + 1)
                c['script'] = c['script'][:pos] + ['T'] + c['script'][pos:]
        else:
            c = self.tx_random(rng)
            if not any(e == 'T' for e in c['script']):
                pos = rng.randrange(len(c['script']) + 1)
                c['script'] = c['script'][:pos] + ['T'] + c['script'][pos:]
                c['ops'] = c['ops'] + [['f']]
        c['script'] = ['W' if e == 'T' and rng.random() < 0.7 else e for e in c['script']]
        c['clk'] = 1
        return c

    def fault_random(self, rng):
        """some of the timeouts become transient OSErrors of the wrapped socket: every exception, not only
        Timeout, must leave all bytes in place"""
        r = rng.random()
        if r < 0.35:
            c = self.rx_adversarial(rng)
        elif r < 0.7:
            c = self.rx_random(rng, onebyte=rng.random() < 0.2)
        else:
            c = self.tx_random(rng)
        sc = list(c['script'])
        if not any(e == 'T' for e in sc):
            sc.insert(rng.randrange(len(sc) + 1), 'T')
        idx = [i for i, e in enumerate(sc) if e == 'T']
        must = rng.choice(idx)
        c['script'] = ['E' if e == 'T' and (i == must or rng.random() < 0.5) else e for i, e in enumerate(sc)]
        if c['k'] == 'tx':
            c['ops'] = c['ops'] + [['f'], ['f']]
        if rng.random() < 0.5:
            c['nb'] = 1         # timeout=0.0: the nonblocking paths (`if not timeout`), faults from the socket only
        return c

    def rx_multistep(self, rng, count):
        """sequences in which one call leaves state behind for a *different* call: a call that times out
        (partial data kept) followed by another delimiter / size / close; calls on data pre-buffered by peek or by
        a recv_size surplus, with the maxsize window ending inside, at the edge of and beyond the buffered
        delimiter; setmaxsize between calls that omit maxsize"""
        for _ in range(count):
            alpha = rng.choice([b'ab', b'abc', b'a\r\n'])
            n = rng.randint(2, 10)
            stream = self.rand_stream(rng, n, alpha)
            d1 = self.rand_stream(rng, rng.choice([1, 2, 3]), alpha)
            i = rng.randrange(n)
            d2 = stream[i:i + rng.choice([1, 1, 2, 3])]
            pos = stream.find(d2)
            end = pos + len(d2)
            kind = rng.randrange(4)
            mxs = [max(0, end - 1), end, end + 1, pos, 'U', 'N']
            if kind == 0:
                # first call times out with a partial buffer, then a different call (no retry)
                cutat = rng.randint(1, n)
                script = [hx(stream[:cutat]), rng.choice(['T', 'T', 'W'])] + ([hx(stream[cutat:])] if cutat < n else [])
                first = rng.choice([['u', 0, 'U', hx(d1 + b'zz')], ['s', n + 1], ['p', n + 1], ['c', 'U'],
                                    ['u', 1, 'N', hx(b'zzz')]])
                second = rng.choice([['u', rng.randint(0, 1), rng.choice(mxs), hx(d2)], ['s', rng.randint(1, n)],
                                     ['r', rng.randint(1, n)], ['p', rng.randint(1, n)], ['c', rng.choice(mxs)]])
                ops = [first, second, ['u', 0, rng.choice(mxs), hx(d2)], ['c', 'N']]
                retry = 0
            elif kind == 1:
                # data buffered by peek, then recv_until with the window boundary around the delimiter
                script = self.rand_script(rng, stream, p_t=0.15)
                ops = [['p', rng.choice([end, n, max(1, end - 1), min(n, end + 1)])],
                       ['u', rng.randint(0, 1), rng.choice(mxs), hx(d2)], ['r', rng.randint(1, 4)], ['c', 'N']]
                retry = 1
            elif kind == 2:
                # surplus left by recv_size / recv with a large recvsize, then the boundary call
                script = [hx(stream)] if rng.random() < 0.5 else self.rand_script(rng, stream, p_t=0.1)
                k0 = rng.randint(0, max(0, pos))
                ops = [rng.choice([['s', k0], ['r', max(1, k0)]]),
                       ['u', rng.randint(0, 1), rng.choice([max(0, end - k0 - 1), max(0, end - k0), end - k0 + 1, 'U']),
                        hx(d2)], ['p', rng.randint(0, 3)], ['c', rng.choice(mxs)]]
                retry = 1
            else:
                # setmaxsize between calls that omit maxsize
                script = self.rand_script(rng, stream, p_t=0.15)
                ops = [['m', rng.choice([0, 1, end - 1 if end > 0 else 0, end, n, n + 1])],
                       rng.choice([['u', rng.randint(0, 1), 'U', hx(d2)], ['c', 'U']]),
                       ['m', rng.choice([0, end, n, 100])],
                       rng.choice([['u', rng.randint(0, 1), 'U', hx(d2)], ['c', 'U']]), ['c', 'N']]
                retry = 1
            clk = 1 if any(e == 'W' for e in script) else 0
            case = {'k': 'rx', 'rs': rng.choice([1, 2, 3, 64]), 'ms': rng.choice([1, 2, 3, end, n, 100]),
                    'retry': retry, 'script': script, 'ops': ops}
            if clk:
                case['clk'] = 1
            yield case

    def duo_random(self, rng):
        """two sockets in one process: their calls interleaved; each must behave as if it were alone"""
        def one():
            r = rng.random()
            if r < 0.5:
                c = self.tx_random(rng)
            elif r < 0.8:
                c = self.rx_random(rng)
            else:
                c = self.rx_adversarial(rng)
            return c
        a, b = one(), one()
        na, nb = len(a['ops']), len(b['ops'])
        order = [0] * na + [1] * nb
        rng.shuffle(order)
        return {'k': 'duo', 'a': a, 'b': b, 'order': order}

    NS_SIZES = [0, 1, 5, 9, 10, 11, 99, 100, 101, 999, 1000, 32768]

    def ns_config_cases(self):
        """reader configured through every path; constructor maxsize smaller and larger than the effective
        one, digit-count boundaries; payload lengths at the effective maxsize and where its prefix gets longer"""
        for c0 in (0, 5, 9, 10, 99, 100, 32768):
            for ms in (0, 5, 9, 10, 11, 99, 100, 101, 1000):
                for path in ([['c', c0], ['s', ms]], [['c', c0], ['a', ms]], [['c', c0], ['s', 3], ['s', ms]],
                             [['c', ms], ['s', c0], ['a', ms]], [['c', c0], ['s', ms], ['a', ms]]):
                    lens = sorted({0, 1, min(ms, 9), min(ms, 10), min(ms, 99), min(ms, 100), ms})
                    payloads = [hx(bytes([97 + (i % 3)]) * ln) for i, ln in enumerate(lens)]
                    yield {'k': 'ns', 'ms': ms, 'wscript': [], 'cuts': [3, 1, 2] * 40, 'nreads': len(payloads),
                           'payloads': payloads, 'rcfg': path}

    def ns_cfg_random(self, rng):
        c = self.ns_random(rng) if rng.random() < 0.6 else self.nsr_random(rng)
        ms = c['ms']
        c.pop('via', None)
        path = [['c', rng.choice(self.NS_SIZES)]]
        for _ in range(rng.choice([0, 0, 1, 2])):
            path.append(['s', rng.choice(self.NS_SIZES)])
        if rng.random() < 0.5:
            path.append(['a', ms])
        elif len(path) == 1:
            path = [['c', ms]]
        else:
            path[-1] = ['s', ms]
        c['rcfg'] = path
        return c

    # ---- round 3: ONE BufferedSocket used in both directions, flags, nonblocking mode
    DX_FAMS = [
        [['R', ['u', 0, 'U', '6162']], ['S', ['b', '78']], ['R', ['p', 2]], ['S', ['s', '7980']], ['R', ['s', 1]],
         ['S', ['f']], ['R', ['c', 'U']], ['S', ['f']]],
        [['S', ['s', '787980']], ['R', ['s', 2]], ['S', ['f']], ['R', ['rf', 1, 2]], ['S', ['sf', '7a', 1]],
         ['R', ['r', 1]], ['S', ['f']], ['R', ['c', 'N']]],
        [['R', ['s', 3]], ['S', ['sa', '78']], ['R', ['s', 3]], ['S', ['b', '79']], ['R', ['m', 1]], ['S', ['f']],
         ['R', ['c', 'U']], ['S', ['saf', '7a', 0]], ['R', ['rf', 2, 0]]],
    ]

    def dx_small(self):
        """small exhaustive scope: streams <= 3 bytes over {a,b} x all chunkings x one fault (T / W / E) in every
        gap x send scripts with one fault x three interleaved families"""
        sscripts = [[], [['a', 1]], [['a', 1], 'T'], ['W', ['a', 2]], [['a', 2], 'W'], ['E'], [['a', 0], ['a', 1], 'E']]
        for n in range(1, 4):
            for t in itertools.product(b'ab', repeat=n):
                stream = bytes(t)
                for sizes in compositions(n):
                    chunks = cut(stream, sizes)
                    k = len(chunks)
                    for g in range(k + 2):
                        for fk in 'TWE':
                            script = [hx(c) for c in chunks]
                            if g <= k:
                                script.insert(g, fk)
                            elif fk != 'T':
                                continue
                            for si, ss in enumerate(sscripts):
                                for fi, fam in enumerate(self.DX_FAMS):
                                    if (n + g + si + fi + k) % 3:
                                        continue
                                    clk = 1 if ('W' in script or 'W' in ss) else 0
                                    c = {'k': 'dx', 'rs': (1, 2, 64)[(g + si) % 3], 'ms': (2, 100)[(fi + k) % 2],
                                         'rscript': script, 'sscript': ss, 'ops': fam}
                                    if clk:
                                        c['clk'] = 1
                                    elif (g + fi) % 2:
                                        c['nb'] = 1
                                    yield c

    def dx_random(self, rng):
        a = self.rx_adversarial(rng) if rng.random() < 0.4 else self.rx_random(rng, onebyte=rng.random() < 0.2)
        b = self.tx_random(rng)
        rops = [['R', op] for op in a['ops']]
        sops = [['S', op] for op in b['ops']]
        # flags: refused calls in between (and flags=0 written out)
        for _ in range(rng.choice([0, 1, 1, 2])):
            rops.insert(rng.randrange(len(rops) + 1), ['R', ['rf', rng.choice([0, 1, 2, 5]), rng.choice([0, 1, 2, 64])]])
        for _ in range(rng.choice([0, 1, 1, 2])):
            d = hx(self.rand_stream(rng, rng.choice([0, 1, 2, 3]), b'xyz'))
            sops.insert(rng.randrange(len(sops)) if sops else 0,
                        ['S', [rng.choice(['sf', 'saf']), d, rng.choice([0, 1, 2, 64])]])
        nf_r = sum(1 for e in a['script'] if is_to(e))
        rops += [['R', ['c', 'N']]] * (1 + nf_r)
        sops += [['S', ['f']]]
        # interleave, keeping each direction's order
        order = [0] * len(rops) + [1] * len(sops)
        rng.shuffle(order)
        ir, it, ops = iter(rops), iter(sops), []
        for w in order:
            ops.append(next(ir) if w == 0 else next(it))
        mode = rng.random()
        rs_, ss_ = list(a['script']), list(b['script'])
        c = {'k': 'dx', 'rs': a['rs'], 'ms': a['ms'], 'ops': ops}
        if mode < 0.4:
            rs_ = ['W' if e == 'T' and rng.random() < 0.6 else e for e in rs_]
            ss_ = ['W' if e == 'T' and rng.random() < 0.6 else e for e in ss_]
            if 'W' in rs_ or 'W' in ss_:
                c['clk'] = 1
        elif mode < 0.7:
            rs_ = ['E' if e == 'T' and rng.random() < 0.6 else e for e in rs_]
            ss_ = ['E' if e == 'T' and rng.random() < 0.6 else e for e in ss_]
            if rng.random() < 0.5:
                c['nb'] = 1
        c['rscript'], c['sscript'] = rs_, ss_
        return c

    def rand_stream(self, rng, n, alpha):
        return bytes(rng.choice(alpha) for _ in range(n))

    def rand_script(self, rng, stream, onebyte=False, p_t=0.25):
        if onebyte:
            sizes = [1] * len(stream)
        else:
            sizes = []
            left = len(stream)
            mx = rng.choice([1, 2, 3, 5, 9, 50])
            while left > 0:
                s = rng.randint(1, mx)
                sizes.append(s)
                left -= s
        script = []
        for c in cut(stream, sizes):
            while rng.random() < p_t:
                script.append('T')
            script.append(hx(c))
        while rng.random() < p_t:
            script.append('T')
        return script

    def rand_max(self, rng, around):
        r = rng.random()
        if r < 0.25:
            return 'U'
        if r < 0.32:
            return 'N'
        return max(0, around + rng.choice([-2, -1, 0, 0, 1, 2, 5, 40]))

    def rand_op(self, rng, rem_hint, alpha):
        r = rng.random()
        n = len(rem_hint)
        if r < 0.45:
            # delimiter: usually a slice of what is ahead, so that it really occurs
            if n and rng.random() < 0.8:
                i = rng.randrange(n)
                ld = rng.choice([1, 1, 2, 2, 3, 4])
                d = rem_hint[i:i + ld]
            else:
                d = self.rand_stream(rng, rng.choice([0, 1, 1, 2, 3]), alpha)
            pos = rem_hint.find(d) if d else 0
            around = (pos + len(d)) if pos >= 0 else n
            return ['u', rng.randint(0, 1), self.rand_max(rng, around), hx(d)]
        if r < 0.65:
            return ['s', rng.choice([0, 1, 1, 2, 3, 5, max(0, n - 1), n, n + 1])]
        if r < 0.78:
            return ['p', rng.choice([0, 1, 2, 3, 7, n, n + 1])]
        if r < 0.9:
            return ['r', rng.choice([0, 1, 1, 2, 3, 8, 100])]
        if r < 0.93:
            return ['m', max(0, n + rng.choice([-3, -1, 0, 1, 4]))]
        return ['c', self.rand_max(rng, n)]

    def rx_random(self, rng, onebyte=False, big=False):
        alpha = rng.choice([b'ab', b'ab', b'a\r\n', b'abc:,', bytes(range(256))])
        n = rng.randint(0, 400) if big else rng.randint(0, 48) if rng.random() < 0.3 else rng.randint(0, 14)
        stream = self.rand_stream(rng, n, alpha)
        script = self.rand_script(rng, stream, onebyte=onebyte or rng.random() < 0.15)
        ops = []
        hint = stream
        for _ in range(rng.randint(1, 7)):
            op = self.rand_op(rng, hint, alpha)
            ops.append(op)
            # crude advance of the hint so later delimiters are drawn from later parts of the stream
            if op[0] in ('s', 'r'):
                hint = hint[op[1]:]
            elif op[0] == 'u':
                d = unhx(op[3])
                p = hint.find(d) if d else -1
                if p >= 0:
                    hint = hint[p + len(d):]
        return {'k': 'rx', 'rs': rng.choice([1, 1, 2, 3, 5, 8, 64, 32768]),
                'ms': rng.choice([0, 1, 2, 3, 5, 8, 16, max(0, n - 1), n, n + 1, 32768]),
                'retry': 0 if rng.random() < 0.25 else 1, 'script': script, 'ops': ops}

    def rx_adversarial(self, rng):
        """boundary placements: the delimiter straddles a chunk edge (every split point of the delimiter),
        the requested size is met exactly at an edge, maxsize sits at offset+len(delim) -1/0/+1, a timeout falls
        just before the byte that completes the call"""
        alpha = rng.choice([b'ab', b'abc', b'a\r\n'])
        ld = rng.choice([1, 2, 2, 3, 3, 4])
        d = self.rand_stream(rng, ld, alpha)
        pre = self.rand_stream(rng, rng.randint(0, 6), alpha)
        post = self.rand_stream(rng, rng.randint(0, 6), alpha)
        stream = pre + d + post
        first = stream.find(d)
        end = first + ld
        # cut inside the first occurrence of the delimiter (or exactly at its edges)
        cutpos = sorted({min(len(stream), max(0, first + rng.randint(0, ld))),
                         rng.randint(0, len(stream)), min(len(stream), end)})
        sizes, prev = [], 0
        for c in cutpos:
            if c > prev:
                sizes.append(c - prev)
                prev = c
        chunks = cut(stream, sizes)
        script = []
        for i, c in enumerate(chunks):
            if rng.random() < 0.4:
                script.append('T')
            script.append(hx(c))
        if rng.random() < 0.4:
            script.append('T')
        kind = rng.random()
        mx = rng.choice([end - 1, end, end + 1, end, 'U', max(0, first), len(stream), max(0, len(stream) - 1)])
        if isinstance(mx, int) and mx < 0:
            mx = 0
        if kind < 0.5:
            ops = [['u', rng.randint(0, 1), mx, hx(d)], ['u', rng.randint(0, 1), mx, hx(d)], ['c', 'N']]
        elif kind < 0.7:
            ops = [['s', rng.choice([prev, end, first, len(stream), len(stream) + 1])],
                   ['u', 0, mx, hx(d)], ['p', rng.randint(0, 3)], ['c', mx]]
        elif kind < 0.85:
            ops = [['p', rng.choice([end, first + 1, len(stream), len(stream) + 1])],
                   ['u', 1, mx, hx(d)], ['s', rng.randint(0, 3)], ['c', 'U']]
        else:
            ops = [['r', rng.randint(1, 3)], ['u', 0, mx, hx(d)], ['r', rng.randint(1, 9)], ['c', mx]]
        return {'k': 'rx', 'rs': rng.choice([1, 2, 3, ld, ld + 1, 64]),
                'ms': rng.choice([end - 1 if end > 0 else 0, end, end + 1, 100]),
                'retry': 0 if rng.random() < 0.2 else 1, 'script': script, 'ops': ops}

    def rx_long(self, rng, n):
        alpha = b'ab\r\n'
        stream = self.rand_stream(rng, n, alpha)
        script = [hx(stream[i:i + 1]) for i in range(n)]
        for _ in range(20):
            script.insert(rng.randrange(len(script) + 1), 'T')
        ops = []
        for _ in range(30):
            ops.append(rng.choice([['u', 0, 'N', '0d0a'], ['u', 1, 20000, '0d0a'], ['s', rng.randint(1, 300)],
                                   ['p', rng.randint(1, 300)], ['u', 0, 'U', '0a0a0a0a0a0a0a']]))
        ops.append(['c', 'N'])
        return {'k': 'rx', 'rs': rng.choice([1, 7, 32768]), 'ms': 32768, 'retry': 1, 'script': script, 'ops': ops}

    def tx_random(self, rng):
        script = []
        for _ in range(rng.randint(0, 8)):
            script.append('T' if rng.random() < 0.3 else ['a', rng.choice([0, 1, 1, 2, 3, 5, 100])])
        ops = []
        for _ in range(rng.randint(1, 8)):
            r = rng.random()
            d = hx(self.rand_stream(rng, rng.choice([0, 1, 2, 3, 6, 12]), b'abcdefgh'))
            if r < 0.35:
                ops.append(['s', d])
            elif r < 0.5:
                ops.append(['sa', d])
            elif r < 0.75:
                ops.append(['b', d])
            else:
                ops.append(['f'])
        ops += [['f']] * (1 + sum(1 for e in script if is_to(e)))
        return {'k': 'tx', 'script': script, 'ops': ops}

    def rand_payload(self, rng, maxlen):
        alpha = rng.choice([b'ab', b'0123456789:,', b'a:,1', bytes(range(256))])
        return self.rand_stream(rng, rng.randint(0, maxlen), alpha)

    def ns_random(self, rng):
        ms = rng.choice([0, 1, 5, 9, 10, 11, 12, 99, 100, 32768])
        np_ = rng.randint(0, 4)
        payloads = []
        for _ in range(np_):
            r = rng.random()
            if r < 0.15:
                ln = ms + rng.randint(0, 1)      # at / just over the limit
                payloads.append(self.rand_stream(rng, min(ln, 140), b'ab:,7'))
            else:
                payloads.append(self.rand_payload(rng, min(ms, 14)))
        wscript = []
        for _ in range(rng.randint(0, 5)):
            wscript.append('T' if rng.random() < 0.3 else ['a', rng.choice([1, 1, 2, 3, 7])])
        mode = rng.random()
        if mode < 0.3:
            cuts = [1] * 400
        elif mode < 0.4:
            cuts = []
        else:
            cuts = [rng.randint(1, 6) for _ in range(rng.randint(1, 30))]
        return {'k': 'ns', 'ms': ms, 'wscript': wscript, 'cuts': cuts, 'nreads': np_ + rng.randint(0, 1),
                'payloads': [hx(p) for p in payloads], 'via': rng.choice(['ctor', 'ctor', 'set', 'arg'])}

    def ns_long(self, rng):
        payloads = [self.rand_stream(rng, rng.choice([0, 9, 10, 99, 100, 999, 1000, 5000]), bytes(range(256)))
                    for _ in range(6)]
        return {'k': 'ns', 'ms': 32768, 'wscript': [['a', 7], 'T', ['a', 1000], 'T'], 'cuts': [1] * 30000,
                'nreads': 7, 'payloads': [hx(p) for p in payloads]}

    def nsr_lenient(self, rng):
        """size prefixes only Python's int() understands: padded with whitespace, signed (negative too),
        grouped with underscores - and near misses of those"""
        ms = rng.choice([0, 5, 9, 10, 99, 100, 32768])
        frames = b''
        for _ in range(rng.randint(1, 3)):
            p = self.rand_payload(rng, 6)
            num = str(len(p)).encode()
            r = rng.random()
            if r < 0.2:
                num = rng.choice([b' ', b'\t', b'\n', b'\x0b\x0c', b'']) + num + rng.choice([b' ', b'\r', b''])
            elif r < 0.4:
                num = rng.choice([b'+', b'-', b'+0', b'-0', b'00']) + num
            elif r < 0.55:
                num = b'_'.join(bytes([c]) for c in num.rjust(2, b'0'))
            elif r < 0.7:
                num = rng.choice([b'_', b'+ ', b'1__', b'- ', b'', b' ', b'+', b'0_']) + num
            elif r < 0.8:
                num = num + rng.choice([b'_', b' 1', b'+', b'-'])
            frames += num + b':' + p + b','
        s = bytearray(frames)
        if s and rng.random() < 0.3:
            s[rng.randrange(len(s))] = rng.choice(INT_LENIENT + b'0:,')
        script = self.rand_script(rng, bytes(s), onebyte=rng.random() < 0.3, p_t=0.1 if rng.random() < 0.3 else 0.0)
        c = {'k': 'nsr', 'ms': ms, 'script': script, 'nreads': rng.randint(1, 4), 'rcfg': [['c', ms]]}
        return c

    def nsr_random(self, rng):
        ms = rng.choice([0, 5, 9, 10, 99, 100, 32768])
        alpha = b'0123456789::,,ab'
        if rng.random() < 0.6:
            # valid frames, then a few point mutations
            frames = b''.join(b'%d:%s,' % (len(p), p) for p in
                              (self.rand_payload(rng, 8) for _ in range(rng.randint(1, 3))))
            s = bytearray(frames)
            for _ in range(rng.choice([0, 0, 1, 1, 2])):
                if not s:
                    break
                i = rng.randrange(len(s))
                m = rng.random()
                if m < 0.4:
                    s[i] = rng.choice(alpha)
                elif m < 0.7:
                    del s[i]
                else:
                    s.insert(i, rng.choice(alpha))
            stream = bytes(s)
        else:
            stream = self.rand_stream(rng, rng.randint(0, 14), alpha)
        script = self.rand_script(rng, stream, onebyte=rng.random() < 0.3, p_t=0.1 if rng.random() < 0.4 else 0.0)
        return {'k': 'nsr', 'ms': ms, 'script': script, 'nreads': rng.randint(1, 4),
                'via': rng.choice(['ctor', 'ctor', 'set', 'arg'])}

    # ------------------------------------------------------------------ model line
    @staticmethod
    def _script_tok(script):
        return ','.join({'T': 't', 'W': 'w', 'E': 'e'}.get(e, e) for e in script) or '-'

    @staticmethod
    def _sscript_tok(script):
        return ','.join({'T': 't', 'W': 'w', 'E': 'e'}[e] if is_to(e) else 'a%d' % e[1] for e in script) or '-'

    @staticmethod
    def _rcfg(case):
        """how the reading NetstringSocket is configured: [['c', n], ['s', n]*, ['a', n]?]"""
        if 'rcfg' in case:
            return case['rcfg']
        import boltons.socketutils as su
        via = case.get('via', 'ctor')
        if via == 'ctor':
            return [['c', case['ms']]]
        return [['c', su.DEFAULT_MAXSIZE], ['s' if via == 'set' else 'a', case['ms']]]

    @classmethod
    def _rcfg_tok(cls, case):
        return ','.join('%s%d' % (k, n) for k, n in cls._rcfg(case))

    @classmethod
    def _ms_eff(cls, case):
        return cls._rcfg(case)[-1][1]

    @staticmethod
    def _rx_tok(op, obs=()):
        if op[0] in ('r', 'p', 's'):
            return '@'.join(['%s%d' % (op[0], op[1])] + list(obs))
        if op[0] == 'u':
            return '@'.join(['u%d:%s:%s' % (op[1], op[2], op[3])] + list(obs))
        if op[0] == 'c':
            return '@'.join(['c%s' % op[1]] + list(obs))
        if op[0] == 'm':
            return 'm%d' % op[1]
        if op[0] == 'rf':
            return '@'.join(['F%d:%d' % (op[1], op[2])] + list(obs)[:1])        # dx only
        raise InfraError('bad rx op %r' % (op,))

    @staticmethod
    def _tx_tok(op, offers=None):
        tail = '@' + '.'.join(map(str, offers)) if offers else ''
        if op[0] in ('s', 'sa'):
            return 's' + op[1] + tail
        if op[0] == 'b':
            return 'b' + op[1]
        if op[0] in ('sf', 'saf'):
            return 'F%s:%d' % (op[1], op[2]) + (tail if op[2] == 0 else '')       # dx only
        return 'f' + tail

    # ---- what the statement leaves free, resolved by observation before the model is asked
    # (1) WHERE on the send side the code compares the clock with its deadline (after every sock.send? also after
    #     the one that emptied the buffer?) - the statement quantifies over all placements of timeouts, the model
    #     has the check after every sock.send.  A 'W' of a send script reaches the model as a deadline event
    #     (`w`, SEv.clock) only if a deadline check of the code really fired for it; a 'W' that the socket turned
    #     into socket.timeout (or that nothing used up) reaches it as `t` - on the verified code the two scripts
    #     are indistinguishable (sendLoop treats a leading .clock and a leading .timeout alike).
    # (2) whether recv / send REFUSE non-zero flags (ValueError) or take them: a call that was not refused
    #     reaches the model as the plain call.
    def _hint(self, case):
        cache = self.__dict__.setdefault('_hints', {})
        if len(cache) > 8000:
            for k in list(cache)[:4000]:
                del cache[k]
        ent = cache.get(id(case))
        if ent is None or ent[0] is not case:
            ent = (case, {})
            cache[id(case)] = ent
        return ent[1]

    def _hints_for(self, case):
        h = self._hint(case)
        if 'ran' not in h:
            self.impl(case)         # line() asked before impl() ran on this object (replay, shrinking)
            h = self._hint(case)
        return h

    # (3) round 3c - WHICH prefix recv() returns and how the rest is split between rbuf and the socket: every recv
    #     attempt reaches the model as an observation (result, getrecvbuffer(), bytes and faults the network still
    #     holds) which the model accepts or rejects against the statement's recv clause, continuing from the
    #     observed state.
    # (4) how many bytes each sock.send of a send()/flush() call is given: reaches the model as `offers` when some
    #     sock.send was given less than everything not yet on the wire.
    @staticmethod
    def _obs_tok(rec):
        r = rec['r']
        if rec.get('rbuf') == 'nonbytes':
            return 'X~-~0~0'
        if r == 'ok' and rec['op_kind'] in ('r', 'rf'):
            if rec['v'].startswith('nonbytes'):
                return 'X~-~0~0'
            res = 'v' + rec['v']
        elif r == 'oserror':
            res = 'E'
        elif r == 'timeout' or rec['op_kind'] not in ('r', 'rf'):
            res = 'T'       # (for a framing call only the split is read)
        else:
            return 'X~-~0~0'
        return '%s~%s~%d~%d' % (res, rec['rbuf'], rec['ul'], rec['fl'])

    @staticmethod
    def _offers(fs, n0, total):
        """the offers of the sock.send calls made since index n0, or None when every one of them was given
        everything that was not yet on the wire (total = bytes on the wire + bytes buffered after the public call,
        which a send-side call does not change once the data is appended)"""
        if len(fs.sends) == n0:
            return None
        calls = fs.sends[n0:]
        if all(o + w == total for o, w in calls):
            return None
        return [o for o, _ in calls]

    def _sscript_tok_observed(self, case, key):
        script = case[key]
        if 'W' not in script:
            return self._sscript_tok(script)
        how = self._hints_for(case).get('w_how', [])
        out, wi = [], 0
        for e in script:
            if e == 'W':
                out.append('w' if wi < len(how) and how[wi] == 'C' else 't')
                wi += 1
            elif is_to(e):
                out.append({'T': 't', 'E': 'e'}[e])
            else:
                out.append('a%d' % e[1])
        return ','.join(out) or '-'

    def line(self, case):
        k = case['k']
        if k == 'rx':
            if case['rs'] < 1:
                return None
            robs = self._hints_for(case).get('robs', {})
            return ' '.join(['rx', str(case['rs']), str(case['ms']), str(case['retry']),
                             self._script_tok(case['script'])] +
                            [self._rx_tok(op, robs.get(i, ())) for i, op in enumerate(case['ops'])])
        if k == 'tx':
            offs = self._hints_for(case).get('offers', {})
            return ' '.join(['tx', self._sscript_tok_observed(case, 'script')] +
                            [self._tx_tok(op, offs.get(i)) for i, op in enumerate(case['ops'])])
        if k == 'dx':
            if case['rs'] < 1:
                return None
            hints = self._hints_for(case)
            refused = set(hints.get('refused', []))
            robs, offs = hints.get('robs', {}), hints.get('offers', {})

            def tok(i, side, op):
                if op[0] in ('rf', 'sf', 'saf') and op[2] != 0 and i not in refused:
                    op = ['r', op[1]] if op[0] == 'rf' else ['s', op[1]]       # flags taken: the plain call
                if op[0] == 'rf' and op[2] != 0:
                    return side + self._rx_tok(op)                              # refused: no observation needed
                return side + (self._rx_tok(op, robs.get(i, ())) if side == 'R' else self._tx_tok(op, offs.get(i)))
            return ' '.join(['dx', str(case['rs']), str(case['ms']), self._script_tok(case['rscript']),
                             self._sscript_tok_observed(case, 'sscript')] +
                            [tok(i, side, op) for i, (side, op) in enumerate(case['ops'])])
        if k == 'ns':
            woffs = self._hints_for(case).get('woffs', [])

            def ptok(i, p):
                offs = woffs[i] if i < len(woffs) else []
                return '@'.join([p] + ['.'.join(map(str, o)) if o else '_' for o in offs])
            return ' '.join(['ns', str(case['ms']), self._sscript_tok(case['wscript']),
                             ','.join(map(str, case['cuts'])) or '-', str(case['nreads']), self._rcfg_tok(case)]
                            + [ptok(i, p) for i, p in enumerate(case['payloads'])])
        if k == 'nsr':
            return ' '.join(['nsr', self._rcfg_tok(case), self._script_tok(case['script']), str(case['nreads'])] +
                            list(self._hints_for(case).get('splits', ())))
        if k == 'duo':
            la, lb = self.line(case['a']), self.line(case['b'])
            if la is None or lb is None:
                return None
            return 'duo %s | %s' % (la, lb)
        return None

    # ------------------------------------------------------------------ implementation
    @staticmethod
    def _rscript(script):
        return [e if is_to(e) else unhx(e) for e in script]

    @staticmethod
    def _sscript(script):
        return [e if is_to(e) else ('a', e[1]) for e in script]

    def _call_rx(self, bs, op, ms):
        def mx(m):
            return {} if m == 'U' else {'maxsize': None} if m == 'N' else {'maxsize': m}
        if op[0] == 'r':
            return bs.recv(op[1])
        if op[0] == 'rf':
            return bs.recv(op[1], op[2])
        if op[0] == 'p':
            return bs.peek(op[1])
        if op[0] == 's':
            return bs.recv_size(op[1])
        if op[0] == 'u':
            return bs.recv_until(unhx(op[3]), with_delimiter=bool(op[1]), **mx(op[2]))
        if op[0] == 'c':
            return bs.recv_close(**mx(op[1]))
        raise InfraError('bad rx op %r' % (op,))

    def run_rx(self, case):
        out = []
        for _ in self.step_rx(case, out):
            pass
        return out

    def run_tx(self, case):
        out = []
        for _ in self.step_tx(case, out):
            pass
        return out

    def _do_rx(self, bs, op, rec, clock, clk, ms):
        """one receive-side public call on `bs`; the outcome goes into rec['r'] / rec['v']"""
        clock.begin_call()
        try:
            with (patched_clock(clock) if clk else nullctx()):
                if op[0] == 'm':
                    v = bs.setmaxsize(op[1])
                    rec['r'] = 'none' if v is None else 'exc:ret'
                else:
                    v = self._call_rx(bs, op, ms)
                    rec['r'] = 'ok'
                    rec['v'] = (hx(bytes(v)) if isinstance(v, (bytes, bytearray))
                                else 'nonbytes:%s' % type(v).__name__)
                    if not isinstance(v, bytes):
                        self._live.append((v, rec))      # a mutable return value must not change later
        except CaseTimeout:
            raise
        except Exception as e:
            rec['r'] = EXC.get(exc_name(e), 'exc:' + exc_name(e))
            if op[0] == 'rf' and op[2] != 0 and exc_name(e) == 'ValueError':
                rec['r'] = 'valueerror'
        clock.end_call(rec['r'])

    def _do_tx(self, bs, op, rec, clock, clk, fs=None):
        """one send-side public call on `bs`"""
        clock.begin_call()
        try:
            with (patched_clock(clock) if clk else nullctx()):
                if op[0] == 's':
                    v = bs.send(unhx(op[1]))
                elif op[0] == 'sa':
                    v = bs.sendall(unhx(op[1]))
                elif op[0] == 'sf':
                    v = bs.send(unhx(op[1]), op[2])
                elif op[0] == 'saf':
                    v = bs.sendall(unhx(op[1]), op[2])
                elif op[0] == 'b':
                    v = bs.buffer(unhx(op[1]))
                else:
                    v = bs.flush()
            rec['r'] = 'none' if v is None else 'sent:%d' % v if isinstance(v, int) else 'ret:%r' % (v,)
        except CaseTimeout:
            raise
        except Exception as e:
            rec['r'] = EXC.get(exc_name(e), 'exc:' + exc_name(e))
            if op[0] in ('sf', 'saf') and op[2] != 0 and exc_name(e) == 'ValueError':
                rec['r'] = 'valueerror'
        clock.end_call(rec['r'], fs)

    @staticmethod
    def _tmo(case):
        """the BufferedSocket timeout of a case: 1000.0 under the scripted clock, 0.0 = nonblocking (nb=1:
        faults then come from the socket only, the code takes its `if not timeout` paths), else None"""
        return CLK_TIMEOUT if case.get('clk') else 0.0 if case.get('nb') else None

    def _check_live(self, out):
        """return values that are not immutable bytes: still the value that was returned?"""
        for v, rec in self._live:
            try:
                now = hx(bytes(v))
            except Exception:
                now = 'unreadable'
            if now != rec.get('v'):
                rec['v'] = 'nonbytes:changed-after-return(%s->%s)' % (rec.get('v'), now)
        self._live = []

    def step_rx(self, case, out):
        """generator: performs one op of the case (with its retries) per step, appending records to `out`"""
        from boltons.socketutils import BufferedSocket
        fs = FakeSock(self._rscript(case['script']))
        clk = case.get('clk')
        clock = FakeClock(fs.rscript)
        if clk:
            fs.clock = clock
        bs = BufferedSocket(fs, timeout=self._tmo(case), maxsize=case['ms'], recvsize=case['rs'])
        tries = 1 + (sum(1 for e in case['script'] if is_to(e)) if case['retry'] else 0)
        h = self._hint(case)
        h['ran'] = True
        robs = h['robs'] = {}
        for i, op in enumerate(case['ops']):
            yield
            for _ in range(tries):
                rec = {'op': i}
                self._do_rx(bs, op, rec, clock, clk, case['ms'])
                rb = bs.getrecvbuffer()
                rec['rbuf'] = hx(bytes(rb)) if isinstance(rb, (bytes, bytearray)) else 'nonbytes'
                und, rec['fl'] = fs.owed()
                rec['und'], rec['ul'] = hx(und), len(und)
                rec['op_kind'] = op[0]
                if op[0] != 'm':
                    robs.setdefault(i, []).append(self._obs_tok(rec))
                out.append(rec)
                if rec['r'] != 'timeout' and rec['r'] != 'oserror':
                    break

    def step_tx(self, case, out):
        from boltons.socketutils import BufferedSocket
        fs = FakeSock((), self._sscript(case['script']))
        clk = case.get('clk')
        clock = FakeClock(fs.sscript)
        if clk:
            fs.clock = clock
        bs = BufferedSocket(fs, timeout=self._tmo(case))
        h = self._hint(case)
        h['ran'] = True
        h['w_how'] = []
        offs = h['offers'] = {}
        for i, op in enumerate(case['ops']):
            yield
            rec = {'op': i}
            n0 = len(fs.sends)
            self._do_tx(bs, op, rec, clock, clk, fs)
            sb = bytes(bs.getsendbuffer())
            rec['sbuf'] = hx(sb)
            rec['wire'] = hx(fs.wire)
            rec['left'] = sum(1 for e in fs.sscript if is_to(e))
            out.append(rec)
            h['w_how'] = list(fs.w_how)
            o = self._offers(fs, n0, len(sb) + len(fs.wire))
            if o:
                offs[i] = o

    def run_duo(self, case):
        """two sockets, calls interleaved as `order` says (then whatever is left of each)"""
        outs = ([], [])
        gens = [self.step_rx(c, o) if c['k'] == 'rx' else self.step_tx(c, o)
                for c, o in zip((case['a'], case['b']), outs)]
        alive = [True, True]

        def adv(w):
            if alive[w]:
                try:
                    next(gens[w])
                except StopIteration:
                    alive[w] = False
        adv(0)      # both sockets exist before either is used
        adv(1)
        for w in case['order']:
            adv(w)
        for w in (0, 1):
            while alive[w]:
                adv(w)
        def sub(c, recs):
            if c['k'] == 'tx':
                return {'recs': recs, 'left': recs[-1]['left'] if recs else sum(1 for e in c['script'] if is_to(e))}
            return {'recs': recs}
        return {'a': sub(case['a'], outs[0]), 'b': sub(case['b'], outs[1])}

    def run_dx(self, case):
        """ONE BufferedSocket over one scripted socket; receive-side and send-side calls interleaved, one
        attempt each; after every call all four observables are recorded"""
        from boltons.socketutils import BufferedSocket
        fs = FakeSock(self._rscript(case['rscript']), self._sscript(case['sscript']))
        clk = case.get('clk')
        clock = FakeClock()
        if clk:
            fs.clock = clock
        bs = BufferedSocket(fs, timeout=self._tmo(case), maxsize=case['ms'], recvsize=case['rs'])
        out = []
        robs, offs = {}, {}
        for i, (side, op) in enumerate(case['ops']):
            rec = {'op': i}
            n0 = len(fs.sends)
            if side == 'R':
                self._do_rx(bs, op, rec, clock, clk, case['ms'])
            else:
                self._do_tx(bs, op, rec, clock, clk, fs)
            rb = bs.getrecvbuffer()
            rec['rbuf'] = hx(bytes(rb)) if isinstance(rb, (bytes, bytearray)) else 'nonbytes'
            und, rec['fl'] = fs.owed()
            rec['und'], rec['ul'] = hx(und), len(und)
            sb = bytes(bs.getsendbuffer())
            rec['sbuf'] = hx(sb)
            rec['wire'] = hx(fs.wire)
            rec['left'] = sum(1 for e in fs.sscript if is_to(e))
            out.append(rec)
            rec['op_kind'] = op[0]
            if side == 'R' and op[0] != 'm':
                robs[i] = [self._obs_tok(rec)]
            if side == 'S':
                o = self._offers(fs, n0, len(sb) + len(fs.wire))
                if o:
                    offs[i] = o
        h = self._hint(case)
        h['ran'] = True
        h['w_how'] = list(fs.w_how)
        h['refused'] = [r['op'] for r in out if r['r'] == 'valueerror']
        h['robs'], h['offers'] = robs, offs
        return out

    @classmethod
    def _mk_ns(cls, fake, case):
        """the reading NetstringSocket configured as the case says: constructor maxsize, then setmaxsize()
        calls, then (optionally) the maxsize= argument of every read_ns"""
        from boltons.socketutils import NetstringSocket
        path = cls._rcfg(case)
        ns = NetstringSocket(fake, timeout=None, maxsize=path[0][1])
        kw = {}
        for kind, n in path[1:]:
            if kind == 's':
                ns.setmaxsize(n)
            elif kind == 'a':
                kw = {'maxsize': n}
        ns.bsock.settimeout(None)
        return ns, kw

    def run_ns(self, case):
        from boltons.socketutils import NetstringSocket
        fw = FakeSock((), self._sscript(case['wscript']))
        w = NetstringSocket(fw, timeout=None, maxsize=case['ms'])
        w.bsock.settimeout(None)
        bound = 1 + sum(1 for e in case['wscript'] if e == 'T')
        wres = []
        woffs = []          # per payload: the offers of the write_ns call, then of each flush after it ('_' = whole)

        def offers(n0):
            if len(fw.sends) == n0:
                return None
            return self._offers(fw, n0, len(bytes(w.bsock.getsendbuffer())) + len(fw.wire))
        for p in case['payloads']:
            offs = []
            n0 = len(fw.sends)
            try:
                w.write_ns(unhx(p))
                wres.append('ok')
                offs.append(offers(n0))
            except CaseTimeout:
                raise
            except Exception as e:
                offs.append(offers(n0))
                r = EXC.get(exc_name(e), 'exc:' + exc_name(e))
                if r == 'timeout':
                    for _ in range(bound):
                        n0 = len(fw.sends)
                        try:
                            w.bsock.flush()
                            r += '+flushed'
                            offs.append(offers(n0))
                            break
                        except CaseTimeout:
                            raise
                        except Exception as e2:
                            offs.append(offers(n0))
                            r += '+' + EXC.get(exc_name(e2), 'exc:' + exc_name(e2))
                wres.append(r)
            woffs.append(offs if any(offs) else [])
        h = self._hint(case)
        h['ran'] = True
        h['woffs'] = woffs
        wire = fw.wire
        fr = FakeSock(cut(wire, case['cuts']))
        rd, kw = self._mk_ns(fr, case)
        rres = []
        for _ in range(case['nreads']):
            try:
                v = rd.read_ns(**kw)
                rres.append('ok:' + hx(bytes(v)))
            except CaseTimeout:
                raise
            except Exception as e:
                rres.append(EXC.get(exc_name(e), 'exc:' + exc_name(e)))
        return {'w': wres, 'wire': hx(wire), 'r': rres, 'unsent': hx(bytes(w.bsock.getsendbuffer()))}

    def run_nsr(self, case):
        from boltons.socketutils import NetstringSocket
        fr = FakeSock(self._rscript(case['script']))
        rd, kw = self._mk_ns(fr, case)
        out = []
        for _ in range(case['nreads']):
            rec = {}
            try:
                v = rd.read_ns(**kw)
                rec['r'] = 'ok:' + hx(bytes(v))
            except CaseTimeout:
                raise
            except Exception as e:
                rec['r'] = EXC.get(exc_name(e), 'exc:' + exc_name(e))
            rec['rbuf'] = hx(bytes(rd.bsock.getrecvbuffer()))
            und, rec['fl'] = fr.owed()
            rec['und'], rec['ul'] = hx(und), len(und)
            out.append(rec)
        h = self._hint(case)
        h['ran'] = True
        # the split left behind by read_ns (its final recv(1) may or may not over-read) is free: the model is
        # re-seated on it after every read, and what is compared is rbuf ++ undelivered
        h['splits'] = ['%s~%d~%d' % (r['rbuf'], r['ul'], r['fl']) for r in out]
        return out

    def impl(self, case):
        k = case['k']
        self._live = []
        try:
            with time_limit(10):
                if k == 'dx':
                    recs = self.run_dx(case)
                    self._check_live(recs)
                    return {'recs': recs, 'left': recs[-1]['left'] if recs else
                            sum(1 for e in case['sscript'] if is_to(e))}
                if k == 'rx':
                    obs = {'recs': self.run_rx(case)}
                    self._check_live(obs['recs'])
                    if case['retry'] and not any(op[0] == 'r' for op in case['ops']):
                        # "as when the whole stream arrives at once": the same calls, one chunk, no timeout
                        stream = b''.join(unhx(e) for e in case['script'] if not is_to(e))
                        whole = dict(case, script=[hx(stream)] if stream else [], rs=max(len(stream), 1), clk=0)
                        obs['whole'] = [[r['r'], r.get('v')] for r in self.run_rx(whole)]
                    return obs
                if k == 'tx':
                    recs = self.run_tx(case)
                    return {'recs': recs, 'left': recs[-1]['left'] if recs else
                            sum(1 for e in case['script'] if is_to(e))}
                if k == 'duo':
                    obs = self.run_duo(case)
                    self._check_live(None)
                    return obs
                if k == 'ns':
                    return self.run_ns(case)
                if k == 'nsr':
                    return {'recs': self.run_nsr(case)}
        except CaseTimeout:
            return {'exc': 'CaseTimeout'}
        except InfraError:
            raise
        except Exception as e:
            return {'exc': exc_name(e)}
        return {'exc': 'BadCase'}

    # ------------------------------------------------------------------ canonical text
    def render(self, case, obs):
        if 'exc' in obs:
            return 'X' + obs['exc']
        k = case['k']
        if k == 'rx':
            def one(r):
                return 'ok:' + r['v'] if r['r'] == 'ok' else r['r']
            body = ';'.join('%s/%s' % (one(r), r['rbuf']) for r in obs['recs']) or '-'
            if case['retry']:
                # final outcome of every call (setmaxsize has none), final rbuf, number of operations
                last = {}
                for r in obs['recs']:
                    last[r['op']] = r
                finals = [one(last[i]) for i in sorted(last) if case['ops'][i][0] != 'm']
                nops = sum(1 for op in case['ops'] if op[0] != 'm')
                # what is still owed at the end: rbuf ++ undelivered (how it is split is free)
                if not obs['recs']:
                    owed = hx(b''.join(unhx(e) for e in case['script'] if not is_to(e)))
                elif obs['recs'][-1]['rbuf'] == 'nonbytes':
                    owed = 'nonbytes'
                else:
                    owed = hx(unhx(obs['recs'][-1]['rbuf']) + unhx(obs['recs'][-1]['und']))
                body += ' #%s/%s|%d' % (','.join(finals), owed, nops)
            return body
        if k == 'tx':
            return '%s #%d' % (';'.join('%s/%s/%s' % (r['r'], r['sbuf'], r['wire']) for r in obs['recs']) or '-',
                               obs.get('left', 0))
        if k == 'dx':
            def one(r):
                return 'ok:' + r['v'] if r['r'] == 'ok' else r['r']
            return '%s #%d' % (';'.join('%s/%s/%s/%s' % (one(r), r['rbuf'], r['sbuf'], r['wire'])
                                        for r in obs['recs']) or '-', obs.get('left', 0))
        if k == 'ns':
            return 'W:%s;%s;%s' % (','.join(obs['w']), obs['wire'], ','.join(obs['r']))
        if k == 'nsr':
            return ','.join('%s/%s' % (r['r'], hx(unhx(r['rbuf']) + unhx(r['und']))) for r in obs['recs']) or '-'
        if k == 'duo':
            return '%s | %s' % (self.render(case['a'], obs['a']), self.render(case['b'], obs['b']))
        return '?'

    # ------------------------------------------------------------------ oracle (independent of the model)
    def oracle(self, case, obs):
        self._nt = False
        if 'exc' in obs:
            return Failure('raises', 'harness-level exception %s' % obs['exc'])
        k = case['k']
        self.bump('kind_' + k)
        if k == 'rx':
            return self.oracle_rx(case, obs)
        if k == 'tx':
            return self.oracle_tx(case, obs)
        if k == 'ns':
            return self.oracle_ns(case, obs)
        if k == 'nsr':
            return self.oracle_nsr(case, obs)
        if k == 'dx':
            return self.oracle_dx(case, obs)
        if k == 'duo':
            # each socket must behave exactly as if the other one did not exist
            nt = False
            for side in ('a', 'b'):
                sub = case[side]
                f = self.oracle_rx(sub, obs[side]) if sub['k'] == 'rx' else self.oracle_tx(sub, obs[side])
                if f is not None:
                    return Failure(f.tag, 'socket %s of two interleaved sockets: %s' % (side.upper(), f.what))
                nt = nt or self._nt
            self._nt = nt
            return None
        return None

    def oracle_dx(self, case, obs):
        """one object, both directions: each direction is judged by its own oracle on the whole record list,
        the calls of the other direction standing in as foreign calls ('x') that must neither hand over nor
        accept a byte - so conservation of BOTH directions is checked after EVERY call of either"""
        ops = case['ops']
        rx_case = {'k': 'rx', 'rs': case['rs'], 'ms': case['ms'], 'retry': 0, 'script': case['rscript'],
                   'ops': [op if side == 'R' else ['x'] for side, op in ops]}
        tx_case = {'k': 'tx', 'script': case['sscript'], 'ops': [op if side == 'S' else ['x'] for side, op in ops]}
        f = self.oracle_rx(rx_case, obs)
        nt = self._nt
        if f is None:
            f = self.oracle_tx(tx_case, obs)
            nt = nt or self._nt
        if f is not None:
            return Failure(f.tag, 'one BufferedSocket used in both directions: %s' % f.what)
        both = any(side == 'R' for side, _ in ops) and any(side == 'S' for side, _ in ops)
        self._nt = bool(nt and both)
        return None

    @staticmethod
    def whole_stream_answer(op, rem, ms):
        """what the call must do when every byte of `rem` is already there: (result, value, consumed)"""
        def mx(m):
            return ms if m == 'U' else None if m == 'N' else m
        if op[0] == 's':
            n = op[1]
            if len(rem) >= n and (n > 0 or rem):
                return 'ok', rem[:n], rem[:n]
            return 'closed', None, b''
        if op[0] == 'p':
            n = op[1]
            if len(rem) >= n:
                return 'ok', rem[:n], b''
            return 'closed', None, b''
        if op[0] == 'c':
            m = mx(op[1])
            if m is None or len(rem) <= m:
                return 'ok', rem, rem
            return 'toolong', None, b''
        if op[0] == 'u':
            d, m = unhx(op[3]), mx(op[2])
            window = rem if m is None else rem[:m]
            i = window.find(d)
            if i >= 0:
                v = rem[:i + len(d)] if op[1] else rem[:i]
                return 'ok', v, rem[:i + len(d)]
            if m is not None and len(rem) > m:
                return 'toolong', None, b''
            return 'closed', None, b''
        raise InfraError('bad op')

    def oracle_rx(self, case, obs):
        script = case['script']
        stream = b''.join(unhx(e) for e in script if not is_to(e))
        n_t = sum(1 for e in script if e == 'T' or e == 'W')
        n_e = sum(1 for e in script if e == 'E')
        rem = stream
        delivered = b''
        seen_t = seen_e = 0
        got_value = False
        done = {}
        cur_ms = case['ms']
        for rec in obs['recs']:
            op = case['ops'][rec['op']]
            r = rec['r']
            if op[0] != 'x':
                self.bump('rx_%s_%s' % (op[0], r if not r.startswith('exc:') else 'exc'))
            if op[0] != 'x' and (r.startswith('exc:') or r.startswith('ret:') or
                                 (r == 'ok' and rec['v'].startswith('nonbytes'))):
                return Failure('raises', '%r raised/returned %s' % (op, r if r != 'ok' else rec['v']))
            if rec['rbuf'] == 'nonbytes':
                return Failure('raises', 'getrecvbuffer() is not bytes')
            rbuf, und = unhx(rec['rbuf']), unhx(rec['und'])
            if op[0] == 'rf' and op[2] == 0:
                op = ['r', op[1]]
            if op[0] == 'x':
                consumed = b''          # a send-side call on the same object: hands over nothing
            elif op[0] == 'rf' and r == 'valueerror':
                consumed = b''          # refused for its flags: nothing may have moved
            elif op[0] == 'm':
                if r != 'none':
                    return Failure('raises', 'setmaxsize -> %s' % r)
                cur_ms = op[1]
                consumed = b''
            elif r == 'timeout':
                seen_t += 1
                if seen_t > n_t:
                    return Failure('spurious-timeout', 'more Timeouts (%d) than the socket raised (%d)' % (seen_t, n_t))
                consumed = b''
            elif r == 'oserror':
                # the socket's own transient error passes through; like any exception it must not lose a byte
                seen_e += 1
                if seen_e > n_e:
                    return Failure('raises', '%r raised an OSError the socket did not raise' % (op,))
                consumed = b''
            elif op[0] in ('r', 'rf'):
                # (recv with non-zero flags that is not refused is held to the contract of recv)
                if r != 'ok':
                    return Failure('recv', 'recv(%d) raised %s' % (op[1], r))
                v = unhx(rec['v'])
                if not rem.startswith(v):
                    return Failure('recv', 'recv(%d) returned %r, not a prefix of the remaining stream %r' % (op[1], v, rem))
                if len(v) > op[1]:
                    return Failure('recv', 'recv(%d) returned %d bytes' % (op[1], len(v)))
                if not v and rem and op[1] > 0:
                    return Failure('recv', 'recv(%d) returned b"" before end of stream (remaining %r)' % (op[1], rem))
                consumed = v
                got_value = got_value or bool(v)
            elif op[0] in ('s', 'p') and op[1] == 0:
                # degenerate size 0: b'' is the answer; ConnectionClosed is also acceptable, but only once the
                # stream has really ended (the statement does not say which) - never a value, never a loss
                if not ((r == 'ok' and rec['v'] == '-') or (r == 'closed' and not rem)):
                    return Failure('chunk-dependence', '%r on remaining stream %r: got %s %r' % (op, rem, r, rec.get('v')))
                consumed = b''
            else:
                want_r, want_v, consumed = self.whole_stream_answer(op, rem, cur_ms)
                if r != want_r or (r == 'ok' and unhx(rec['v']) != want_v):
                    return Failure('chunk-dependence',
                                   '%r on remaining stream %r: got %s %r, whole-stream answer %s %r' % (
                                       op, rem, r, rec.get('v'), want_r, want_v and want_v.hex()))
                got_value = got_value or bool(want_v)
                done[rec['op']] = [r, rec.get('v')]
            # conservation, also after exceptions: handed over ++ buffered ++ undelivered == stream, in order
            delivered += consumed
            rem = rem[len(consumed):]
            if rbuf + und != rem or delivered + rbuf + und != stream:
                return Failure('conservation',
                               'after %r -> %s: handed-over %r + rbuf %r + undelivered %r != stream %r' % (
                                   op, r, delivered, rbuf, und, stream))
        if 'whole' in obs:
            # literal reading of the statement: same values / exceptions as the same calls on the same
            # implementation when the whole stream arrives at once (Timeouts retried)
            finished = [[r['r'], r.get('v')] for r in obs['recs'] if r['r'] != 'timeout' and r['r'] != 'oserror']
            if finished != obs['whole'] and len(finished) == len(case['ops']):
                return Failure('chunk-dependence', 'results %r differ from whole-stream delivery %r' % (
                    finished, obs['whole']))
        pieces = len([e for e in script if not is_to(e) and len(unhx(e)) > 0])
        split = pieces >= 2 or n_t > 0 or n_e > 0 or (stream and case['rs'] < len(stream))
        self._nt = bool(split and got_value)
        return None

    def oracle_tx(self, case, obs):
        accepted = b''
        prev_wire = b''
        n_t = sum(1 for e in case['script'] if e == 'T' or e == 'W')
        n_e = sum(1 for e in case['script'] if e == 'E')
        seen_t = seen_e = 0
        partial = False
        for rec in obs['recs']:
            op = case['ops'][rec['op']]
            r = rec['r']
            sbuf, wire = unhx(rec['sbuf']), unhx(rec['wire'])
            if op[0] == 'x':
                # a receive-side call on the same object: accepts nothing, sends nothing
                if wire != prev_wire or wire + sbuf != accepted:
                    return Failure('send-conservation', 'a receive-side call changed the send side: wire %r + send '
                                   'buffer %r, accepted %r, wire before %r' % (wire, sbuf, accepted, prev_wire))
                continue
            self.bump('tx_%s_%s' % (op[0], r.split(':')[0]))
            if r.startswith('exc:') or r.startswith('ret:'):
                return Failure('raises', '%r -> %s' % (op, r))
            if op[0] in ('sf', 'saf'):
                if op[2] == 0:
                    op = [op[0][:-1], op[1]]
                elif r == 'valueerror':
                    # refused for its flags: nothing is sent; whether the refused data counts as accepted the
                    # statement does not say - but it must not be half-accepted
                    if wire != prev_wire or wire + sbuf not in (accepted, accepted + unhx(op[1])):
                        return Failure('send-conservation', '%r refused with ValueError: wire %r + send buffer %r, '
                                       'accepted before %r' % (op, wire, sbuf, accepted))
                    accepted = wire + sbuf
                    continue
                else:
                    op = [op[0][:-1], op[1]]        # flags taken: held to the contract of send
            if op[0] != 'f':
                accepted += unhx(op[1])
            if not wire.startswith(prev_wire):
                return Failure('send-conservation', 'bytes already on the wire changed: %r -> %r' % (prev_wire, wire))
            if wire + sbuf != accepted:
                return Failure('send-conservation', 'after %r -> %s: wire %r + send buffer %r != accepted %r' % (
                    op, r, wire, sbuf, accepted))
            if r == 'timeout':
                seen_t += 1
                partial = True
                if seen_t > n_t or op[0] == 'b':
                    return Failure('spurious-timeout', '%r raised Timeout' % (op,))
            elif r == 'oserror':
                seen_e += 1
                partial = True
                if seen_e > n_e or op[0] == 'b':
                    return Failure('raises', '%r raised an OSError the socket did not raise' % (op,))
            elif op[0] in ('s', 'sa'):
                if not r.startswith('sent:'):
                    return Failure('send-return', '%r returned %s' % (op, r))
                if sbuf:
                    return Failure('send-conservation', 'send returned but %r still buffered' % sbuf)
                if int(r[5:]) != len(wire) - len(prev_wire):
                    return Failure('send-return', 'send returned %s but put %d bytes on the wire' % (
                        r[5:], len(wire) - len(prev_wire)))
            elif op[0] == 'f':
                if r != 'none' or sbuf:
                    return Failure('send-conservation', 'flush -> %s with %r still buffered' % (r, sbuf))
            elif op[0] == 'b':
                if r != 'none' or wire != prev_wire:
                    return Failure('send-conservation', 'buffer() -> %s sent bytes' % r)
            prev_wire = wire
        if any(not is_to(e) and e[1] < 3 for e in case['script']):
            partial = True
        self._nt = bool(partial and accepted)
        return None

    def oracle_ns(self, case, obs):
        ms = case['ms']
        payloads = [unhx(p) for p in case['payloads']]
        good = [p for p in payloads if len(p) <= ms]
        for p, r in zip(payloads, obs['w']):
            self.bump('ns_w_' + r.split('+')[0])
            if len(p) > ms:
                if r != 'nstoolong':
                    return Failure('netstring', 'write_ns of %d bytes with maxsize %d -> %s' % (len(p), ms, r))
            elif r != 'ok' and not (r.startswith('timeout') and r.endswith('+flushed')):
                return Failure('netstring', 'write_ns(%r) -> %s' % (p, r))
        want_wire = b''.join(str(len(p)).encode('ascii') + b':' + p + b',' for p in good)
        if unhx(obs['wire']) + unhx(obs['unsent']) != want_wire or obs['unsent'] != '-':
            return Failure('netstring', 'wire %r (+ unsent %r) is not the framing %r of the written payloads' % (
                unhx(obs['wire']), unhx(obs['unsent']), want_wire))
        reads = obs['r']
        for i, p in enumerate(good[:case['nreads']]):
            self.bump('ns_r_' + reads[i].split(':')[0])
            if reads[i] != 'ok:' + hx(p):
                return Failure('netstring', 'read_ns #%d -> %s, written payload was %r (wire %r, cuts %r)' % (
                    i, reads[i], p, want_wire, case['cuts'][:20]))
        self._nt = bool(any(good) and (len(cut(want_wire, case['cuts'])) >= 2 or case['wscript']))
        return None

    def oracle_nsr(self, case, obs):
        """independent strict netstring parser: every leading well-formed frame the reader may accept
        (size <= maxsize, no timeouts in the script) must come back as its payload"""
        script = case['script']
        for rec in obs['recs']:
            self.bump('nsr_' + rec['r'].split(':')[0])
            if rec['r'].startswith('exc:'):
                return Failure('raises', 'read_ns raised %s' % rec['r'])
        # with or without timeouts, whatever read_ns returned or raised: what is buffered + undelivered
        # afterwards is a suffix of what it was before (nothing duplicated, reordered or read twice)
        view = b''.join(unhx(e) for e in script if not is_to(e))
        for rec in obs['recs']:
            if 'und' not in rec:
                break
            after = unhx(rec['rbuf']) + unhx(rec['und'])
            if not view.endswith(after):
                return Failure('conservation', 'read_ns -> %s: buffered+undelivered %r is not a suffix of what was '
                               'owed before the call %r' % (rec['r'], after, view))
            seen = view[:len(view) - len(unhx(rec['und']))]       # all the reader can have looked at so far
            if rec['r'] == 'timeout' and seen.find(b':') < 0 and after != view:
                # still looking for the size prefix: a Timeout must leave every byte where it was
                return Failure('conservation', 'read_ns timed out before the size prefix was complete and lost '
                               'bytes: %r -> %r' % (view, after))
            view = after
        if any(is_to(e) for e in script):
            return None
        stream = b''.join(unhx(e) for e in script)
        ms = self._ms_eff(case)
        pos = 0
        anyp = False
        for rec in obs['recs']:
            j = pos
            while j < len(stream) and 48 <= stream[j] <= 57:
                j += 1
            if j == pos or j >= len(stream) or stream[j] != 58 or j - pos > len(str(ms)):
                break
            size = int(stream[pos:j])
            if size > ms or j + 1 + size >= len(stream) or stream[j + 1 + size] != 44:
                break
            payload = stream[j + 1:j + 1 + size]
            if rec['r'] != 'ok:' + hx(payload):
                return Failure('netstring', 'read_ns at offset %d of %r -> %s, frame payload is %r' % (
                    pos, stream, rec['r'], payload))
            anyp = anyp or bool(payload)
            pos = j + 1 + size + 1
        self._nt = bool(anyp and len(script) >= 2)
        return None

    def nontrivial(self, case, obs):
        return getattr(self, '_nt', False)

    # ------------------------------------------------------------------ shrinking
    def shrink(self, case):
        k = case['k']
        if k == 'duo':
            # does one socket alone already fail?  then it is not a two-socket problem
            yield case['a']
            yield case['b']
            for side in ('a', 'b'):
                sub = case[side]
                for i in range(len(sub['ops'])):
                    yield dict(case, **{side: dict(sub, ops=sub['ops'][:i] + sub['ops'][i + 1:])})
                for i in range(len(sub['script'])):
                    yield dict(case, **{side: dict(sub, script=sub['script'][:i] + sub['script'][i + 1:])})
            if case['order']:
                yield dict(case, order=[])
                yield dict(case, order=sorted(case['order']))
                yield dict(case, order=sorted(case['order'], reverse=True))
            return
        if k == 'dx':
            ops = case['ops']
            for i in range(len(ops)):
                yield dict(case, ops=ops[:i] + ops[i + 1:])
            for key in ('rscript', 'sscript'):
                sc = case[key]
                for i in range(len(sc)):
                    yield dict(case, **{key: sc[:i] + sc[i + 1:]})
            if case.get('clk'):
                yield dict(case, clk=0, rscript=['T' if e == 'W' else e for e in case['rscript']],
                           sscript=['T' if e == 'W' else e for e in case['sscript']])
            if case.get('nb'):
                yield dict(case, nb=0)
            # one direction alone
            yield dict(case, ops=[o for o in ops if o[0] == 'R'])
            yield dict(case, ops=[o for o in ops if o[0] == 'S'])
            return
        if k in ('rx', 'tx'):
            ops = case['ops']
            for i in range(len(ops)):
                yield dict(case, ops=ops[:i] + ops[i + 1:])
            if case.get('nb'):
                yield dict(case, nb=0)
            if case.get('clk'):
                # the same schedule with socket timeouts instead of wall-clock expiries
                yield dict(case, clk=0, script=['T' if e == 'W' else e for e in case['script']])
        if k == 'ns':
            ps = case['payloads']
            for i in range(len(ps)):
                yield dict(case, payloads=ps[:i] + ps[i + 1:], nreads=max(0, case['nreads'] - 1))
            for i, p in enumerate(ps):
                if p != '-' and len(p) > 2:
                    yield dict(case, payloads=ps[:i] + [p[:-2]] + ps[i + 1:])
            if case['wscript']:
                yield dict(case, wscript=case['wscript'][1:])
                yield dict(case, wscript=[])
            if case['cuts']:
                yield dict(case, cuts=[])
                yield dict(case, cuts=case['cuts'][:len(case['cuts']) // 2])
            rc = self._rcfg(case)
            for i in range(1, len(rc) - 1):
                yield dict(case, rcfg=rc[:i] + rc[i + 1:])
            return
        if k == 'nsr' and case['nreads'] > 1:
            yield dict(case, nreads=case['nreads'] - 1)
        key = 'script'
        sc = case[key]
        for i in range(len(sc)):
            yield dict(case, **{key: sc[:i] + sc[i + 1:]})
        if k in ('rx', 'nsr'):
            # merge adjacent chunks, drop single bytes
            for i in range(len(sc) - 1):
                if not is_to(sc[i]) and not is_to(sc[i + 1]):
                    yield dict(case, script=sc[:i] + [sc[i] + sc[i + 1]] + sc[i + 2:])
            for i, e in enumerate(sc):
                if not is_to(e) and len(e) > 2:
                    yield dict(case, script=sc[:i] + [e[2:]] + sc[i + 1:])
                    yield dict(case, script=sc[:i] + [e[:-2]] + sc[i + 1:])
        if k == 'rx':
            if case['retry']:
                yield dict(case, retry=0)
            for i, op in enumerate(case['ops']):
                if op[0] in ('r', 'p', 's') and op[1] > 0:
                    yield dict(case, ops=case['ops'][:i] + [[op[0], op[1] - 1]] + case['ops'][i + 1:])
        if k == 'tx':
            for i, op in enumerate(case['ops']):
                if op[0] != 'f' and op[1] != '-' and len(op[1]) > 2:
                    yield dict(case, ops=case['ops'][:i] + [[op[0], op[1][:-2]]] + case['ops'][i + 1:])


PROPERTY = C12
