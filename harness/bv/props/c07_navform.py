"""C07 front-end of the source tie of `URL.navigate` (round 3c; trusted together with harness/py2lean.py).

`URL.navigate(self, dest)` works on two URL OBJECTS; `normal_form(module source)` rewrites the method - purely
syntactically, on the AST - into `navigate_core`, a pure function of the decoded components of the two objects that
lies inside the source translator's subset and returns the nine values the method hands to `from_parts` (eight
keywords) and assigns to `ret.family`, or the nine components of `dest` itself where the method returns the
reference.  Rewrites (anything else: `Refuse`, the tie is then not applied to this source):

 N1  prologue `orig_dest = None` / `if not isinstance(dest, URL): dest, orig_dest = URL(dest), dest`  -> dropped
     (the normal form starts from the URL object `dest`, as the model does; parsing a text is property C06)
 N2  `return dest` / `return URL(dest)` / `return URL(dest) if orig_dest is None else dest`   -> the components of dest
 N3  `self.<f>` / `dest.<f>` for the declared components f (FIELDS; `dest.path`, `dest._query` on dest only), read
     only                                                                              -> parameter `self_<f>` / `dest_<f>`
 N4  `<name>.startswith('<one character>')`                                            -> `<name>[:1] == '<c>'`
 N5  `X or Y` as an assigned / passed VALUE, X a plain name (after N3)                 -> `X if X else Y`
 N6  `L.insert(0, X)` (statement, L a local)                                            -> `L = [X] + L`
 N7  `ret = self.from_parts(<exactly the eight keywords>)`; `ret.family = E`; `ret.normalize()`; `return ret` at the
     top level of the method                                                   -> `return (<the eight values>, E)`
`self`, `dest`, `orig_dest` must not be rebound; no nested def / lambda / try / with / while.
What the normal form does NOT contain, i.e. the spec-declared operations of the tie (lean/BoltonsVerif/C07/NavTie.lean):
`URL.from_parts`, the `family` attribute, `URL.normalize()` (`ofCore`), `dest.path = '/'.join(path_parts)`,
`dest._query is None` = "the reference has no query component".
`selftest(...)` validates the rewrite against the real method in CPython on every run.
"""
import ast

FIELDS = ['scheme', 'host', 'port', 'path_parts', 'query_params', 'fragment', 'username', 'password', 'family']
DEST_ONLY = ['path', '_query']
KW = ['scheme', 'host', 'port', 'path_parts', 'query_params', 'fragment', 'username', 'password']
PARAMS = ['self_' + f for f in FIELDS if f != 'fragment'] + \
         ['dest_scheme', 'dest_host', 'dest_port', 'dest_path_parts', 'dest_path', 'dest_query_params', 'dest__query',
          'dest_fragment', 'dest_username', 'dest_password', 'dest_family']


class Refuse(Exception):
    pass


def _is_name(n, name):
    return isinstance(n, ast.Name) and n.id == name


def normal_form(module_src):
    tree = ast.parse(module_src)
    cls = [n for n in tree.body if isinstance(n, ast.ClassDef) and n.name == 'URL']
    if len(cls) != 1:
        raise Refuse('class URL not found once')
    fns = [n for n in cls[0].body if isinstance(n, ast.FunctionDef) and n.name == 'navigate']
    if len(fns) != 1:
        raise Refuse('URL.navigate not found once')
    f = fns[0]
    a = f.args
    if [x.arg for x in a.args] != ['self', 'dest'] or a.vararg or a.kwarg or a.kwonlyargs or a.defaults or f.decorator_list:
        raise Refuse('signature of navigate is not (self, dest)')
    body = list(f.body)
    if body and isinstance(body[0], ast.Expr) and isinstance(body[0].value, ast.Constant) and isinstance(body[0].value.value, str):
        body = body[1:]
    # N1 prologue: `orig_dest = None`; `if not isinstance(dest, URL): dest, orig_dest = URL(dest), dest`
    if body and isinstance(body[0], ast.Assign) and len(body[0].targets) == 1 and _is_name(body[0].targets[0], 'orig_dest') \
            and isinstance(body[0].value, ast.Constant) and body[0].value.value is None:
        body = body[1:]
    want = "if not isinstance(dest, URL):\n    dest, orig_dest = URL(dest), dest"
    if not (body and isinstance(body[0], ast.If) and ast.unparse(body[0]).replace('(dest, orig_dest)', 'dest, orig_dest').replace('(URL(dest), dest)', 'URL(dest), dest') == want):
        raise Refuse('prologue (str -> URL conversion of dest) not recognised')
    body = body[1:]
    rest = ast.Module(body=body, type_ignores=[])
    for n in ast.walk(rest):
        if isinstance(n, ast.Name) and n.id in ('dest', 'self', 'orig_dest') and isinstance(n.ctx, (ast.Store, ast.Del)):
            raise Refuse('%s is rebound' % n.id)
        if isinstance(n, (ast.FunctionDef, ast.Lambda, ast.ClassDef, ast.Try, ast.With, ast.While, ast.Global, ast.Nonlocal)):
            raise Refuse('unsupported statement kind %s' % type(n).__name__)
    all_fields = ast.Tuple(elts=[ast.Name(id='dest_' + k, ctx=ast.Load()) for k in FIELDS if k != 'fragment'][:5], ctx=ast.Load())

    def dest_tuple():
        order = ['scheme', 'host', 'port', 'path_parts', 'query_params', 'fragment', 'username', 'password', 'family']
        return ast.Tuple(elts=[ast.Name(id='dest_' + k, ctx=ast.Load()) for k in order], ctx=ast.Load())

    class Expr(ast.NodeTransformer):
        def visit_Attribute(self, n):
            if isinstance(n.value, ast.Name) and n.value.id in ('self', 'dest'):
                ok = FIELDS + (DEST_ONLY if n.value.id == 'dest' else [])
                if n.attr not in ok or (n.value.id == 'self' and n.attr == 'fragment'):
                    raise Refuse('attribute %s.%s is not a declared component' % (n.value.id, n.attr))
                if not isinstance(n.ctx, ast.Load):
                    raise Refuse('assignment to %s.%s' % (n.value.id, n.attr))
                return ast.copy_location(ast.Name(id='%s_%s' % (n.value.id, n.attr), ctx=ast.Load()), n)
            self.generic_visit(n)
            return n

        def visit_BoolOp(self, n):
            self.generic_visit(n)
            return n

        def visit_Call(self, n):
            self.generic_visit(n)
            # N4: <name>.startswith('<c>')  ->  <name>[:1] == '<c>'
            if isinstance(n.func, ast.Attribute) and n.func.attr == 'startswith' and isinstance(n.func.value, ast.Name) \
                    and len(n.args) == 1 and not n.keywords and isinstance(n.args[0], ast.Constant) \
                    and isinstance(n.args[0].value, str) and len(n.args[0].value) == 1:
                sl = ast.Subscript(value=n.func.value, slice=ast.Slice(lower=None, upper=ast.Constant(value=1), step=None), ctx=ast.Load())
                return ast.copy_location(ast.Compare(left=sl, ops=[ast.Eq()], comparators=[n.args[0]]), n)
            return n

    def value_or(e):
        """N5: `X or Y` in value position, X a plain name -> `X if X else Y`"""
        if isinstance(e, ast.BoolOp) and isinstance(e.op, ast.Or) and len(e.values) == 2 and isinstance(e.values[0], ast.Name):
            return ast.IfExp(test=e.values[0], body=e.values[0], orelse=e.values[1])
        return e

    def stmts(ss, top):
        out = []
        i = 0
        while i < len(ss):
            st = ss[i]
            if isinstance(st, ast.Return):
                v = st.value
                src = ast.unparse(v) if v is not None else ''
                if src in ('URL(dest) if orig_dest is None else dest', 'dest if orig_dest is not None else URL(dest)', 'dest', 'URL(dest)'):
                    out.append(ast.Return(value=dest_tuple()))      # N2: the reference itself / a copy of it
                    i += 1
                    continue
                raise Refuse('return of something else than dest / the from_parts result: %s' % src)
            if isinstance(st, ast.Assign) and len(st.targets) == 1 and isinstance(st.targets[0], ast.Name) \
                    and isinstance(st.value, ast.Call) and ast.unparse(st.value.func) == 'self.from_parts':
                # N7: ret = self.from_parts(**kw); ret.family = E; ret.normalize(); return ret
                if not top:
                    raise Refuse('from_parts call not at the top level of the method')
                ret = st.targets[0].id
                call = st.value
                if call.args or sorted(k.arg or '**' for k in call.keywords) != sorted(KW):
                    raise Refuse('from_parts is not called with exactly the eight keywords')
                kw = {k.arg: value_or(Expr().visit(k.value)) for k in call.keywords}
                tail = ss[i + 1:]
                if len(tail) != 3 or ast.unparse(tail[1]) != '%s.normalize()' % ret or ast.unparse(tail[2]) != 'return %s' % ret \
                        or not (isinstance(tail[0], ast.Assign) and ast.unparse(tail[0].targets[0]) == '%s.family' % ret):
                    raise Refuse('tail is not `ret.family = ...; ret.normalize(); return ret`')
                fam = value_or(Expr().visit(tail[0].value))
                out.append(ast.Return(value=ast.Tuple(elts=[kw[k] for k in KW] + [fam], ctx=ast.Load())))
                return out
            if isinstance(st, ast.If):
                out.append(ast.If(test=Expr().visit(st.test), body=stmts(st.body, False), orelse=stmts(st.orelse, False)))
            elif isinstance(st, ast.Assign) and len(st.targets) == 1 and isinstance(st.targets[0], ast.Name):
                out.append(ast.Assign(targets=st.targets, value=value_or(Expr().visit(st.value))))
            elif isinstance(st, ast.Expr) and isinstance(st.value, ast.Call) and isinstance(st.value.func, ast.Attribute) \
                    and st.value.func.attr == 'insert' and isinstance(st.value.func.value, ast.Name) \
                    and len(st.value.args) == 2 and isinstance(st.value.args[0], ast.Constant) and st.value.args[0].value == 0:
                # N6: L.insert(0, X) -> L = [X] + L
                L = st.value.func.value.id
                out.append(ast.Assign(targets=[ast.Name(id=L, ctx=ast.Store())],
                                      value=ast.BinOp(left=ast.List(elts=[Expr().visit(st.value.args[1])], ctx=ast.Load()),
                                                      op=ast.Add(), right=ast.Name(id=L, ctx=ast.Load()))))
            elif isinstance(st, ast.Pass):
                out.append(st)
            else:
                raise Refuse('statement not recognised: %s' % ast.unparse(st)[:60])
            i += 1
        return out

    new_body = stmts(body, True)
    fn = ast.FunctionDef(name='navigate_core', args=ast.arguments(posonlyargs=[], args=[ast.arg(arg=p) for p in PARAMS],
                         kwonlyargs=[], kw_defaults=[], defaults=[]), body=new_body, decorator_list=[], type_params=[])
    mod = ast.Module(body=[fn], type_ignores=[])
    ast.fix_missing_locations(mod)
    for n in ast.walk(mod):
        if isinstance(n, ast.Name) and n.id in ('self', 'dest', 'orig_dest', 'URL', 'isinstance'):
            raise Refuse('%s is still used after the rewrite' % n.id)
    return ast.unparse(mod)



QP = 'List (Str × Option Str)'
_T = {'scheme': 'Str', 'host': 'Str', 'port': 'Int', 'path_parts': 'List Str', 'path': 'Str', 'query_params': QP,
      '_query': 'Option Str', 'fragment': 'Str', 'username': 'Str', 'password': 'Str', 'family': 'Int'}
SPEC = {'module': 'boltons.urlutils', 'qualname': 'navigate_core', 'lean_name': 'navigate_core',
        'params': {p: _T[p.split('_', 1)[1]] for p in PARAMS}, 'kind': 'function',
        'result': 'Str × Str × Int × List Str × %s × Str × Str × Str × Int' % QP,
        'tie_theorem': 'C07.src_navigate_core_eq_model'}

# the normal form of the reference version of the method (/repo 35bb52f ... 4c188fb): translated instead of the
# current source when that is outside the subset above (`tied = false`)
CANON = """def navigate_core(%s):
    if dest_scheme and dest_host:
        return (dest_scheme, dest_host, dest_port, dest_path_parts, dest_query_params, dest_fragment, dest_username, dest_password, dest_family)
    query_params = dest_query_params
    if dest_path:
        if dest_path[:1] == '/':
            new_path_parts = list(dest_path_parts)
        else:
            base_parts = list(self_path_parts[:-1])
            if self_host and base_parts[:1] != ['']:
                base_parts = [''] + base_parts
            new_path_parts = base_parts + list(dest_path_parts)
    else:
        new_path_parts = list(self_path_parts)
        if not query_params and dest__query is None:
            query_params = self_query_params
    return (dest_scheme if dest_scheme else self_scheme, dest_host if dest_host else self_host, dest_port if dest_port else self_port, new_path_parts, query_params, dest_fragment, dest_username if dest_username else self_username, dest_password if dest_password else self_password, dest_family if dest_host else self_family)
""" % ', '.join(PARAMS)


def selftest(normal_form_src, URL, pairs):
    """the normal form, run in CPython on the components of real URL objects, against the real method: for every
    (base text, reference text) pair `base.navigate(URL(ref))` must have the public components of
    `from_parts(**values)` + family + normalize() (or of the reference itself).  -> (pairs compared, first mismatch)"""
    ns = {}
    exec(compile(normal_form_src, '<navigate_core>', 'exec'), ns)
    core = ns['navigate_core']

    def comps(u):
        return (u.scheme, u.host, u.port, tuple(u.path_parts), tuple(u.query_params.iteritems(multi=True)), u.fragment,
                u.username, u.password, u.family)
    n = 0
    for bt, rt in pairs:
        base, dest = URL(bt), URL(rt)
        try:
            want = comps(base.navigate(dest))
        except Exception as e:       # noqa: BLE001
            want = ('exc', type(e).__name__)
        try:
            v = core(base.scheme, base.host, base.port, base.path_parts, base.query_params, base.username, base.password,
                     base.family, dest.scheme, dest.host, dest.port, dest.path_parts, dest.path, dest.query_params,
                     dest._query, dest.fragment, dest.username, dest.password, dest.family)
            if dest.scheme and dest.host:
                got = (v[0], v[1], v[2], tuple(v[3]), tuple(v[4].iteritems(multi=True)), v[5], v[6], v[7], v[8])
            else:
                ret = URL.from_parts(scheme=v[0], host=v[1], port=v[2], path_parts=v[3], query_params=v[4], fragment=v[5],
                                     username=v[6], password=v[7])
                ret.family = v[8]
                ret.normalize()
                got = comps(ret)
        except Exception as e:       # noqa: BLE001
            got = ('exc', type(e).__name__)
        n += 1
        if got != want:
            return n, '%r + %r: navigate gives %r, the normal form %r' % (bt, rt, want, got)
    return n, None
