"""C16 - traceback text <-> ParsedException round trip; TracebackInfo/ExceptionInfo vs the traceback module.

Case kinds (all JSON-able):
  {'k':'t', 'frames':[[file, lineno, func, src|None, anchor|None], ...], 'type':..., 'msg':..., 'nl':0|1}
        a traceback text in the interpreter's standard layout, built HERE from the structured data
  {'k':'r', 'text': ...}
        an arbitrary (mutated / malformed / SyntaxError-form) text: correspondence + totality only
  {'k':'l', 'mods':[...], 'links':[...], 'exc':{...}, 'limit': None|int, 'order': 'b'|'s',
   optional: 'tblimit': int (sys.tracebacklimit), 'skip': int (hand over tb.tb_next), 'seq': 'dict'|'build',
   'prior': [capture, ...] earlier captures of the same session (exception part only), capture = an 'exc' spec
            ('cname' bare class name, 'outer' enclosing class / function, 'set' naming attributes assigned right before
            the raise, kind 'same' = the class object of the last capture) + 'via': 'ep'|'pe' + optional 'm'}
        a generated program (nested calls through generated modules, lambdas, exec, recursion, functions that
        re-raise the exception they caught ...) that raises; the live exception goes through ExceptionInfo /
        TracebackInfo / print_exception and through the traceback module ('order': who is asked first)
        mods[i] = {'file', 'name', 'reg': 'cache' (hand-registered linecache entry, optional 'ws') | 'loader' |
                   'loader_none' | 'loader_err' | 'none' | 'disk' (a real file in a scratch directory with a history:
                   'v1' earlier version, 'prime' who cached it, 'mt' mtime kept?, 'junk', 'gone', 'ldr'), optional 'gfile'}
't' and 'r' cases may carry 'b': 1 - the text is handed to from_string as UTF-8 bytes.
"""
import gc
import io
import itertools
import linecache
import os
import re
import shutil
import struct
import sys
import tempfile
import tokenize
import traceback

from bv.common import Property, Failure, time_limit, exc_name, CaseTimeout

HEADER = 'Traceback (most recent call last):'
# str.splitlines() separators other than '\n' (computed, not copied from boltons)
EXOTIC = [c for c in map(chr, range(0x3000)) if c != '\n' and len(('a' + c + 'b').splitlines()) > 1]
TAIL_RE = re.compile(r'", line \d+, in .')
FRAME_RE = re.compile(r'File ".+", line \d+, in .+')


def hx(s):
    return s.encode('utf-8').hex() if s else '-'


def lean_str(s):
    out = []
    for ch in s:
        if ch == '"':
            out.append('\\"')
        elif ch == '\\':
            out.append('\\\\')
        elif ch == '\n':
            out.append('\\n')
        elif 32 <= ord(ch) < 127:
            out.append(ch)
        else:
            out.append('\\u{%x}' % ord(ch))
    return '"' + ''.join(out) + '"'


def _ranges(cps):
    rs = []
    for i in cps:
        if rs and rs[-1][1] == i - 1:
            rs[-1][1] = i
        else:
            rs.append([i, i])
    return rs


def _scalars():
    return (i for i in range(0x110000) if not 0xd800 <= i < 0xe000)


def regex_shape(pat):
    """token list of a pattern as the re module parses it: '^', '$', 'lit:<text>', 'any+', 'digit+', 'set*:<chars>'"""
    try:
        import re._parser as sp
        import re._constants as sc
    except ImportError:  # pragma: no cover (python < 3.11)
        import sre_parse as sp
        import sre_constants as sc
    toks, lit = [], []

    def flush():
        if lit:
            toks.append('lit:' + ''.join(lit))
            del lit[:]

    def rep(av):
        lo, hi, body = av
        body = list(body)
        if len(body) == 1 and body[0][0] is sc.ANY:
            inner = 'any'
        elif len(body) == 1 and body[0][0] is sc.IN and list(body[0][1]) == [(sc.CATEGORY, sc.CATEGORY_DIGIT)]:
            inner = 'digit'
        elif len(body) == 1 and body[0][0] is sc.IN and all(o is sc.LITERAL for o, _ in body[0][1]):
            inner = 'set:' + ''.join(sorted(chr(a) for _, a in body[0][1]))
        else:
            inner = '?%r' % (body,)
        if (lo, hi) == (1, sc.MAXREPEAT):
            q = '+'
        elif (lo, hi) == (0, sc.MAXREPEAT):
            q = '*'
        else:
            q = '{%s,%s}' % (lo, hi)
        if inner.startswith('set:'):
            return 'set' + q + ':' + inner[4:]
        return inner + q

    for op, av in sp.parse(pat):
        if op is sc.LITERAL:
            lit.append(chr(av))
            continue
        flush()
        if op is sc.AT:
            toks.append('^' if av is sc.AT_BEGINNING else '$' if av is sc.AT_END else '?at%r' % (av,))
        elif op is sc.SUBPATTERN:
            inner = list(av[3])
            if len(inner) == 1 and inner[0][0] is sc.MAX_REPEAT:
                toks.append(rep(inner[0][1]))
            else:
                toks.append('?group%r' % (inner,))
        elif op is sc.MAX_REPEAT:
            toks.append(rep(av))
        elif op is sc.MIN_REPEAT:
            toks.append('?lazy%r' % (av,))
        else:
            toks.append('?%s' % (op,))
    flush()
    return toks


class C16(Property):
    PID = 'C16'
    QUICK_BUDGET_S = 60
    THOROUGH_BUDGET_S = 900
    RULE = ('a case is (t) a traceback text rendered by the harness from structured data: 0..n frames, each with '
            'file / line number / function / optional source line / optional position-marker line, a type name and '
            'an empty, one-line or multi-line message, with or without the final newline, handed over as str or as '
            'UTF-8 bytes; (r) a mutated or malformed text; (l) a generated program whose nested calls (plain, lambda, '
            'method, generator, coroutine, exec, eval, recursion - plain, through a def and a lambda on one line, from two '
            'lines in turn; run lengths around the interpreter\'s cut-off of 3 -, decorator, property, no-source code, and functions '
            'that catch the exception and hand the same object on: raise e / bare raise / with_traceback / a trimmed '
            'or rebuilt traceback / after the handler / nested handlers / a retry loop / generator.throw / finally) '
            'raise an exception (builtin, module-level, nested in a class or a function, with its own __str__, with a '
            '__str__ that raises, with a reassigned __module__) that is formatted by boltons (ExceptionInfo from_exc_info and from_current, '
            'TracebackInfo with and without limit, ContextualExceptionInfo, print_exception with and without limit; '
            'objects built, formatted and to_dict()ed in three different orders) and by the traceback module, boltons '
            'first or second. The modules of the program have their source in a hand-registered linecache entry '
            '(optionally with exotic whitespace around every line), behind a loader (also one that has no source or '
            'raises ImportError), nowhere, or in a real file in a scratch directory with a history replayed before the '
            'failing run: an earlier version of the file (same size / other size / shifted lines / too short / '
            'identical) was read into linecache by linecache.getlines, by an earlier boltons report or by an earlier '
            'traceback-module report, the file was rewritten with the same or another mtime, made undecodable or '
            'removed; module globals may carry a __file__ that is not the code\'s file name; sys.tracebacklimit may be '
            'set (>= 1); the caller may hand over tb.tb_next; the failing run may be the last capture of a session: one to '
            'three other exceptions are raised and captured first (ExceptionInfo and print_exception, either first) whose '
            'classes share module and bare name with the last one (nested in other classes / functions), share the '
            'qualified name across modules, are redefined, shadow a builtin, or are the same class object whose '
            '__module__ / __qualname__ / __name__ is reassigned between the captures. Round 5: the code\'s file name may end in '
            '.pyc / .pyo / .PY / .pyw or in the letters c / o, be a pseudo or relative name, hold quotes, spaces, non-ASCII (module '
            'files on disk may have decoy neighbours whose names differ in the suffix); recursion may go through one line with two call '
            'sites (entries that differ in tb_lasti only), through a generator expression, through two lambdas on one line, a->b->a; the '
            'entry points are called in every argument form (keywords, positional, file=None); failing calls may come first; exception '
            'classes / objects may have unusual __bool__ / __len__ / __eq__ / __hash__; after the observations the caller edits every '
            'dict, list and Callpoint it was handed and the reports are read again. Every text (t, r) is parsed two or three times, as '
            'str and as bytes in turn, the caller editing the earlier result in between; a text may come after a history of earlier '
            'from_string calls (the same text, texts sharing lines with it, failing calls). First in the stream: ~110 texts with '
            'histories, then an enumerated family of ~870 small '
            'live cases over all of these dimensions; then all texts with <= 2 frames over the option alphabet; then '
            'seeded random texts (non-ASCII paths, quotes, frame-like fragments), adversarial mutations and random '
            'live cases. Non-trivial = (t) at least one frame and the text is in the statement\'s domain, (r) the '
            'parser took the frame loop, (l) the chain has >= 2 entries; distinct = distinct cases.')
    ASSUMPTIONS = [
        'a traceback text is compared without the interpreter\'s final newline (to_string() never emits one); '
        'ExceptionInfo.get_formatted() is compared with the interpreter\'s output minus that final newline',
        'position-marker lines (only ~ ^ and spaces, after a source line) are left aside: formatted output is compared '
        'with the interpreter\'s text without them, and output that keeps any of the interpreter\'s own marker lines is '
        'accepted as well (boltons prints none today)',
        'Callpoint.line / to_dict()["line"] keeps leading indentation; it is compared with FrameSummary.line after strip()',
        'call chains are shallower than sys.getrecursionlimit() (TracebackInfo stops at 1000 entries by default)',
        'text is a sequence of Unicode scalar values; when str() of the exception raises, it raises an Exception (not a '
        'bare BaseException such as KeyboardInterrupt); no SyntaxError, '
        'chained causes, notes or exception groups (excluded by the statement)',
        'character classes of re \\d, str.isspace and str.splitlines are regenerated from the running interpreter',
        'the entry points keep their documented parameter names (from_exc_info(exc_type, exc_value, traceback), '
        'from_traceback(tb, limit), print_exception(etype, value, tb, limit, file), from_string(tb_str)): they are also called '
        'by keyword; an exception object whose __bool__ raises is not generated (the traceback module itself fails on it)',
        'what a caller may do with a value it was handed: overwrite / empty / reorder the dicts, lists and Callpoints of '
        'to_dict() results, of ParsedException.frames and of a TracebackInfo it does not read again; the next call on the same '
        'input (same text; same exception through a new object or through an object the caller did not touch) is judged like the first',
        'the reference for a live exception is the traceback module asked about the same traceback object in the same '
        'state of the file system (before or after boltons); sys.tracebacklimit is unset or >= 1 and an explicit '
        'limit of print_exception is None or >= 1 (with no entry to show the traceback module omits the header line, '
        'boltons prints it); a traceback entry\'s line number is the one its instruction offset maps to (tb_lineno '
        'of a hand-built TracebackType is not made to lie)',
        'a complete linecache entry carrying the file\'s present size and mtime holds the file\'s present text; when '
        'such an entry is cached, the file is gone and the module has a loader, the traceback module itself has no '
        'stable answer (first call: no source line, later calls: the loader\'s) - such cases are generated but skipped',
    ]
    CORRESPONDENCE_NAME = ('C16.Driver (from_string/to_string scanners, tb_frame_str/get_formatted, traceback layout) '
                           'vs boltons.tbutils and the traceback module')

    # ------------------------------------------------------------------ translator
    def regen(self):
        from boltons import tbutils
        d = re.compile(r'\d')
        digits = _ranges(i for i in _scalars() if d.match(chr(i)))
        spaces = _ranges(i for i in _scalars() if chr(i).isspace())
        seps = [i for i in _scalars() if len(('a' + chr(i) + 'b').splitlines()) > 1]
        shapes = {}
        how = {}
        for key, attr in (('frameReShape', '_frame_re'), ('seFrameReShape', '_se_frame_re'),
                          ('underlineReShape', '_underline_re')):
            pat = getattr(getattr(tbutils, attr, None), 'pattern', None)
            shape = None
            if isinstance(pat, str):
                try:
                    shape = regex_shape(pat)
                except Exception:
                    shape = None
            if shape == self.CANON_SHAPES[key]:
                how[key] = 'regex'
            else:
                # the scanner is not (or no longer) this regular expression: an equivalent pattern written
                # differently, or a scanner written without `re`.  What the theorems need is the language and the
                # groups, not the notation: ask ParsedException.from_string itself about a finite family of lines
                # over the alphabet of the line grammar and compare with the canonical pattern (compiled here)
                bad = self.probe_scanner(tbutils, key)
                if bad is None:
                    shape, how[key] = self.CANON_SHAPES[key], 'probe'
                else:
                    shape = (shape or []) + ['probe-mismatch:' + bad]
                    how[key] = 'mismatch'
            shapes[key] = shape
        self.stats['scanner_tie'] = ', '.join('%s: %s' % (k, how[k]) for k in sorted(how))
        plain, plain_how = self.plain_modules(tbutils)
        self.stats['plain_modules_tie'] = plain_how

        def pairs(rs):
            return '[' + ', '.join('(%d, %d)' % (a, b) for a, b in rs) + ']'

        def strs(l):
            return '[' + ', '.join(lean_str(x) + '.toList' for x in l) + ']'
        src = ('/- generated by harness/bv/props/c16.py regen() from the running interpreter (re, str) and from\n'
               '   boltons/tbutils.py (_frame_re, _se_frame_re, _underline_re as parsed by the re module); do not edit -/\n'
               'namespace C16.Gen\n\n'
               '/-- code-point ranges matched by `\\d` in a str pattern -/\n'
               'def digitRanges : List (Nat × Nat) := %s\n\n'
               '/-- code-point ranges with str.isspace() (what str.strip() removes) -/\n'
               'def spaceRanges : List (Nat × Nat) := %s\n\n'
               '/-- code points at which str.splitlines() breaks -/\n'
               'def sepCps : List Nat := %s\n\n' % (pairs(digits), pairs(spaces), seps))
        for name in sorted(shapes):
            src += 'def %s : List (List Char) := %s\n\n' % (name, strs(shapes[name]))
        src += ('/-- the module names whose exception classes are printed without the module prefix (both copies of the test\n'
                '    in the source: ExceptionInfo.from_exc_info and format_exception_only) -/\n'
                'def plainModNames : List (List Char) := %s\n\n' % strs(plain))
        src += 'end C16.Gen\n'
        return {'C16_Tables.lean': src}

    CANON_SHAPES = {
        'frameReShape': ['^', 'lit:File "', 'any+', 'lit:", line ', 'digit+', 'lit:, in ', 'any+', '$'],
        'seFrameReShape': ['^', 'lit:File "', 'any+', 'lit:", line ', 'digit+'],
        'underlineReShape': ['^', 'set*: ^~', '$'],
    }
    CANON_RE = {
        'frameReShape': re.compile(r'^File "(.+)", line (\d+), in (.+)$'),
        'seFrameReShape': re.compile(r'^File "(.+)", line (\d+)'),
        'underlineReShape': re.compile(r'^[~^ ]*$'),
    }
    PROBE_TOKENS = ['File "', '", line ', ', in ', '7', '0', '\u0663', '\u00b2', 'a', ' ', '"', ',', 'F', 'line', 'in', '\u00e9']
    PROBE_UL = ['~', '^', ' ', 'x', '\t', '-', '\u00a0', '~^', '_']

    def plain_modules(self, tbutils):
        """the literal collections of module names the source tests `__module__` against (every `in` / `not in`
        comparison with a tuple / list / set literal of strings that contains '__main__'); when the source has no such
        literal (a refactored test) the names are found by asking both entry points about classes of ~35 candidate
        module names"""
        import ast
        import inspect
        found = []
        try:
            tree = ast.parse(inspect.getsource(tbutils))
            for node in ast.walk(tree):
                if isinstance(node, ast.Compare) and len(node.ops) == 1 and isinstance(node.ops[0], (ast.In, ast.NotIn)):
                    c = node.comparators[0]
                    if isinstance(c, (ast.Tuple, ast.List, ast.Set)) and c.elts and \
                            all(isinstance(e, ast.Constant) and isinstance(e.value, str) for e in c.elts):
                        names = sorted(set(e.value for e in c.elts))
                        if '__main__' in names:
                            found.append(names)
        except (OSError, TypeError, SyntaxError):
            found = []
        if found:
            if all(f == found[0] for f in found):
                return found[0], 'source literals (%d)' % len(found)
            return sorted(set(x for f in found for x in f)) + ['the-copies-differ'], 'source literals differ'
        plain = []
        for name in sorted(set(self.MOD_NAMES + ['__main__', 'builtins'])):
            E = type('E', (Exception,), {})
            E.__module__ = name
            try:
                try:
                    raise E('x')
                except E:
                    a = tbutils.ExceptionInfo.from_current().exc_type
                b = tbutils.format_exception_only(E, E('x'))[-1]
            except Exception as e:
                return ['probe-failed:' + exc_name(e)], 'probe failed'
            if (a == 'E') != (b == 'E: x\n'):
                return ['the-copies-differ:' + name], 'probe: the two entry points differ'
            if a == 'E':
                plain.append(name)
        return plain, 'probe'

    def probe_lines(self, key):
        import random
        rnd = random.Random('C16-probe-' + key)      # the same family on every run
        if key == 'underlineReShape':
            for n in range(0, 5):
                for seq in itertools.product(self.PROBE_UL, repeat=n):
                    yield ''.join(seq)
            return
        T = self.PROBE_TOKENS
        for n in range(0, 4):
            for seq in itertools.product(T, repeat=n):
                yield ''.join(seq)
        def part(lo, hi, toks):
            return ''.join(rnd.choice(toks) for _ in range(rnd.randint(lo, hi)))
        for _ in range(30000):
            path = part(0, 4, T)
            num = part(0, 3, ['7', '0', '\u0663', '\u00b2', 'a', ' ', ''])
            tail = rnd.choice(['', ', in ', ', in', ',in f', ' , in f', ', in  ']) + part(0, 3, T)
            yield rnd.choice(['File "', 'File "', 'file "', ' File "', 'File"', 'xFile "']) + path + \
                rnd.choice(['", line ', '", line ', '",line ', '" line ', "', line "]) + num + tail

    def probe_scanner(self, tbutils, key):
        """None when from_string treats every probe line as the canonical pattern does, else a description of the
        first line on which it does not"""
        ref = self.CANON_RE[key]
        n = 0
        for ln in self.probe_lines(key):
            try:
                with time_limit(10):
                    if key == 'underlineReShape':
                        pe = tbutils.ParsedException.from_string(HEADER + '\n  File "a", line 1, in f\n    src\n' + ln + '\nE: m')
                        got = [len(pe.frames), pe.exc_type, pe.exc_msg]
                        rest = 'E: m' if ref.match(ln) else ln + '\nE: m'
                        want = [1, rest.partition(': ')[0], rest.partition(': ')[2]]
                    elif key == 'frameReShape':
                        pe = tbutils.ParsedException.from_string(HEADER + '\n' + ln + '\nE: m')
                        got = [[f.get('filepath'), f.get('lineno'), f.get('funcname')] for f in pe.frames]
                        m = ref.match(ln.strip())
                        want = [list(m.groups())] if m else []
                    else:
                        if not ln.strip():
                            continue
                        pe = tbutils.ParsedException.from_string(ln + '\n    x\n  ^\nSyntaxError: bad')
                        got = [[f.get('filepath'), f.get('lineno'), f.get('funcname')] for f in pe.frames]
                        m = ref.match(ln.strip())
                        want = [list(m.groups()) + [None]] if m else []
            except CaseTimeout:
                return 'timeout on %r' % ln
            except Exception as e:
                return '%s on %r' % (exc_name(e), ln)
            n += 1
            if got != want:
                return '%r read as %r, the pattern says %r' % (ln, got, want)
        self.stats['scanner_probe_lines_' + key] = n
        return None

    # ------------------------------------------------------------------ the statement's domain (texts)
    @staticmethod
    def std_text(case, anchors=True):
        """the interpreter's layout, written down here (not taken from boltons)"""
        lines = [HEADER]
        for file, lineno, func, src, anchor in case['frames']:
            lines.append('  File "%s", line %s, in %s' % (file, lineno, func))
            if src is not None:
                lines.append('    ' + src)
                if anchor is not None and anchors:
                    lines.append(anchor)
        lines.append(case['type'] + (': ' + case['msg'] if case['msg'] else ''))
        return '\n'.join(lines) + ('\n' if case.get('nl') and anchors else '')

    @staticmethod
    def _single_line_fields(case):
        for file, lineno, func, src, anchor in case['frames']:
            yield file
            yield func
            if src is not None:
                yield src
            if anchor is not None:
                yield anchor
        yield case['type']

    @classmethod
    def _shape_ok(cls, case, lineno_re):
        for file, lineno, func, src, anchor in case['frames']:
            if not file or not re.fullmatch(lineno_re, lineno):
                return False
            if not func or func[-1].isspace() or TAIL_RE.search(func):
                return False
            if src is not None and (not src or src != src.strip() or FRAME_RE.fullmatch(src)):
                return False
            if anchor is not None and not re.fullmatch(r'[~^ ]*', anchor):
                return False
        ty = case['type']
        if not ty or any(c.isspace() for c in ty) or not ty.strip('~^'):
            return False
        return not any('\n' in f or '\r' in f for f in cls._single_line_fields(case))

    @classmethod
    def in_statement(cls, case):
        """texts the property statement speaks about: line numbers as the interpreter prints them (ASCII decimal
        without leading zeros); exotic line separators and any message are allowed here (known findings)"""
        return cls._shape_ok(case, r'0|[1-9][0-9]*')

    @classmethod
    def has_exotic(cls, case):
        return any(c in f for f in list(cls._single_line_fields(case)) + [case['msg']] for c in EXOTIC)

    @classmethod
    def last_line_is_trailer(cls, case):
        last = cls.std_text(case, anchors=False).split('\n')[-1]
        return last.startswith('Exception ') and last.endswith('ignored')

    @classmethod
    def wf_case(cls, case):
        """python mirror of the Lean predicate WFtextA (cross-checked against the driver on every case)"""
        return (cls._shape_ok(case, r'\d+') and not cls.has_exotic(case) and not case['msg'].endswith('\n')
                and not cls.last_line_is_trailer(case))

    # ------------------------------------------------------------------ generation: texts
    FILES = ['a.py', '/x y/\u00e9.py', '<stdin>', 'C:\\d\\f.py']
    FUNCS = ['<module>', 'f', '<lambda>']
    SRCS = [None, 'foo()', 'x = "a: b"', 'raise E("File \\"q\\", line 3, in z")']
    TYPES = ['ValueError', 'mod.Err', 'f.<locals>.E']
    MSGS = ['', 'x', 'a: b', 'l1\nl2', 'l1\n  ind: x\n\n  File "q", line 3, in z\ny', 'x\n', ' ', '^']

    def small_texts(self):
        opts = []
        for fi in self.FILES[:3]:
            for fu in self.FUNCS[:2]:
                for sr in self.SRCS:
                    opts.append([fi, None, fu, sr, None])
                    if sr == 'foo()':
                        opts.append([fi, None, fu, sr, '    ~~~^^'])
        for nf in range(0, 3):
            for frames in itertools.product(opts, repeat=nf):
                fr = [[f[0], str(10 + i), f[2], f[3], f[4]] for i, f in enumerate(frames)]
                if nf == 2:
                    tys, msgs = self.TYPES[:1], ['', 'a: b\nc']
                else:
                    tys, msgs = self.TYPES, self.MSGS
                for ty in tys:
                    for msg in msgs:
                        yield {'k': 't', 'frames': fr, 'type': ty, 'msg': msg, 'nl': 0}
                if nf == 1:
                    yield {'k': 't', 'frames': fr, 'type': 'E', 'msg': 'm', 'nl': 1}
                    yield {'k': 't', 'frames': fr, 'type': 'mod.\u00c9rr', 'msg': 'a: \u65e5\n\u00a0b', 'nl': 0, 'b': 1}

    ALPHA = ['a', 'b', 'Z', '_', '0', '7', ' ', ' ', '"', "'", ',', ':', ': ', '.', '/', '\\', '<', '>', '(', ')', '~', '^',
             '\u00e9', '\u65e5', '\u0663', '\U0001f600', '\u00a0', '\t', '", line 5, in g', 'File "', ', in ', 'line',
             'Exception ', 'ignored', 'Traceback (most recent call last):', '{}', '%s']

    def rstr(self, lo, hi, extra=()):
        rng = self.rng
        n = rng.randint(lo, hi)
        return ''.join(rng.choice(self.ALPHA + list(extra)) for _ in range(n))

    def random_text_case(self):
        rng = self.rng
        frames = []
        nf = rng.choice([0, 1, 1, 2, 2, 3, 4, 8]) if not self.thorough else rng.choice([0, 1, 2, 3, 5, 12, 40])
        for _ in range(nf):
            file = rng.choice(self.FILES) if rng.random() < 0.3 else self.rstr(1, 6)
            lineno = str(rng.choice([1, 9, 10, 123, 99999])) if rng.random() < 0.85 else rng.choice(['007', '\u0663\u0661', '0'])
            func = rng.choice(self.FUNCS + ['g_1', '<listcomp>']) if rng.random() < 0.6 else self.rstr(1, 4).rstrip() or 'f'
            src = None
            anchor = None
            if rng.random() < 0.7:
                src = (rng.choice(self.SRCS[1:]) if rng.random() < 0.4 else self.rstr(1, 6)).strip() or None
                if src is not None and rng.random() < 0.3:
                    anchor = '    ' + ''.join(rng.choice('~^ ^') for _ in range(rng.randint(0, 6)))
            frames.append([file, lineno, func, src, anchor])
        ty = rng.choice(self.TYPES + ['E', 'KeyError', 'a.b.C', 'Exception', 'File']) if rng.random() < 0.8 \
            else ''.join(self.rstr(1, 3).split()) or 'E'
        r = rng.random()
        if r < 0.2:
            msg = ''
        elif r < 0.5:
            msg = rng.choice(self.MSGS)
        else:
            msg = self.rstr(0, 8, extra=['\n', '\n', '\n  '])
        r = rng.random()
        if r < 0.04:   # exotic separators / trailing newline / trailer line: the known-finding regions
            pos = rng.randint(0, len(msg))
            msg = msg[:pos] + rng.choice(EXOTIC) + msg[pos:]
        elif r < 0.06:
            msg += '\n'
        elif r < 0.08:
            msg += '\nException in thread ignored'
        elif r < 0.09 and frames:
            i = rng.randrange(len(frames))
            frames[i][0] += rng.choice(EXOTIC[2:])
        case = {'k': 't', 'frames': frames, 'type': ty, 'msg': msg, 'nl': 1 if rng.random() < 0.25 else 0}
        if rng.random() < 0.12:
            case['b'] = 1
        return case

    def mutate_text(self, text):
        """malformed / unusual texts for the correspondence (kind 'r')"""
        rng = self.rng
        lines = text.split('\n')
        for _ in range(rng.randint(1, 3)):
            r = rng.random()
            i = rng.randrange(len(lines) + 1)
            if r < 0.15 and lines:
                del lines[min(i, len(lines) - 1)]
            elif r < 0.3:
                lines.insert(i, rng.choice(['', '    ', '    ~~^^', '^', '  ^', '~', 'Exception ignored',
                                            'Exception x in y ignored', '  File "z", line 4, in h',
                                            '  File "z", line 4', 'File "s.py", line 9', '    code()', 'x: y',
                                            '  [Previous line repeated 3 more times]']))
            elif r < 0.4 and lines:
                lines = lines[:max(1, i)]          # truncation (may end in a frame / a source line)
            elif r < 0.5 and lines:
                j = min(i, len(lines) - 1)
                lines[j] = rng.choice(['', ' ', '   ', '\t', '      ']) + lines[j].lstrip()
            elif r < 0.6 and lines:
                j = min(i, len(lines) - 1)
                lines[j] = lines[j] + rng.choice([' ', '  ', '\t', '\u00a0'])
            elif r < 0.7 and lines:
                j = min(i, len(lines) - 1)
                k = rng.randrange(len(lines[j]) + 1)
                lines[j] = lines[j][:k] + rng.choice(self.ALPHA + EXOTIC[:3]) + lines[j][k:]
            elif r < 0.8 and lines:
                j = min(i, len(lines) - 1)
                k = rng.randrange(len(lines[j]) + 1)
                lines[j] = lines[j][:k] + lines[j][k + 1:]
            elif r < 0.9:
                lines = [rng.choice(['', ' ', '\n', ' \n\t'])] + lines if rng.random() < 0.5 else lines[1:]
            else:
                lines.append(rng.choice(['', 'Exception ignored', 'Exception KeyError: 1 in <x> ignored', '^', ' ']))
        sep = '\n' if rng.random() < 0.85 else rng.choice(['\r\n', '\r', '\x0c', '\u2028'])
        return sep.join(lines)

    def se_text(self):
        rng = self.rng
        lines = []
        for _ in range(rng.randint(0, 2)):
            lines.append('  File "%s", line %d' % (rng.choice(self.FILES), rng.randint(1, 50))
                         + rng.choice(['', ', in f', ' ', '0x']))
            if rng.random() < 0.8:
                lines.append('    ' + rng.choice(['x = (', 'print "a"', 'foo(']))
        lines.append(rng.choice(['    ^', '^', '   ^^^', ' ^ x']))
        lines.append(rng.choice(['SyntaxError: invalid syntax', 'SyntaxError', 'IndentationError: a: b']))
        if rng.random() < 0.2:
            lines.append('Exception ignored')
        return '\n'.join(lines)

    FIXED_RAW = [
        '', ' ', 'x', HEADER, HEADER + '\n', HEADER + '\n  File "a.py", line 3, in f',
        HEADER + '\n  File "a.py", line 3, in f\n    foo()', HEADER + '\n  File "a.py", line 3, in f\n    foo()\n    ^^^',
        HEADER + '\n  File "a.py", line 3, in f\n', HEADER + '\nException ignored',
        '  ' + HEADER + '  \nE: x', '\n\n' + HEADER + '\n  File "a", line 1, in f\nE', 'File "a", line 1\n^\nE',
        'File "a", line 1\n    x\n  ^\nSyntaxError: bad', 'a\n^\nb', '^\nb', 'File "a", line 1\n^', 'File "a", line 1\n ^\n',
        HEADER + '\n  File "a", line 1, in f", line 2, in g\nE: m', HEADER + '\n  File "", line 1, in f\nE',
        HEADER + '\n  File "a", line , in f\nE', HEADER + '\n  File "a", line 1, in \nE',
        HEADER + '\n  File "a", line 12, in f\n\nE: after blank', HEADER + '\n  File "a", line 12, in f\n  two\nE',
        HEADER + '\n  File "a", line 12, in f\n    File "b", line 1, in g\nE',
        HEADER + '\n  File "a", line 3, in f\n    x\n  [Previous line repeated 5 more times]\nRecursionError: deep',
    ]

    def variant_text(self, case, how):
        """another traceback text that shares lines with the text of `case` (kind 't')"""
        fr = [list(f) for f in case['frames']]
        if how == 'src':        # the same frame lines, other source lines
            for i, f in enumerate(fr):
                f[3], f[4] = (None if f[3] is not None and i % 2 else 'other_%d()' % i), None
        elif how == 'nosrc':
            for f in fr:
                f[3], f[4] = None, None
        elif how == 'path':     # the same source lines under other paths / line numbers
            for i, f in enumerate(fr):
                f[0], f[1] = 'elsewhere/' + f[0], '1' + f[1]
        elif how == 'more':
            fr = fr + [['z.py', '1', 'z', 'z()', None]] + fr
        elif how == 'less':
            fr = fr[:-1]
        return self.std_text(dict(case, frames=fr, type='Other' if how == 'exc' else case['type'],
                                  msg='other: msg' if how == 'exc' else case['msg']))

    PRE_HOWS = ['self', 'selfb', 'selfkw', 'src', 'nosrc', 'path', 'more', 'less', 'exc', 'fail', 'fail2', 'nl', 'cut', 'se']

    def pre_item(self, case, how):
        text = self.std_text(case) if case['k'] == 't' else case['text']
        if how in ('self', 'selfb', 'selfkw'):
            return dict({'text': text}, **({'b': 1} if how == 'selfb' else {'kw': 1} if how == 'selfkw' else {}))
        if how == 'fail':
            return {'text': 'no traceback here\n' + text}
        if how == 'fail2':
            return {'text': '', 'b': 1}
        if how == 'nl':
            return {'text': text + '\n'}
        if how == 'cut':
            return {'text': text[:max(0, len(text) - 3)]}
        if how == 'se':
            return {'text': '\n'.join(text.split('\n')[1:-1] + ['    ^', 'SyntaxError: x'])}
        if case['k'] == 't':
            return {'text': self.variant_text(case, how)}
        return {'text': text.replace('    ', '    other ')}

    def history_family(self):
        """texts parsed after a history of earlier from_string calls in the same process (the same text, texts that
        share frame lines / source lines with it, failing calls), every earlier result edited by its caller"""
        bases = [
            {'k': 't', 'frames': [['/srv/my dir/main.py', '12', '<module>', 'run(job)', None],
                                  ['/srv/my dir/worker.py', '40', 'run', 'return step(job)', '           ^^^^^^^^^'],
                                  ['/srv/my dir/worker.py', '57', 'step', None, None]],
             'type': 'ValueError', 'msg': 'bad job: id=7\nsecond line', 'nl': 0},
            {'k': 't', 'frames': [['<string>', '1', '<module>', None, None], ['a.py', '3', 'f', 'f()', None],
                                  ['a.py', '3', 'f', 'f()', None], ['<string>', '1', '<module>', 'x', None]],
             'type': 'pkg.E', 'msg': '', 'nl': 1},
            {'k': 't', 'frames': [], 'type': 'KeyError', 'msg': "'k'", 'nl': 0},
            {'k': 't', 'frames': [['\u00e9.py', '7', '<lambda>', 'x = "a: b"', None]], 'type': 'E', 'msg': 'm', 'nl': 0, 'b': 1},
            {'k': 'r', 'text': '  File "s.py", line 9\n    x = (\n        ^\nSyntaxError: invalid syntax'},
            {'k': 'r', 'text': HEADER + '\n  File "a.py", line 3, in f\n    foo()\n  File "b.py", line 4, in g'},
        ]
        for base in bases:
            yield base
            for how in self.PRE_HOWS:
                yield dict(base, pre=[self.pre_item(base, how)])
            yield dict(base, pre=[self.pre_item(base, h) for h in ('fail', 'self', 'src', 'selfb')])
            yield dict(base, pre=[self.pre_item(base, h) for h in ('src', 'self', 'self', 'path', 'fail2')])

    def with_history(self, case):
        rng = self.rng
        return dict(case, pre=[self.pre_item(case, rng.choice(self.PRE_HOWS)) for _ in range(rng.randint(1, 3))])

    def cases(self, budget_s):
        rng = self.rng
        for c in self.history_family():
            yield c
        for t in self.FIXED_RAW:
            yield {'k': 'r', 'text': t}
        for c in self.live_family():
            yield c
        for c in self.small_texts():
            yield c
        n_live = 4000 if self.thorough else 1000
        n_rand = 300000 if self.thorough else 40000
        live_every = max(1, n_rand // n_live)
        for i in range(n_rand):
            c = self.random_text_case()
            r = rng.random()
            if r < 0.55:
                pass
            elif r < 0.9:
                c = dict({'k': 'r', 'text': self.mutate_text(self.std_text(c))}, **({'b': 1} if c.get('b') else {}))
            else:
                c = {'k': 'r', 'text': self.se_text() if rng.random() < 0.6 else self.mutate_text(self.se_text())}
            yield self.with_history(c) if i % 12 == 5 else c
            if i % live_every == 0:
                yield self.random_live_case(big=self.thorough and i % (live_every * 10) == 0)

    def deep_cases(self, budget_s):
        rng = self.rng
        while True:
            c = self.random_text_case()
            r = rng.random()
            if r < 0.5:
                yield self.with_history(c) if rng.random() < 0.3 else c
            elif r < 0.8:
                c = {'k': 'r', 'text': self.mutate_text(self.std_text(c))}
                yield self.with_history(c) if rng.random() < 0.3 else c
            else:
                yield self.random_live_case(big=rng.random() < 0.1, session=True)

    # ------------------------------------------------------------------ generation: live call chains
    LIVE_FILES = ['/bv/c16/m%d.py', '/bv c16/d\u00e9 %d/mod.py', 'rel%d.py', '<bv-gen-%d>', 'C:\\bv\\m%d.py',
                  '/bv/"q%d", line 5, in z.py']
    DISK_FILES = ['disk%d.py', 'd \u00e9 %d/mod.py', 'sub%d/a"b, line 5, in z.py']
    # unusual shapes of a code object's file name: names of bytecode files (a sourceless module compiled with
    # py_compile(..., dfile='x.pyc'), compile(src, 'x.pyc', 'exec')), other suffixes and cases, names that only end in
    # the letters c / o, pseudo names, relative names, spaces / quotes / non-ASCII, a bare number
    ODD_FILES = ['/bv/c16/m%d.pyc', 'job%d.pyo', '/bv/c16/M%d.PY', '/bv/c16/m%d.PYC', 'w%d.pyw', '/bv/c16/m%dc', '/bv/c16/mo%do',
                 '/bv/c16/m%d.pyco', '/bv/c16/m%d.py.pyc', '/bv/c16/m%d.pyc.py', '<m%d.pyc>', '<frozen bv%d>', './rel%d.py',
                 '../up%d.pyc', "/bv/it's %d.py", '/bv/c16/m%d.py ', ' m%d.py', '%d', '.pyc%d', 'm%d.pyc\u00e9', '/bv/\u65e5%d.pyo',
                 '/bv/c16/m%d.p', 'x%d.so', '/bv/c16/m%d.py?x=.pyc']
    ODD_DISK_FILES = ['disk%d.pyc', 'opt%d.pyo', 'DISK%d.PY', 'diskc%dc']
    LIVE_KINDS = ['call', 'call', 'lambda', 'method', 'gen', 'exec', 'eval', 'rec', 'multi', 'comp', 'deco', 'prop',
                  'reraise', 'reraise', 'async', 'rec', 'rec2', 'recalt', 'rec3', 'rec3h', 'recgx', 'mutlam', 'mutual']
    # link kinds that produce runs of entries: 'n' = number of recursive calls
    REC_KINDS = ('rec', 'rec2', 'recalt', 'rec3', 'rec3h', 'recgx', 'mutlam', 'mutual')
    # how an intermediate function hands an exception it caught on to its caller
    REHOW = ['as_e', 'bare', 'wtb', 'trim', 'after', 'nested', 'loop', 'throw', 'faketb', 'finally']
    BUILTIN_EXC = ['ValueError', 'KeyError', 'TypeError', 'RuntimeError', 'OSError', 'ZeroDivisionError',
                   'SystemExit', 'KeyboardInterrupt', 'AssertionError', 'LookupError', 'UnicodeError']
    LIVE_ARGS = [[], [''], ['x'], ['a: b'], ['l1\nl2'], ['l1\n  File "q", line 3, in z\n    src\nE: y'], [3], ['a', 'b'],
                 [2, 'nope'], ['\u00e9\u65e5'], [' '], ['tail '], [None], ['x\n'], ['a\rb']]

    # module names around the two the interpreter prints without prefix: substrings, superstrings, neighbours
    MOD_NAMES = ['main', '__main', 'main__', '_main_', '__main__x', 'x__main__', '__main__.x', 'x.__main__', 'builtin',
                 'uiltins', 'built', 'tins', 'in', 'b', '_', '__', 's', 'mainbuiltins', '__main__builtins',
                 '__main__ builtins', 'x.builtins', 'builtins.x', 'Builtins', '__MAIN__', 'exceptions', '__builtin__',
                 'n__b', '__main__,builtins']
    # what happened to a module kept on disk before the failing run: the earlier version of the file
    # ('none' = there was none), who read it into linecache, whether the rewrite kept the mtime, whether the file
    # is removed before the report, whether the module also has a loader with get_source
    V1S = ['none', 'retag', 'grow', 'shift', 'short', 'same']
    PRIMES = ['none', 'getlines', 'boltons', 'std']
    # whitespace around the lines of a hand-registered linecache entry (what str.strip() removes)
    WSS = [['', ''], ['\x0c', ' \x0c'], ['\u00a0 ', '\u2003'], ['\t \x0b', '\x1c'], ['\u3000', '\x1f\t'], ['', '\r']]

    def random_disk(self, m, i):
        rng = self.rng
        m['reg'] = 'disk'
        m['file'] = rng.choice(self.DISK_FILES + self.ODD_DISK_FILES) % i
        if rng.random() < 0.3:
            m['decoy'] = 1
        m['v1'] = rng.choice(self.V1S)
        m['prime'] = rng.choice(self.PRIMES)
        m['mt'] = 'same' if rng.random() < 0.25 else 'differ'
        m['gone'] = 1 if rng.random() < 0.15 else 0
        m['ldr'] = 1 if rng.random() < 0.15 else 0
        if rng.random() < 0.06:
            m['junk'] = 1
        return m

    def random_link(self, nm, big=False):
        rng = self.rng
        kind = rng.choice(self.LIVE_KINDS)
        ln = {'m': rng.randrange(nm), 'kind': kind}
        if kind in self.REC_KINDS:
            ln['n'] = rng.choice([0, 1, 2, 3, 4, 5, 9]) if not big else rng.choice([2, 3, 4, 40])
        if kind == 'eval' and rng.random() < 0.5:
            ln['cf'] = rng.choice(self.ODD_FILES) % rng.randrange(3)
        if kind in ('call', 'lambda', 'exec'):
            ln['pad'] = rng.choice(['    ', '  ', '\t', '        '])
            ln['tail'] = rng.choice(['', '', '  # c', '   ', ' \t'])
        if kind == 'reraise':
            ln['how'] = rng.choice(self.REHOW)
            if ln['how'] == 'loop':
                ln['n'] = rng.choice([0, 1, 2, 3, 4, 6])
        return ln

    def random_live_case(self, big=False, session=False):
        rng = self.rng
        nm = rng.randint(1, 3)
        mods = []
        for i in range(nm):
            m = {'file': rng.choice(self.LIVE_FILES if rng.random() < 0.6 else self.ODD_FILES) % i,
                 'name': rng.choice(['bvm%d' % i, 'pkg.bvm%d' % i, '__main__', 'builtins']) if rng.random() < 0.5
                 else rng.choice(self.MOD_NAMES),
                 'reg': rng.choice(['cache', 'cache', 'loader', 'none'])}
            r = rng.random()
            if r < 0.25:
                self.random_disk(m, i)
            elif r < 0.3:
                m['reg'] = rng.choice(['loader_none', 'loader_err'])
            elif r < 0.4 and m['reg'] == 'cache':
                m['ws'] = rng.choice(self.WSS)
            if rng.random() < 0.2:
                m['gfile'] = rng.choice(['/elsewhere/mod%d.py' % i, 'mod.pyc', '<frozen x>', ''])
            mods.append(m)
        depth = rng.randint(0, 6) if not big else rng.randint(10, 30)
        links = [self.random_link(nm, big) for _ in range(depth)]
        kind = rng.choice(['builtin', 'builtin', 'top', 'top', 'nested', 'inner', 'strsub', 'modattr', 'badstr', 'odd'])
        exc = {'kind': kind, 'm': rng.randrange(nm), 'args': rng.choice(self.LIVE_ARGS)}
        if kind == 'odd':
            exc['odd'] = rng.choice(self.ODDS)
        if kind == 'badstr':
            exc['inner'] = rng.choice(['ZeroDivisionError', 'ValueError', 'TypeError', 'Exception', 'RecursionError'])
        if kind == 'builtin':
            exc['name'] = rng.choice(self.BUILTIN_EXC)
        if kind == 'modattr':
            exc['mod'] = rng.choice(['builtins', '__main__', 'exceptions', '__builtin__', 'x.y', None] + self.MOD_NAMES)
        limit = None
        if rng.random() < 0.3:
            limit = rng.choice([0, 1, 2, 3, 5, 50])
        case = {'k': 'l', 'mods': mods, 'links': links, 'exc': exc, 'limit': limit,
                'order': 'b' if rng.random() < 0.6 else 's'}
        if rng.random() < 0.08:
            case['tblimit'] = rng.choice([1, 2, 3, 5, 1000])
        if rng.random() < 0.1:
            case['skip'] = rng.choice([1, 1, 2, 3])
        if rng.random() < 0.3:
            case['seq'] = rng.choice(['dict', 'build'])
        if rng.random() < 0.3:
            case['af'] = rng.choice(['kw', 'pos', 'stderr'])
        if rng.random() < 0.15:
            case['pf'] = 1
        if rng.random() < 0.12:
            case['late'] = 1
        if rng.random() < (0.5 if session else 0.2):
            case['exc'] = dict(self.random_capture(nm, False), m=exc['m'])
            case['prior'] = [self.random_capture(nm, True) for _ in range(rng.randint(1, 3))]
        return case

    def live_family(self):
        """small adversarial live cases, enumerated (first in the stream): every way of handing a caught exception
        on, at every position of a short chain; every history of a module file on disk; whitespace around cached
        lines; sys.tracebacklimit; type names"""
        def case(mods, links, exc=None, limit=None, order='b', **kw):
            c = {'k': 'l', 'mods': mods, 'links': links,
                 'exc': exc or {'kind': 'builtin', 'name': 'ValueError', 'm': 0, 'args': ['x']}, 'limit': limit,
                 'order': order}
            c.update(kw)
            return c
        pin = {'file': '/bv/c16/m0.py', 'name': 'bvm0', 'reg': 'cache'}
        call = {'m': 0, 'kind': 'call'}
        lam = {'m': 0, 'kind': 'lambda'}
        # recursion through one line with several call sites / several code objects on it; mutual recursion: run
        # lengths around the interpreter's cut-off of 3 (n recursive calls = n + 1 entries)
        for kind in ('rec3', 'rec3h', 'recgx', 'mutlam', 'mutual'):
            for n in (2, 3, 4, 5, 8):
                rec = {'m': 0, 'kind': kind, 'n': n}
                yield case([pin], [rec])
                yield case([pin], [call, rec, lam], order='s', limit=n + 1)
            yield case([pin], [{'m': 0, 'kind': kind, 'n': 7}, {'m': 0, 'kind': kind, 'n': 4}], tblimit=9)
            yield case([pin], [{'m': 0, 'kind': kind, 'n': 6}], skip=2, seq='build')
        # unusual shapes of the code's file name
        for j, f in enumerate(self.ODD_FILES):
            for reg in ('cache', 'none', 'loader'):
                yield case([{'file': f % 0, 'name': 'bvm0', 'reg': reg}], [call, lam], order='bs'[j % 2])
            yield case([pin], [call, {'m': 0, 'kind': 'eval', 'cf': f % 0}, lam], order='sb'[j % 2])
            yield case([pin, {'file': f % 1, 'name': 'bvm1', 'reg': 'cache'}], [{'m': 1, 'kind': 'rec', 'n': 4}, call],
                       exc={'kind': 'top', 'm': 1, 'args': ['a: b']})
        for f in self.ODD_DISK_FILES + self.DISK_FILES[:1]:
            for decoy in (0, 1):
                for prime in ('none', 'getlines'):
                    yield case([{'file': f % 0, 'name': 'plug', 'reg': 'disk', 'v1': 'retag' if prime != 'none' else 'none',
                                 'prime': prime, 'mt': 'differ', 'gone': 0, 'ldr': 0, 'decoy': decoy}], [call, lam])
        # every argument form of the entry points; failing calls first; exception objects / classes with unusual
        # special methods
        for af in ('kw', 'pos', 'stderr'):
            for limit in (None, 1):
                yield case([pin], [call, lam], limit=limit, af=af)
                yield case([pin], [call], limit=limit, af=af, pf=1, order='s')
        # object lifetime: only the TracebackInfo is kept, everything else goes away before it is first read
        for reg in ('cache', 'loader', 'none', 'loader_none'):
            for order in 'bs':
                yield case([{'file': 'rel0.py', 'name': 'bvm0', 'reg': reg}], [call, lam], order=order, late=1)
        for v1, prime in (('none', 'none'), ('retag', 'getlines'), ('shift', 'boltons'), ('grow', 'std')):
            for ldr in (0, 1):
                yield case([{'file': 'disk0.py', 'name': 'plug', 'reg': 'disk', 'v1': v1, 'prime': prime, 'mt': 'differ', 'gone': 0,
                             'ldr': ldr}], [call, {'m': 0, 'kind': 'rec3', 'n': 4}], late=1)
        for limit in (1000, 999, 1001):     # the default limit itself
            yield case([pin], [call, lam], limit=limit)
            yield case([pin], [call, lam], tblimit=limit)
        for odd in self.ODDS:
            for args in ([], ['x']):
                yield case([pin], [call], exc={'kind': 'odd', 'm': 0, 'args': args, 'odd': odd})
            yield case([pin], [], exc={'kind': 'odd', 'm': 0, 'args': ['x'], 'odd': odd},
                       prior=[{'kind': 'same', 'args': ['y: z'], 'via': 'ep'}, {'kind': 'odd', 'odd': odd, 'args': ['w'], 'via': 'pe'}])
        for how in self.REHOW:
            for n in ([0, 1, 2, 3, 4] if how == 'loop' else [None]):
                rr = {'m': 0, 'kind': 'reraise', 'how': how}
                if n is not None:
                    rr['n'] = n
                for links in ([rr], [call, rr], [rr, call], [call, rr, lam], [rr, rr], [rr, call, rr]):
                    yield case([pin], links)
                yield case([pin], [call, rr, call], limit=2)
                yield case([pin], [rr, call], limit=1, order='s')
                yield case([{'file': 'rel0.py', 'name': 'bvm0', 'reg': 'loader'}], [rr, call])
        for kind in ('async', 'gen', 'deco', 'prop', 'comp', 'multi', 'exec', 'eval', 'method'):
            yield case([pin], [{'m': 0, 'kind': kind}])
            yield case([pin], [{'m': 0, 'kind': 'reraise', 'how': 'as_e'}, {'m': 0, 'kind': kind}])
        # a module file on disk and its history
        for v1 in self.V1S:
            for prime in self.PRIMES:
                for mt in ('differ', 'same'):
                    for gone in (0, 1):
                        if (v1 == 'none' and mt == 'same') or (prime == 'none' and v1 != 'none' and mt == 'same'):
                            continue
                        dm = {'file': 'disk0.py', 'name': 'plug', 'reg': 'disk', 'v1': v1, 'prime': prime, 'mt': mt,
                              'gone': gone, 'ldr': 0}
                        yield case([dm], [call, lam])
                        if gone == 0 and mt == 'differ':
                            yield case([dict(dm, file='d \u00e9 0/mod.py'), pin],
                                       [call, {'m': 1, 'kind': 'call'}, {'m': 0, 'kind': 'method'}],
                                       exc={'kind': 'top', 'm': 0, 'args': ['a: b']}, order='s')
        for prime in self.PRIMES:
            for v1 in ('none', 'retag', 'shift'):
                for order in 'bs':
                    yield case([{'file': 'disk0.py', 'name': 'plug', 'reg': 'disk', 'v1': v1, 'prime': prime,
                                 'mt': 'differ', 'gone': 1, 'ldr': 1}], [call], order=order)
                yield case([{'file': 'disk0.py', 'name': 'plug', 'reg': 'disk', 'v1': v1, 'prime': prime, 'mt': 'differ',
                             'gone': 0, 'ldr': 1}], [call])
        for prime in ('none', 'getlines', 'boltons'):
            for v1 in ('none', 'retag'):
                yield case([{'file': 'disk0.py', 'name': 'plug', 'reg': 'disk', 'v1': v1, 'prime': prime, 'mt': 'differ',
                             'gone': 0, 'ldr': 0, 'junk': 1}], [call])
        for reg in ('loader', 'cache', 'none'):
            yield case([{'file': 'rel0.py', 'name': '', 'reg': reg}], [call], exc={'kind': 'top', 'm': 0, 'args': ['x']})
        for reg in ('loader', 'loader_none', 'loader_err', 'none', 'cache'):
            for f in ('/bv/c16/m0.py', 'rel0.py', '<bv-gen-0>', '<', '<>', 'a>'):
                for order in 'bs':
                    yield case([{'file': f, 'name': 'bvm0', 'reg': reg}], [call], order=order)
        for ws in self.WSS:
            yield case([dict(pin, ws=ws)], [call, lam])
        for tl in (1, 2, 3, 1000):
            for limit in (None, 1, 3):
                yield case([pin], [call, lam, call], limit=limit, tblimit=tl)
        for gf in ('/elsewhere/mod.py', 'mod.pyc', ''):
            yield case([dict(pin, gfile=gf)], [call, lam])
            yield case([{'file': 'rel0.py', 'name': 'bvm0', 'reg': 'loader', 'gfile': gf}], [call])
        for skip in (1, 2, 3, 9):
            yield case([pin], [call, {'m': 0, 'kind': 'reraise', 'how': 'as_e'}, lam], skip=skip)
            yield case([pin], [call, call], skip=skip, limit=1, order='s')
        for seq in ('dict', 'build'):
            for limit in (None, 1, 2):
                yield case([pin], [call, lam], limit=limit, seq=seq)
                yield case([{'file': 'disk0.py', 'name': 'plug', 'reg': 'disk', 'v1': 'retag', 'prime': 'getlines',
                             'mt': 'differ', 'gone': 0, 'ldr': 0}], [call], limit=limit, seq=seq)
        for mod in [None, 'builtins', '__main__', 'main', 'x.y', '']:
            yield case([pin], [call], exc={'kind': 'modattr', 'm': 0, 'args': ['x'], 'mod': mod})
        for args in self.LIVE_ARGS:
            yield case([pin], [], exc={'kind': 'strsub', 'm': 0, 'args': args})
        # an exception whose __str__ raises
        for inner in ('ZeroDivisionError', 'ValueError', 'Exception'):
            for order in 'bs':
                yield case([pin], [call], exc={'kind': 'badstr', 'm': 0, 'args': ['x'], 'inner': inner}, order=order)
            yield case([pin], [], exc={'kind': 'top', 'm': 0, 'args': ['x']},
                       prior=[{'kind': 'badstr', 'args': [], 'inner': inner, 'via': 'pe'}])
        # runs of identical entries (recursion): around the interpreter's cut-off of 3, 'time' / 'times', two runs,
        # a run cut by the limit, neighbours that share only two of file / line / name
        for n in (2, 3, 4, 5, 8):
            for kind in ('rec', 'rec2', 'recalt'):
                rec = {'m': 0, 'kind': kind, 'n': n}
                yield case([pin], [rec])
                yield case([pin], [call, rec, lam], order='s')
                for limit in (2, 4, 5):
                    yield case([pin], [rec], limit=limit)
            yield case([pin], [{'m': 0, 'kind': 'rec', 'n': n}, call, {'m': 0, 'kind': 'rec', 'n': 4}])
            yield case([pin], [{'m': 0, 'kind': 'rec', 'n': n}, {'m': 0, 'kind': 'rec', 'n': n}], tblimit=n + 3)
            yield case([pin], [{'m': 0, 'kind': 'rec', 'n': n}], skip=2)
        # sessions: several captures in one process; exception classes that share a module and a bare name (classes
        # nested in classes / functions), share a qualified name across modules, are redefined between captures, or
        # are the same object with its naming attributes reassigned between captures
        for c in self.session_family(case, pin, call):
            yield c

    # (a __bool__ that raises is not generated: the traceback module itself fails on it, there is no reference)
    ODDS = ['falsy', 'eqall', 'unhash', 'meta']

    SESSION_PAIRS = [
        ({'kind': 'odd', 'odd': 'meta', 'cname': 'MetaA'}, {'kind': 'odd', 'odd': 'meta', 'cname': 'MetaB'}),   # the classes compare equal
        ({'kind': 'odd', 'odd': 'eqall', 'cname': 'EqA'}, {'kind': 'odd', 'odd': 'eqall', 'cname': 'EqB'}),   # the instances compare equal
        # (earlier capture, later capture): what the two classes have in common
        ({'kind': 'inner', 'outer': 'Lexer', 'cname': 'Error'}, {'kind': 'inner', 'outer': 'Parser', 'cname': 'Error'}),
        ({'kind': 'nested', 'outer': 'mk_a', 'cname': 'LocalErr'}, {'kind': 'nested', 'outer': 'mk_b', 'cname': 'LocalErr'}),
        ({'kind': 'top', 'cname': 'Error'}, {'kind': 'inner', 'outer': 'Box', 'cname': 'Error'}),
        ({'kind': 'inner', 'outer': 'Box', 'cname': 'Error'}, {'kind': 'top', 'cname': 'Error'}),
        ({'kind': 'top', 'cname': 'TopErr'}, {'kind': 'top', 'cname': 'TopErr'}),              # redefined, same names
        ({'kind': 'builtin', 'name': 'ValueError'}, {'kind': 'top', 'cname': 'ValueError'}),   # shadows a builtin's name
        ({'kind': 'top', 'cname': 'KeyError'}, {'kind': 'builtin', 'name': 'KeyError'}),
        ({'kind': 'modattr', 'mod': 'builtins', 'cname': 'E'}, {'kind': 'modattr', 'mod': 'x.y', 'cname': 'E'}),
        ({'kind': 'modattr', 'mod': 'x.y', 'cname': 'E'}, {'kind': 'modattr', 'mod': '__main__', 'cname': 'E'}),
        ({'kind': 'modattr', 'mod': None, 'cname': 'E'}, {'kind': 'modattr', 'mod': 'None', 'cname': 'E'}),
        ({'kind': 'modattr', 'mod': 'a.b', 'cname': 'C'}, {'kind': 'modattr', 'mod': 'a', 'cname': 'C', 'set': {'__qualname__': 'b.C'}}),
        ({'kind': 'strsub', 'cname': 'Error'}, {'kind': 'inner', 'outer': 'K', 'cname': 'Error'}),
    ]
    # the same class object, renamed between the captures
    SESSION_SETS = [
        ({'__module__': 'x.y'}, {'__module__': 'builtins'}), ({'__module__': '__main__'}, {'__module__': 'pkg'}),
        ({'__qualname__': 'A.Err'}, {'__qualname__': 'B.Err'}), ({'__name__': 'Renamed'}, {'__qualname__': 'Q'}),
        ({'__module__': 'm', '__qualname__': 'A.B'}, {'__module__': 'm.A', '__qualname__': 'B'}),
        ({}, {'__module__': None}), ({'__module__': None}, {'__module__': 'bvm0'}),
    ]

    def session_family(self, case, pin, call):
        def cap(spec, args, **kw):
            return dict(dict(spec, args=args), **kw)
        for a, b in self.SESSION_PAIRS:
            for via in ('ep', 'pe'):
                yield case([pin], [call], exc=cap(b, ['x'], m=0), prior=[cap(a, ['y: z'], via=via)])
            yield case([pin], [], exc=cap(b, [''], m=0), prior=[cap(a, ['u'], via='ep'), cap(b, ['v'], via='pe'), cap(a, [], via='ep')])
            # the two classes live in two modules of the same / of different names
            for n2 in ('bvm0', 'bvm1', '__main__'):
                yield case([pin, {'file': '/bv/c16/m1.py', 'name': n2, 'reg': 'cache'}], [call], exc=cap(b, ['x'], m=0),
                           prior=[cap(a, ['y'], m=1, via='ep')])
        for s1, s2 in self.SESSION_SETS:
            for kind in ('top', 'inner'):
                yield case([pin], [call], exc={'kind': kind, 'm': 0, 'args': ['x'], 'set': s2},
                           prior=[{'kind': 'same', 'args': ['y'], 'set': s1, 'via': 'ep'}])
                yield case([pin], [], exc={'kind': kind, 'm': 0, 'args': [], 'set': s1},
                           prior=[{'kind': 'same', 'args': ['y'], 'set': s2, 'via': 'pe'},
                                  {'kind': 'same', 'args': ['w'], 'set': s1, 'via': 'ep'}])

    def random_capture(self, nm, prior):
        rng = self.rng
        kind = rng.choice(['builtin', 'top', 'nested', 'inner', 'strsub', 'modattr', 'badstr', 'odd'] + (['same', 'same'] if prior else []))
        c = {'kind': kind, 'args': rng.choice(self.LIVE_ARGS)}
        if kind == 'odd':
            c['odd'] = rng.choice(self.ODDS)
        if kind == 'builtin':
            c['name'] = rng.choice(self.BUILTIN_EXC)
        elif kind != 'same':
            c['cname'] = rng.choice(['Error', 'Err', 'E', 'ValueError', 'C'])
            if kind in ('nested', 'inner'):
                c['outer'] = rng.choice(['A', 'B', 'mk', 'Lexer'])
            if kind == 'modattr':
                c['mod'] = rng.choice(['builtins', '__main__', 'x.y', None, 'bvm0', 'A'])
        if kind == 'same' or (kind != 'builtin' and rng.random() < 0.25):
            st = {}
            if rng.random() < 0.6:
                st['__module__'] = rng.choice(['builtins', '__main__', 'x.y', None, 'bvm0', 'A', ''])
            if rng.random() < 0.6:
                st['__qualname__'] = rng.choice(['A.Error', 'B.Error', 'Error', 'mk.<locals>.E', 'E'])
            if rng.random() < 0.2:
                st['__name__'] = rng.choice(['Error', 'E', 'N'])
            c['set'] = st
        if prior:
            c['via'] = rng.choice(['ep', 'pe'])
            if nm > 1 and rng.random() < 0.3:
                c['m'] = rng.randrange(nm)
        return c

    @staticmethod
    def _exc_def(L, exc, tag):
        """append the definition of the exception class of one capture to the module source L; returns the
        expression that names the class. 'cname' = the class's bare name, 'outer' = the enclosing class / function"""
        k = exc['kind']
        if k == 'builtin':
            return exc['name']
        if k == 'top':
            cn = exc.get('cname', 'TopErr')
            L += ['class %s(Exception):' % cn, '    pass']
            return cn
        if k == 'nested':
            cn, mk = exc.get('cname', 'LocalErr'), exc.get('outer', 'mk' + tag)
            L += ['def %s():' % mk, '    class %s(Exception):' % cn, '        pass', '    return %s' % cn,
                  '%s%s = %s()' % (cn, tag, mk)]
            return cn + tag
        if k == 'inner':
            cn, outer = exc.get('cname', 'InnerErr'), exc.get('outer', 'Outer' + tag)
            L += ['class %s:' % outer, '    class %s(ValueError):' % cn, '        pass']
            return '%s.%s' % (outer, cn)
        if k == 'strsub':
            cn = exc.get('cname', 'StrErr')
            L += ['class %s(Exception):' % cn, '    def __str__(self):',
                  '        return "/".join(str(a) for a in self.args)']
            return cn
        if k == 'badstr':
            cn = exc.get('cname', 'BadStrErr')
            L += ['class %s(Exception):' % cn, '    def __str__(self):',
                  '        raise %s("str() of the exception raises")' % exc.get('inner', 'ZeroDivisionError')]
            return cn
        if k == 'odd':
            # classes / instances with unusual __bool__ / __len__ / __eq__ / __hash__ (what a memo or a truth test
            # inside the reporting code would stumble over)
            cn, o = exc.get('cname', 'OddErr'), exc.get('odd', 'falsy')
            if o == 'meta':
                L += ['class OddMeta%s(type):' % tag, '    def __eq__(a, b):', '        return True', '    def __hash__(a):',
                      '        return 7', 'class %s(Exception, metaclass=OddMeta%s):' % (cn, tag), '    pass']
            else:
                L += ['class %s(Exception):' % cn] + {
                    'falsy': ['    def __bool__(self):', '        return False', '    def __len__(self):', '        return 0'],
                    'eqall': ['    def __eq__(self, other):', '        return True', '    def __hash__(self):', '        return 1'],
                    'unhash': ['    __hash__ = None'],
                }[o]
            return cn
        if k == 'modattr':
            cn = exc.get('cname', 'ModErr')
            L += ['class %s(Exception):' % cn, '    pass', '%s.__module__ = %r' % (cn, exc['mod'])]
            return cn
        raise ValueError(k)

    @staticmethod
    def program(case):
        """python source of every module of a live case"""
        mods, links, exc = case['mods'], case['links'], case['exc']
        srcs = [['# generated module %d' % i, ''] for i in range(len(mods))]
        for i, ln in enumerate(links):
            L = srcs[ln['m']]
            nxt = 'R[%d]' % (i + 1)
            kind = ln['kind']
            pad, tail = ln.get('pad', '    '), ln.get('tail', '')
            if kind == 'call':
                L += ['def fn%d():' % i, '%sreturn %s()%s' % (pad, nxt, tail), 'R[%d] = fn%d' % (i, i)]
            elif kind == 'lambda':
                L += ['R[%d] = lambda: %s()%s' % (i, nxt, tail)]
            elif kind == 'method':
                L += ['class K%d:' % i, '    def go(self):', '        x = %s()' % nxt, '        return x',
                      'R[%d] = K%d().go' % (i, i)]
            elif kind == 'gen':
                L += ['def fn%d():' % i, '    def inner():', '        yield %s()' % nxt, '    return list(inner())',
                      'R[%d] = fn%d' % (i, i)]
            elif kind == 'exec':
                L += ['def fn%d():' % i, '%sexec("R[%d]()", {"R": R})%s' % (pad, i + 1, tail), 'R[%d] = fn%d' % (i, i)]
            elif kind == 'eval':
                L += ['def fn%d():' % i,
                      '    return eval(compile("\\n\\n" + "R[%d]()", %r, "eval"), {"R": R})' % (i + 1, ln.get('cf', '<bv eval %d>' % i)),
                      'R[%d] = fn%d' % (i, i)]
            elif kind == 'rec':
                L += ['def fn%d(n=%d):' % (i, ln.get('n', 1)), '    if n:', '        return fn%d(n - 1)' % i,
                      '    return %s()' % nxt, 'R[%d] = fn%d' % (i, i)]
            elif kind == 'rec2':
                # recursion through a def and a lambda on ONE line: consecutive entries share file and line, not the name
                L += ['def fn%d(n=%d): return (lambda: fn%d(n - 1) if n else %s())()' % (i, ln.get('n', 1), i, nxt),
                      'R[%d] = fn%d' % (i, i)]
            elif kind in ('rec3', 'rec3h'):
                # recursion through ONE line with two call sites on it, taken in turn ('rec3') or the first for the
                # outer half of the run and the second for the inner half ('rec3h'): consecutive entries share file,
                # line and name and differ only in the instruction offset (tb_lasti)
                n0 = ln.get('n', 1)
                cond = 'n % 2' if kind == 'rec3' else 'n > %d' % (n0 // 2)
                L += ['def fn%d(n=%d): return fn%d(n - 1) if %s else (fn%d(n - 1) if n else %s())' % (i, n0, i, cond, i, nxt),
                      'R[%d] = fn%d' % (i, i)]
            elif kind == 'recgx':
                # recursion through a generator expression on the line of the def
                L += ['def fn%d(n=%d): return next(fn%d(n - 1) for _ in (1,)) if n else %s()' % (i, ln.get('n', 1), i, nxt),
                      'R[%d] = fn%d' % (i, i)]
            elif kind == 'mutlam':
                # two lambdas on ONE line calling each other: two code objects, the same file, line and name
                L += ['A%d = lambda n=%d: B%d(n - 1) if n else %s(); B%d = lambda n=0: A%d(n - 1) if n else %s()'
                      % (i, ln.get('n', 1), i, nxt, i, i, nxt), 'R[%d] = A%d' % (i, i)]
            elif kind == 'mutual':
                # a -> b -> a, each call on one line
                L += ['def fa%d(n=%d): return fb%d(n - 1) if n else %s()' % (i, ln.get('n', 1), i, nxt),
                      'def fb%d(n=0): return fa%d(n - 1) if n else %s()' % (i, i, nxt), 'R[%d] = fa%d' % (i, i)]
            elif kind == 'recalt':
                # recursion from two lines in turn: consecutive entries share file and name, not the line
                L += ['def fn%d(n=%d):' % (i, ln.get('n', 1)), '    if n % 2:', '        return fn%d(n - 1)' % i, '    if n:',
                      '        return fn%d(n - 1)' % i, '    return %s()' % nxt, 'R[%d] = fn%d' % (i, i)]
            elif kind == 'multi':
                L += ['def fn%d():' % i, '    return (1 +', '            %s(' % nxt, '            ))', 'R[%d] = fn%d' % (i, i)]
            elif kind == 'comp':
                L += ['def fn%d():' % i, '    return [%s() for _ in (1,)]' % nxt, 'R[%d] = fn%d' % (i, i)]
            elif kind == 'deco':
                L += ['def deco%d(f):' % i, '    def wrapper(*a):', '        return f(*a)', '    return wrapper',
                      '@deco%d' % i, 'def fn%d():' % i, '    return %s()' % nxt, 'R[%d] = fn%d' % (i, i)]
            elif kind == 'prop':
                L += ['class P%d:' % i, '    @property', '    def val(self):', '        return %s()' % nxt,
                      'R[%d] = lambda: P%d().val' % (i, i)]
            elif kind == 'async':
                L += ['async def co%d():' % i, '    return %s()' % nxt, 'def fn%d():' % i, '    c = co%d()' % i,
                      '    try:', '        c.send(None)', '    except StopIteration as s:', '        return s.value',
                      'R[%d] = fn%d' % (i, i)]
            elif kind == 'reraise':
                # the function catches the exception and hands the SAME object on (no cause, no context)
                how = ln.get('how', 'as_e')
                n = ln.get('n', 1)
                head = ['def fn%d():' % i, '    try:', '        return %s()' % nxt]
                if how == 'as_e':
                    body = head + ['    except BaseException as e:', '        raise e']
                elif how == 'bare':
                    body = head + ['    except BaseException:', '        raise']
                elif how == 'wtb':
                    body = head + ['    except BaseException as e:', '        raise e.with_traceback(e.__traceback__)']
                elif how == 'trim':
                    body = head + ['    except BaseException as e:',
                                   '        raise e.with_traceback(e.__traceback__.tb_next)']
                elif how == 'faketb':
                    body = head + ['    except BaseException as e:', '        t = e.__traceback__',
                                   '        raise e.with_traceback(type(t)(t.tb_next, t.tb_frame, t.tb_lasti, t.tb_lineno))']
                elif how == 'finally':
                    body = head + ['    finally:', '        x = 1']
                elif how == 'after':
                    body = ['def fn%d():' % i, '    saved = None', '    try:', '        return %s()' % nxt,
                            '    except BaseException as e:', '        saved = e', '    raise saved']
                elif how == 'nested':
                    body = ['def fn%d():' % i, '    try:', '        try:', '            return %s()' % nxt,
                            '        except BaseException as e:', '            raise e',
                            '    except BaseException as e2:', '        raise e2']
                elif how == 'loop':
                    body = ['def fn%d():' % i, '    err = None', '    for _ in range(%d):' % (n + 1), '        try:',
                            '            if err is None:', '                %s()' % nxt, '            else:',
                            '                raise err', '        except BaseException as x:', '            err = x',
                            '    raise err']
                elif how == 'throw':
                    body = ['def fn%d():' % i, '    def g():', '        yield 1', '    it = g()', '    next(it)',
                            '    saved = None', '    try:', '        return %s()' % nxt,
                            '    except BaseException as e:', '        saved = e', '    it.throw(saved)']
                else:
                    raise ValueError(how)
                L += body + ['R[%d] = fn%d' % (i, i)]
            else:
                raise ValueError(kind)
        n = len(links)
        L = srcs[exc['m']]
        args = ', '.join(repr(a) for a in exc['args'])
        priors = case.get('prior') or []
        cls = C16._exc_def(L, exc, '')
        sets = ['    XC.%s = %r' % (a, v) for a, v in sorted((exc.get('set') or {}).items())]
        if priors or sets:
            L += ['XC = %s' % cls]
        L += ['def fn%d():' % n] + sets + ['    raise %s(%s)' % (cls, args), 'R[%d] = fn%d' % (n, n)]
        # earlier captures of the same session: other exception classes (same bare name, other qualified name;
        # the same class object with its naming attributes reassigned; same names in another module ...), each
        # raised by a function of its own
        for j, pr in enumerate(priors):
            P = srcs[pr.get('m', exc['m'])]
            tag = 'p%d' % j
            if pr['kind'] == 'same':
                P += ['XC%s = None' % tag]
                who = 'R[%r]' % 'XC'
            else:
                P += ['XC%s = %s' % (tag, C16._exc_def(P, pr, tag))]
                who = 'XC%s' % tag
            P += ['def pfn%d():' % j]
            P += ['    %s.%s = %r' % (who, a, v) for a, v in sorted((pr.get('set') or {}).items())]
            P += ['    raise %s(%s)' % (who, ', '.join(repr(a) for a in pr['args'])), 'R[%r] = pfn%d' % ('P%d' % j, j)]
        if any(pr['kind'] == 'same' for pr in priors):
            srcs[exc['m']] += ['R[%r] = XC' % 'XC']
        return ['\n'.join(l) + '\n' for l in srcs]

    class _Loader:
        def __init__(self, src, mode='loader'):
            self.src = src
            self.mode = mode

        def get_source(self, name):
            if self.mode == 'loader_err':
                raise ImportError(name)
            return None if self.mode == 'loader_none' else self.src

    @staticmethod
    def _versions(src, v1):
        """(earlier version of a module file or None, the version that runs and fails)"""
        def tag(t):
            return ''.join(l + t + '\n' for l in src.splitlines())
        if v1 == 'retag':
            return tag('  #1'), tag('  #2')            # same size, every line differs
        if v1 == 'grow':
            return src, tag('  # v2')
        if v1 == 'shift':
            return '# earlier\n# version\n' + src, src   # the old text of a line number is another statement
        if v1 == 'short':
            return ''.join(src.splitlines(True)[:2]), src   # the failing lines did not exist
        if v1 == 'same':
            return src, src
        return None, src

    T1, T2 = 1500000000, 1600000000

    def _raise_chain(self, case, tmp, tbutils):
        """build the program, replay the history of the modules kept on disk, run the program; returns
        (sys.exc_info() of the exception it raises, linecache keys to drop afterwards, what boltons built from the
        exception while it was being handled)"""
        srcs = self.program(case)
        mods = case['mods']
        paths = []
        for m in mods:
            if m['reg'] == 'disk':
                p = os.path.join(tmp, *m['file'].split('/'))
                os.makedirs(os.path.dirname(p), exist_ok=True)
                paths.append(p)
            else:
                paths.append(m['file'])

        self._globals = []

        def load(texts, R):
            for m, src, path in zip(mods, texts, paths):
                g = {'__name__': m['name'], 'R': R}
                self._globals.append(g)
                if m.get('gfile'):
                    g['__file__'] = m['gfile']      # code compiled under another name than the module's __file__
                reg = m['reg']
                if reg == 'cache':
                    lead, trail = m.get('ws') or ['', '']
                    linecache.cache[path] = (len(src), None, [lead + l + trail + '\n' for l in src.splitlines()], path)
                elif reg in ('loader', 'loader_none', 'loader_err'):
                    g['__loader__'] = self._Loader(src, reg)
                    linecache.cache.pop(path, None)
                elif reg == 'disk':
                    if m.get('ldr'):
                        g['__loader__'] = self._Loader(src)
                else:
                    linecache.cache.pop(path, None)
                exec(compile(src, path, 'exec'), g)

        def write(path, text, t):
            with open(path, 'w', encoding='utf-8') as f:
                f.write(text)
            os.utime(path, (t, t))

        disk = [i for i, m in enumerate(mods) if m['reg'] == 'disk']
        for i in disk:
            if mods[i].get('decoy'):
                # neighbours of the module file whose names differ from it in the suffix only: another text
                p = paths[i]
                stem = os.path.splitext(p)[0]
                for q in (p[:-1], p + 'c', p + 'o', stem + '.py', stem + '.pyc', stem + '.PY', stem):
                    if q != p and os.path.basename(q):
                        with open(q, 'w', encoding='utf-8') as f:
                            f.write('# decoy line\n' * 60)
        if disk:
            vers = {i: self._versions(srcs[i], mods[i].get('v1', 'none')) for i in disk}
            texts1 = list(srcs)
            for i in disk:
                v1, v2 = vers[i]
                linecache.cache.pop(paths[i], None)
                write(paths[i], v2 if v1 is None else v1, self.T1)
                texts1[i] = v2 if v1 is None or mods[i].get('v1') == 'short' else v1
            report = set()
            for i in disk:
                pr = mods[i].get('prime', 'none')
                if pr == 'getlines' or (pr != 'none' and mods[i].get('v1') == 'short'):
                    linecache.getlines(paths[i])
                elif pr != 'none':
                    report.add(pr)
            if report:
                # an earlier failure of the earlier version was reported (that is how its lines got cached)
                R1 = {}
                load(texts1, R1)
                try:
                    R1[0]()
                except BaseException:
                    et, ev, tb = sys.exc_info()
                    try:
                        with time_limit(10):
                            if 'boltons' in report:
                                tbutils.ExceptionInfo.from_exc_info(et, ev, tb).get_formatted()
                            if 'std' in report:
                                traceback.format_exception(et, ev, tb)
                    except (Exception, CaseTimeout):
                        pass
                    et = ev = tb = None
            for i in disk:
                v1, v2 = vers[i]
                srcs[i] = v2
                if v1 is not None:
                    write(paths[i], v2, self.T1 if mods[i].get('mt') == 'same' else self.T2)
        R = {}
        load(srcs, R)
        info = cur = None
        if case.get('pf'):
            # earlier calls that fail (no exception is being handled; no traceback text)
            for bad in (lambda: tbutils.TracebackInfo.from_traceback(), lambda: tbutils.ExceptionInfo.from_current(),
                        lambda: tbutils.ParsedException.from_string('not a traceback'),
                        lambda: tbutils.TracebackInfo.from_traceback(tb=None, limit=0),
                        lambda: tbutils.print_exception(None, None, None, file=io.StringIO())):
                try:
                    with time_limit(10):
                        bad()
                except (Exception, CaseTimeout):
                    pass
        # the earlier captures of the session (exception part only: nothing here looks a source line up)
        self._prior_obs = []
        for j, pr in enumerate(case.get('prior') or []):
            try:
                R['P%d' % j]()
            except BaseException:
                et, ev, tb = sys.exc_info()
                self._prior_obs.append(self._capture_names(tbutils, et, ev, tb, pr.get('via', 'ep')))
                et = ev = tb = None
        try:
            R[0]()
        except BaseException:
            info = sys.exc_info()
            try:
                with time_limit(10):
                    cur = (tbutils.ExceptionInfo.from_current(), tbutils.TracebackInfo.from_traceback(limit=case.get('limit')))
            except CaseTimeout:
                cur = 'CaseTimeout'
            except Exception as e:
                cur = exc_name(e)
        for i in disk:
            if mods[i].get('junk'):
                # what is on disk now cannot be decoded as source (same mtime: a complete cache entry stays valid
                # only if the size did not change either)
                st = os.stat(paths[i])
                with open(paths[i], 'wb') as f:
                    f.write(b'\xff\xfe\x00junk\n' * 3)
                os.utime(paths[i], ns=(st.st_atime_ns, st.st_mtime_ns))
            if mods[i].get('gone'):
                os.unlink(paths[i])
        return info, paths, cur

    @staticmethod
    def _type_attrs(et):
        """what the interpreter hands over about the exception's class: [__module__ (None when it is no str), __qualname__, __name__]"""
        mod = et.__module__
        return [mod if isinstance(mod, str) else None, et.__qualname__, et.__name__]

    STR_FAILED = '<exception str() failed>'

    @classmethod
    def _std_str(cls, ev):
        """(str() of the exception as the traceback module shows it, did str() raise); cross-checked against
        traceback.format_exception_only by the callers"""
        try:
            return str(ev), False
        except Exception:
            return cls.STR_FAILED, True

    @staticmethod
    def _std_type(attrs):
        """the interpreter's display name of an exception class (traceback.TracebackException; written down here and
        cross-checked against traceback.format_exception_only on every capture)"""
        mod, qual = attrs[0], attrs[1]
        if mod in ('__main__', 'builtins'):
            return qual
        return ('<unknown>' if mod is None else mod) + '.' + qual

    def _capture_names(self, tbutils, et, ev, tb, via):
        """one capture of a session, exception part only: ExceptionInfo (type, message, exception-only text) and
        print_exception without traceback, against the traceback module; 'via' = which of the two is asked first"""
        o = {'attrs': self._type_attrs(et)}
        only = traceback.format_exception_only(et, ev)
        o['std_only'] = ''.join(only)
        o['std_msg'], o['msg_raised'] = self._std_str(ev)
        o['std_type'] = self._std_type(o['attrs'])
        assert o['std_only'] == o['std_type'] + (': ' + o['std_msg'] if o['std_msg'] else '') + '\n'
        try:
            with time_limit(10):
                for step in via:
                    if step == 'e':
                        ei = tbutils.ExceptionInfo.from_exc_info(et, ev, tb)
                        o['ei_type'], o['ei_msg'], o['ei_only'] = ei.exc_type, ei.exc_msg, ei.get_formatted_exception_only()
                    else:
                        buf = io.StringIO()
                        tbutils.print_exception(et, ev, None, file=buf)
                        o['print'] = buf.getvalue()
        except CaseTimeout:
            o['exc'] = 'CaseTimeout'
        except Exception as e:
            o['exc'] = exc_name(e)
        return o

    # ------------------------------------------------------------------ what linecache can see (model input)
    @staticmethod
    def _bits(x):
        return struct.unpack('<Q', struct.pack('<d', float(x)))[0]

    def _file_lines(self, filename, st):
        cache = self.__dict__.setdefault('_flines', {})
        key = (filename, st.st_size, st.st_mtime_ns)
        if key not in cache:
            if len(cache) > 200:
                cache.clear()
            try:
                with tokenize.open(filename) as fp:
                    lines = fp.readlines()
            except (OSError, UnicodeDecodeError, SyntaxError):
                lines = []
            if lines and not lines[-1].endswith('\n'):
                lines[-1] += '\n'
            cache[key] = lines
        return cache[key]

    def _look(self, filename, lineno, g):
        """state of the three places linecache consults for `filename`, reduced to line `lineno`:
        [cache entry, file on disk, loader]; None when the situation is outside the model"""
        def at(lines):
            return lines[lineno - 1] if 1 <= lineno <= len(lines) else ''

        def src_line(data):
            return '' if data is None else at([l + '\n' for l in data.splitlines()])
        e = linecache.cache.get(filename)
        if e is None:
            c = ['a']
        elif len(e) == 1:
            try:
                data = e[0]()
            except (ImportError, OSError):
                data = None
            c = ['z', src_line(data)]
        elif e[1] is None:
            c = ['p', at(e[2])]
        else:
            if e[3] != filename:
                return None
            c = ['s', e[0], self._bits(e[1]), at(e[2])]
        try:
            st = os.stat(filename)
        except (OSError, ValueError):
            d = ['n']
            if filename and not os.path.isabs(filename):
                for dn in sys.path:
                    try:
                        if os.path.exists(os.path.join(dn, filename)):
                            return None
                    except (TypeError, ValueError):
                        pass
        else:
            d = ['y', st.st_size, self._bits(st.st_mtime), at(self._file_lines(filename, st))]
        loader = g.get('__loader__')
        if loader is None and getattr(g.get('__spec__'), 'loader', None) is not None:
            return None
        get_source = getattr(loader, 'get_source', None)
        if '__name__' in g and g['__name__'] and get_source:
            if isinstance(loader, self._Loader):
                try:
                    data = get_source(g['__name__'])
                except ImportError:
                    data = None
            else:
                sc = self.__dict__.setdefault('_srcs', {})
                key = (filename, g['__name__'])
                if key not in sc:
                    try:
                        sc[key] = get_source(g['__name__'])
                    except (ImportError, OSError):
                        sc[key] = None
                data = sc[key]
            l = ['y', src_line(data)]
        else:
            l = ['n']
        return [c, d, l]

    def _snapshot(self, tb):
        walk, fids, gids = [], {}, []
        t = tb
        while t is not None:
            fr = t.tb_frame
            co = fr.f_code
            walk.append([co.co_filename, t.tb_lineno, co.co_name, fids.setdefault(id(fr), len(fids)),
                         self._look(co.co_filename, t.tb_lineno, fr.f_globals), max(t.tb_lasti, 0)])
            gids.append(id(fr.f_globals))
            t = t.tb_next
        # Each lookup is observed reduced to the frame's own line.  That is enough as long as the source a file name
        # leads to does not depend on who asks.  It does when the only source is a module's __loader__ (no cache entry,
        # no file on disk) and frames with DIFFERENT globals carry that file name (code compiled under the name of
        # another module's file): the first frame that finds a source fills linecache, and every later frame is shown
        # its own line number of THAT text, which the reduced observation of the later frame does not contain.
        # Such a traceback is outside the model (no model line); the interpreter's own text still judges the case.
        by_file = {}
        for w, g in zip(walk, gids):
            if w[4] is not None:
                by_file.setdefault(w[0], []).append((w[4], g))
        for fn, looks in by_file.items():
            loaderish = [(lk, g) for lk, g in looks if lk[0][0] == 'a' and lk[1][0] == 'n']
            if len({g for _, g in loaderish}) > 1 and any(lk[2][0] == 'y' for lk, _ in loaderish):
                for w in walk:
                    if w[0] == fn:
                        w[4] = None
        return walk

    @staticmethod
    def _strip_markers(chunks):
        """drop the position-marker lines from the per-frame strings of the traceback module"""
        out = []
        for ch in chunks:
            ls = ch.split('\n')
            keep = [l for j, l in enumerate(ls) if not (j >= 2 and l.strip() and set(l) <= set('~^ '))]
            out.append('\n'.join(keep))
        return ''.join(out)

    @staticmethod
    def _flag_lines(frame_chunks, other_chunks):
        """the interpreter's lines, each with a flag: is it a position-marker line (of a frame chunk)"""
        out = []
        for chunks, framey in ((frame_chunks, True), (other_chunks, False)):
            for ch in chunks:
                ls = ch.split('\n')
                if ls and ls[-1] == '':
                    ls.pop()
                for j, l in enumerate(ls):
                    out.append([l, bool(framey and j >= 2 and l.strip() and set(l) <= set('~^ '))])
        return out

    @staticmethod
    def _same(text, stripped, flagged, final_nl):
        """`text` is the interpreter's text, position-marker lines aside: exactly the text without them, or the text
        with any of the interpreter's own marker lines kept (boltons prints none today; printing them would be no
        violation).  `final_nl`: does `text` carry the interpreter's final newline"""
        if text is None or flagged is None:
            return text == stripped
        if text + ('' if final_nl else '\n') == stripped:
            return True
        lines = text.split('\n')
        if final_nl:
            if lines[-1] != '':
                return False
            lines.pop()
        i = 0
        for l, mark in flagged:
            if i < len(lines) and lines[i] == l:
                i += 1
            elif not mark:
                return False
        return i == len(lines)

    @staticmethod
    def _spoil_live(*values):
        """what a caller may do with the values boltons handed it: empty / reorder / overwrite dicts and lists (also
        the nested ones), overwrite the attributes of the Callpoints of a TracebackInfo and empty its frames list"""
        def spoil(v, depth=0):
            if depth > 6:
                return
            if isinstance(v, dict):
                for x in list(v.values()):
                    spoil(x, depth + 1)
                for key in list(v):
                    if not isinstance(v[key], (dict, list)):
                        v[key] = 'spoiled' if isinstance(v[key], str) else 0
                v['spoiled'] = True
            elif isinstance(v, list):
                for x in v:
                    spoil(x, depth + 1)
                v.reverse()
                if v:
                    v.pop()
                v.append({'module_path': 'spoiled.py', 'lineno': 0, 'func_name': 'spoiled', 'line': 'spoiled()', 'lasti': 0,
                          'module_name': 'spoiled'})
            elif hasattr(v, 'frames') and isinstance(v.frames, list):
                for cp in v.frames:
                    for attr, val in (('module_path', 'spoiled.py'), ('lineno', 0), ('func_name', 'spoiled'), ('line', 'spoiled()'),
                                      ('lasti', 0), ('module_name', 'spoiled')):
                        try:
                            setattr(cp, attr, val)
                        except Exception:
                            pass
                del v.frames[:]
        for v in values:
            try:
                spoil(v)
            except Exception:
                pass

    def run_live(self, case):
        from boltons import tbutils
        obs = {}
        tmp = tempfile.mkdtemp(prefix='bv-c16-') if any(m['reg'] == 'disk' for m in case['mods']) else None
        registered = []
        had_limit = hasattr(sys, 'tracebacklimit')
        old_limit = getattr(sys, 'tracebacklimit', None)
        info = et = ev = tb = cur = None
        try:
            if case.get('tblimit') is not None:
                sys.tracebacklimit = case['tblimit']
            info, registered, cur = self._raise_chain(case, tmp, tbutils)
            if info is None:
                return {'exc': 'NoRaise'}
            et, ev, tb = info
            for _ in range(case.get('skip') or 0):
                # the caller hands over the traceback without its own outermost entries (tb.tb_next)
                if tb.tb_next is not None:
                    tb = tb.tb_next
            if ev.__cause__ is not None or ev.__context__ is not None or getattr(ev, '__notes__', None):
                return {'skip': 'chained'}      # outside the statement
            limit = case.get('limit')
            if case.get('order', 'b') == 'b':
                # boltons is asked first, as in a program that only uses boltons: nothing has primed linecache
                # for sources that are reachable only through the module's __loader__
                for m in case['mods']:
                    if m['reg'] not in ('cache', 'disk'):
                        linecache.cache.pop(m['file'], None)
            # --- what the interpreter hands over (model input), before anybody looks a line up
            obs['walk'] = self._snapshot(tb)
            obs['attrs'] = self._type_attrs(et)
            obs['prior'] = self._prior_obs
            if any(w[4] and w[4][0][0] == 's' and w[4][1][0] == 'n' and w[4][2][0] == 'y' for w in obs['walk']):
                # a complete linecache entry whose file is gone while the module has a loader: the traceback module
                # has no stable answer here (no source line on its first call - lazycache runs before checkcache -,
                # the loader's line on every later call or when anybody else looked first); no reference, no verdict
                # (the model's two lookups differ in exactly this state: C16.lookup_eq_std_false)
                return {'skip': 'std-unstable'}

            def do_std():
                # --- the interpreter's view (traceback module), the oracle's reference
                ex = traceback.extract_tb(tb)
                obs['std_frames'] = [[f.filename, f.lineno, f.name, f.line or ''] for f in ex]
                exl = traceback.extract_tb(tb, limit=limit)
                obs['std_lim_n'] = len(exl)
                obs['std_lim_frames'] = [[f.filename, f.lineno, f.name, f.line or ''] for f in exl]
                chunks = traceback.format_exception(et, ev, tb)
                only = traceback.format_exception_only(et, ev)
                assert chunks[0] == HEADER + '\n' and chunks[len(chunks) - len(only):] == only
                obs['std_full'] = ''.join(chunks)
                obs['std'] = chunks[0] + self._strip_markers(chunks[1:len(chunks) - len(only)]) + ''.join(only)
                obs['std_fl'] = self._flag_lines(chunks[:len(chunks) - len(only)], only)
                obs['std_plain'] = chunks[0] + ''.join(
                    traceback.format_list([(f.filename, f.lineno, f.name, f.line) for f in [g]])[0] for g in ex) + ''.join(only)
                obs['std_tb'] = HEADER + '\n' + self._strip_markers(traceback.format_tb(tb, limit=limit))
                obs['std_tb_fl'] = self._flag_lines([HEADER + '\n'] + traceback.format_tb(tb, limit=limit), [])
                obs['std_tb_plain'] = HEADER + '\n' + ''.join(
                    traceback.format_list([(f.filename, f.lineno, f.name, f.line) for f in [g]])[0] for g in exl)
                if limit is not None and limit >= 1:
                    chl = traceback.format_exception(et, ev, tb, limit=limit)
                    assert chl[0] == HEADER + '\n' and chl[len(chl) - len(only):] == only
                    obs['std_lim'] = chl[0] + self._strip_markers(chl[1:len(chl) - len(only)]) + ''.join(only)
                    obs['std_lim_fl'] = self._flag_lines(chl[:len(chl) - len(only)], only)
                    obs['std_lim_plain'] = chl[0] + ''.join(
                        traceback.format_list([(f.filename, f.lineno, f.name, f.line) for f in [g]])[0] for g in exl) + ''.join(only)
                else:
                    obs['std_lim'] = obs['std'] if limit is None else None
                    obs['std_lim_fl'] = obs['std_fl'] if limit is None else None
                    obs['std_lim_plain'] = obs['std_plain'] if limit is None else None
                stype = self._std_type(obs['attrs'])
                smsg, obs['msg_raised'] = self._std_str(ev)
                assert only[-1] == stype + (': ' + smsg if smsg else '') + '\n'
                obs['std_type'], obs['std_msg'] = stype, smsg

            def frames_of(tbi):
                return [[cp.module_path, cp.lineno, cp.func_name, str(cp.line)] for cp in tbi.frames]

            def do_boltons():
                try:
                    with time_limit(10):
                        # 'seq': in which order the objects are built and asked ('fmt': each built, formatted, then
                        # to_dict; 'dict': to_dict before anything was formatted; 'build': all objects built first,
                        # then asked last-built first - instances must not share state)
                        seq = case.get('seq', 'fmt')
                        af = case.get('af')
                        if af == 'kw':
                            mk_ei = lambda: tbutils.ExceptionInfo.from_exc_info(exc_type=et, exc_value=ev, traceback=tb)
                            mk_tbi = lambda: tbutils.TracebackInfo.from_traceback(tb=tb, limit=limit)
                        elif af == 'pos':
                            mk_ei = lambda: tbutils.ExceptionInfo.from_exc_info(et, ev, tb)
                            mk_tbi = lambda: tbutils.TracebackInfo.from_traceback(tb, limit)
                        else:
                            mk_ei = lambda: tbutils.ExceptionInfo.from_exc_info(et, ev, tb)
                            mk_tbi = lambda: tbutils.TracebackInfo.from_traceback(tb, limit=limit)

                        def do_print(lim):
                            buf = io.StringIO()
                            if af == 'kw':
                                tbutils.print_exception(etype=et, value=ev, tb=tb, limit=lim, file=buf)
                            elif af == 'pos':
                                tbutils.print_exception(et, ev, tb, lim, buf)
                            elif af == 'stderr':
                                old_err, sys.stderr = sys.stderr, buf
                                try:
                                    if lim is None:
                                        tbutils.print_exception(et, ev, tb)
                                    else:
                                        tbutils.print_exception(et, ev, tb, limit=lim, file=None)
                                finally:
                                    sys.stderr = old_err
                            else:
                                tbutils.print_exception(et, ev, tb, limit=lim, file=buf)
                            return buf.getvalue()
                        ei = mk_ei()
                        if seq == 'build':
                            tbi = mk_tbi()
                            tbutils.TracebackInfo.from_traceback(tb, limit=1)
                            tbutils.ExceptionInfo.from_exc_info(KeyError, KeyError('other'), tb.tb_next or tb)
                            obs['tbi'] = tbi.get_formatted()
                        d = ei.to_dict() if seq == 'dict' else None
                        obs['ei'] = ei.get_formatted()
                        obs['ei_only'] = ei.get_formatted_exception_only()
                        d = d or ei.to_dict()
                        obs['ei_type'], obs['ei_msg'] = d['exc_type'], d['exc_msg']
                        obs['ei_frames'] = [[f['module_path'], f['lineno'], f['func_name'], f['line']]
                                            for f in d['exc_tb']['frames']]
                        if seq != 'build':
                            tbi = mk_tbi()
                        td = tbi.to_dict() if seq == 'dict' else None
                        obs['tbi'] = tbi.get_formatted()
                        obs['tbi_str'] = str(tbi)
                        obs['tbi_frames'] = [[f['module_path'], f['lineno'], f['func_name'], f['line']]
                                             for f in (td or tbi.to_dict())['frames']]
                        obs['tbi_n'] = len(tbi)
                        for key, lim in (('print', None), ('print_lim', limit)):
                            try:
                                obs[key] = do_print(lim)
                            except Exception as e:
                                obs[key] = None
                                obs[key + '_exc'] = exc_name(e)
                        # the same exception through the other documented entry points
                        if case.get('skip'):
                            obs['cur'], obs['cur_frames'], obs['cur_tbi'] = obs['ei'], obs['ei_frames'], obs['tbi']
                        elif isinstance(cur, tuple):
                            obs['cur'] = cur[0].get_formatted()
                            obs['cur_frames'] = frames_of(cur[0].tb_info)
                            obs['cur_tbi'] = cur[1].get_formatted()
                        else:
                            obs['cur_exc'] = cur
                        cei = tbutils.ContextualExceptionInfo.from_exc_info(et, ev, tb)
                        obs['cei'] = cei.get_formatted()
                        obs['cei_frames'] = frames_of(cei.tb_info)
                        # --- the caller edits every mutable value it was handed - the dicts of to_dict(), the frames
                        # list of the TracebackInfo and the Callpoints in it - and asks again: the object it did not
                        # touch, and new objects built from the same exception, must say what they said before
                        re_ = []

                        def dict_frames(x):
                            return [[f['module_path'], f['lineno'], f['func_name'], f['line']] for f in x]

                        def reread(label, got, want):
                            if got != want:
                                re_.append([label, repr(got)[:300], repr(want)[:300]])
                        self._spoil_live(d, td, tbi, tbi.to_dict(), cei.to_dict(), cei.tb_info)
                        reread('ExceptionInfo.get_formatted() of the untouched object', ei.get_formatted(), obs['ei'])
                        reread('ExceptionInfo.to_dict() of the untouched object', dict_frames(ei.to_dict()['exc_tb']['frames']),
                               obs['ei_frames'])
                        tbi2 = mk_tbi()
                        reread('a second TracebackInfo.from_traceback(): get_formatted()', tbi2.get_formatted(), obs['tbi'])
                        reread('a second TracebackInfo.from_traceback(): to_dict()', dict_frames(tbi2.to_dict()['frames']), obs['tbi_frames'])
                        self._spoil_live(ei.to_dict(), None, ei.tb_info, tbi2.to_dict(), None, tbi2)
                        ei.exc_type, ei.exc_msg = 'Spoiled', 'by the caller'
                        ei2 = mk_ei()
                        reread('a second ExceptionInfo.from_exc_info(): get_formatted()', ei2.get_formatted(), obs['ei'])
                        reread('a second ExceptionInfo.from_exc_info(): to_dict()', dict_frames(ei2.to_dict()['exc_tb']['frames']),
                               obs['ei_frames'])
                        reread('a second ExceptionInfo.from_exc_info(): type, message', [ei2.exc_type, ei2.exc_msg],
                               [obs['ei_type'], obs['ei_msg']])
                        if obs.get('print') is not None:
                            reread('a second print_exception()', do_print(None), obs['print'])
                        if re_:
                            obs['re'] = re_
                except CaseTimeout:
                    obs['exc'] = 'CaseTimeout'
                except Exception as e:
                    obs['exc'] = exc_name(e)

            if case.get('order', 'b') == 'b':
                do_boltons()
                do_std()
            else:
                do_std()
                do_boltons()
            if 'exc' not in obs:
                try:
                    with time_limit(10):
                        for key, text in (('parsed', obs['std_full']), ('parsed_plain', obs['std_plain'])):
                            pe = tbutils.ParsedException.from_string(text)
                            obs[key] = {'frames': [[f.get('filepath'), f.get('lineno'), f.get('funcname'),
                                                    f.get('source_line')] for f in pe.frames],
                                        'type': pe.exc_type, 'msg': pe.exc_msg, 'str': pe.to_string()}
                except CaseTimeout:
                    obs['exc'] = 'CaseTimeout'
                except Exception as e:
                    obs['exc'] = exc_name(e)
            if case.get('late') and 'ei' in obs and 'exc' not in obs:
                # object lifetime: an ExceptionInfo is built and nothing of it is read; only its TracebackInfo is kept;
                # the exception, the traceback, its frames and the harness's references to the program's modules go away; then the
                # kept object is asked for its text
                try:
                    with time_limit(10):
                        late = tbutils.ExceptionInfo.from_exc_info(et, ev, tb)
                        keep = late.tb_info
                        del late
                        info = et = ev = tb = cur = None
                        self._globals = []      # (dropped, not emptied: what boltons still refers to stays intact)
                        gc.collect()
                        for m in case['mods']:      # nothing is cached for sources reachable only through a loader
                            if m['reg'] not in ('cache', 'disk'):
                                linecache.cache.pop(m['file'], None)
                        obs['late'] = keep.get_formatted()
                        obs['late_frames'] = [[f['module_path'], f['lineno'], f['func_name'], f['line']] for f in keep.to_dict()['frames']]
                except CaseTimeout:
                    obs['late_exc'] = 'CaseTimeout'
                except Exception as e:
                    obs['late_exc'] = exc_name(e)
            return obs
        finally:
            info = et = ev = tb = cur = None
            self._globals = []
            if had_limit:
                sys.tracebacklimit = old_limit
            elif hasattr(sys, 'tracebacklimit'):
                del sys.tracebacklimit
            for f in registered:
                linecache.cache.pop(f, None)
            if tmp is not None:
                shutil.rmtree(tmp, ignore_errors=True)

    # ------------------------------------------------------------------ implementation
    def impl(self, case):
        k = case['k']
        if k == 'l':
            try:
                obs = self.run_live(case)
            except Exception as e:   # a broken generated program is an infrastructure problem, keep it visible
                obs = {'exc': 'Harness' + exc_name(e)}
            # line() and the finding predicates need this very observation (it holds run-dependent values: the
            # scratch directory of modules kept on disk); keep more than the runner's batch, drop the oldest
            live = self.__dict__.setdefault('_live', {})
            live.pop(self.key(case), None)
            live[self.key(case)] = obs
            while len(live) > 1600:
                del live[next(iter(live))]
            return obs
        from boltons.tbutils import ParsedException
        text = self.std_text(case) if k == 't' else case['text']
        forms = [text, text.encode('utf-8')]
        if case.get('b'):
            forms.reverse()                  # the documented other form of the argument: the text as UTF-8 bytes
        # what happened in the process before the judged call: other texts parsed (texts sharing frame lines with this
        # one, the very same text, calls that fail), every result edited by its caller
        for pre in case.get('pre') or []:
            try:
                with time_limit(10):
                    arg = pre['text'].encode('utf-8') if pre.get('b') else pre['text']
                    self._spoil_pe(ParsedException.from_string(tb_str=arg) if pre.get('kw') else ParsedException.from_string(arg))
            except (Exception, CaseTimeout):
                pass
        obs = self._parse_once(ParsedException, forms[0])
        # the caller edits what it was handed (the frames list, the dicts in it, the to_dict() copy), then the same
        # text is parsed again: every parse must say what the TEXT says
        first = self._render_pe(obs)
        n = 1
        # (the second parse in the same or in the other form in turn; a third one, in the form not yet repeated, for
        # cases with a history)
        again = [forms[len(text) % 2]] + ([forms[1 - len(text) % 2]] if case.get('pre') else [])
        for form in again:
            self._spoil_pe(self.__dict__.pop('_last_pe', None))
            o = self._parse_once(ParsedException, form)
            n += 1
            if self._render_pe(o) != first:
                obs['again'] = o
                obs['again_no'] = n
                break
        self._spoil_pe(self.__dict__.pop('_last_pe', None))
        return obs

    def _parse_once(self, ParsedException, arg):
        self._last_pe = None
        try:
            with time_limit(10):
                pe = ParsedException.from_string(arg)
                self._last_pe = pe
                obs = {'frames': [[f.get('filepath'), f.get('lineno'), f.get('funcname'), f.get('source_line')]
                                  for f in pe.frames], 'type': pe.exc_type, 'msg': pe.exc_msg}
                try:
                    obs['str'] = pe.to_string()
                except Exception as e:
                    obs['str_exc'] = exc_name(e)
                return obs
        except CaseTimeout:
            return {'exc': 'CaseTimeout'}
        except ValueError as e:
            # the documented error for unrecognised text; a subclass of ValueError is as good (UnicodeDecodeError
            # for undecodable bytes is one, but no case hands over undecodable bytes)
            return {'exc': 'ValueError'}
        except Exception as e:
            return {'exc': exc_name(e)}

    @staticmethod
    def _spoil_pe(pe):
        """what a caller may do with a ParsedException it was handed: shorten the paths for display, blank the source
        lines, add keys, reorder / drop / add frames, empty the to_dict() copy, rename the exception.  Only ever
        applied to RETURNED objects"""
        if pe is None:
            return
        try:
            d = pe.to_dict()
            dicts = [f for f in list(pe.frames) + list(d.get('frames') or []) if isinstance(f, dict)]
            for f in dicts:
                for key in list(f):
                    v = f[key]
                    f[key] = os.path.basename(v)[:12].rstrip('~') + '~' if key == 'filepath' and isinstance(v, str) else ''
                f['spoiled'] = True
            for l in (pe.frames, d.get('frames')):
                if isinstance(l, list):
                    l.reverse()
                    if l:
                        l.pop()
                    l.append({'filepath': 'spoiled.py', 'lineno': '0', 'funcname': 'spoiled', 'source_line': 'spoiled()'})
            d.clear()
            pe.exc_type, pe.exc_msg = 'Spoiled', 'by the caller'
        except Exception:
            pass

    # ------------------------------------------------------------------ model line / canonical rendering
    def line(self, case):
        k = case['k']
        if k == 'l':
            key = self.key(case)
            obs = getattr(self, '_live', {}).get(key)
            if obs is None:
                obs = self.impl(case)
            if 'walk' not in obs or 'std_type' not in obs:
                return None
            lim = case.get('limit')
            tl = case.get('tblimit')
            def tt(attrs):
                return ('!' if attrs[0] is None else hx(attrs[0])) + ':' + hx(attrs[1])
            def mt(o):      # str() of the exception, `!` when it raised
                return '!' if o.get('msg_raised') else hx(o['std_msg'])
            pri = ';'.join('%s:%s' % (tt(o['attrs']), mt(o)) for o in obs.get('prior') or []) or '-'
            toks = ['L', 'n' if lim is None else str(lim), 'n' if tl is None else str(tl), tt(obs['attrs']),
                    mt(obs), pri]
            for fn, ln, name, fid, look, lasti in obs['walk']:
                if look is None:
                    return None
                c, d, l = look
                ct = 'a' if c[0] == 'a' else '%s:%s' % (c[0], hx(c[1])) if c[0] in 'zp' else 's:%d:%d:%s' % (c[1], c[2], hx(c[3]))
                dt = 'n' if d[0] == 'n' else 'y:%d:%d:%s' % (d[1], d[2], hx(d[3]))
                lt = 'n' if l[0] == 'n' else 'y:' + hx(l[1])
                toks.append(','.join([hx(fn), str(ln), hx(name), str(fid), ct, dt, lt, str(lasti)]))
            return ' '.join(toks)
        if k == 'r':
            return 'T ' + hx(case['text'])
        toks = ['T', hx(self.std_text(case)), hx(case['type']), hx(case['msg']), '1' if case.get('nl') else '0']
        for file, lineno, func, src, anchor in case['frames']:
            toks.append(','.join([hx(file), hx(lineno), hx(func), hx(src or ''), '!' if anchor is None else hx(anchor)]))
        return ' '.join(toks)

    @staticmethod
    def _render_pe(obs):
        if 'exc' in obs:
            return 'err ' + obs['exc']
        def h(x):
            return '!' if x is None else hx(x if isinstance(x, str) else str(x))
        fr = ' '.join(','.join(h(x) for x in f) for f in obs['frames']) or '-'
        # to_string() of frames read from the SyntaxError form (no function name) is outside the statement
        # (today: KeyError): whatever it does is accepted, on both sides
        s = '~' if any(f[2] is None for f in obs['frames']) else hx(obs['str']) if 'str' in obs else 'X' + obs['str_exc']
        # ParsedException.source_file is not something the statement speaks about: not compared
        return 'ok n=%d %s | %s %s | %s' % (len(obs['frames']), fr, hx(obs['type']), hx(obs['msg']), s)

    def render(self, case, obs):
        k = case['k']
        if k == 'l':
            if 'exc' in obs:
                return 'X' + obs['exc']
            def hp(x, key):
                return 'X' + obs.get(key + '_exc', '?') if x is None else hx(x)
            fr = ';'.join('%s,%d,%s,%s' % (hx(a), b, hx(c), hx(d)) for a, b, c, d in obs['ei_frames']) or '-'
            ys = ';'.join('X' + o['exc'] if 'exc' in o else '%s,%s,%s' % (hx(o['ei_type']), hx(o['ei_only']), hx(o['print']))
                          for o in obs.get('prior') or []) or '-'
            return 'B=%s T=%s S=%s P=%s Q=%s N=%d F=%s Y=%s' % (
                hx(obs['ei']), hx(obs['tbi']), hx(obs['std']), hp(obs['print'], 'print'),
                hp(obs['print_lim'], 'print_lim'), obs['std_lim_n'], fr, ys)
        # the model is a function of the text: a later parse of the same text that differs from the first one (after
        # the caller edited the earlier result) is shown instead of the first
        out = self._render_pe(obs.get('again', obs))
        if k == 't':
            # wfc: the model's text-level predicate WFtext accepts every text generated from well-formed data
            out += ' | wf=%d gen=1 wfc=1' % (1 if self.wf_case(case) else 0)
        return out

    # ------------------------------------------------------------------ oracle (independent of the model)
    def oracle(self, case, obs):
        k = case['k']
        self._nt = False
        st = self.stats
        st['kind_' + k] = st.get('kind_' + k, 0) + 1
        if k == 'r':
            # arbitrary text: from_string either returns or raises the documented ValueError (a later parse of the
            # same text that behaves differently is left to the correspondence: the model is a function of the text)
            ag = obs.get('again') or {}
            if 'exc' in ag and ag['exc'] != 'ValueError':
                return Failure('raises', 'from_string raised %s on %r (parse #%d of this text)' % (ag['exc'], case['text'][:300], obs['again_no']))
            if 'exc' in obs:
                st['raw_' + obs['exc']] = st.get('raw_' + obs['exc'], 0) + 1
                if obs['exc'] != 'ValueError':
                    return Failure('raises', 'from_string raised %s on %r' % (obs['exc'], case['text'][:300]))
                return None
            self._nt = len(obs['frames']) > 0
            st['raw_parsed'] = st.get('raw_parsed', 0) + 1
            return None
        if k == 't':
            if not self.in_statement(case):
                st['text_outside_statement'] = st.get('text_outside_statement', 0) + 1
                return None
            if case.get('pre'):
                st['text_with_history'] = st.get('text_with_history', 0) + 1
            f = self._oracle_text(case, obs)
            if f is None and 'again' in obs:
                # the same text parsed once more, after the caller edited the result of the earlier parse: judged
                # exactly like the first parse
                f2 = self._oracle_text(case, obs['again'], count=False)
                if f2 is not None:
                    self._nt = False
                    return Failure('reparse', 'parse #%d of the same text (the caller edited the frames / dicts of the earlier '
                                   'results in between): %s' % (obs['again_no'], f2.what))
            return f
        return self._oracle_live(case, obs)

    def _oracle_text(self, case, obs, count=True):
        st = self.stats if count else {}
        text = self.std_text(case)
        st['text_frames_%s' % min(len(case['frames']), 5)] = st.get('text_frames_%s' % min(len(case['frames']), 5), 0) + 1
        if any(f[3] is None for f in case['frames'][-1:]):
            st['text_last_frame_without_source'] = st.get('text_last_frame_without_source', 0) + 1
        if '\n' in case['msg']:
            st['text_multiline_msg'] = st.get('text_multiline_msg', 0) + 1
        if 'exc' in obs:
            return Failure('raises', 'from_string raised %s on %r' % (obs['exc'], text[:300]))
        want = [[f[0], f[1], f[2], f[3] or ''] for f in case['frames']]
        got = [[f[0], str(f[1]), f[2], f[3]] for f in obs['frames']]      # a line number may be a str or an int
        if got != want:
            return Failure('fields', 'frames parsed as %r, text says %r' % (obs['frames'], want))
        if obs['type'] != case['type'] or obs['msg'] != case['msg']:
            return Failure('fields', 'exception parsed as (%r, %r), text says (%r, %r)'
                           % (obs['type'], obs['msg'], case['type'], case['msg']))
        if 'str' not in obs:
            return Failure('raises', 'to_string raised %s' % obs.get('str_exc'))
        exp = self.std_text(case, anchors=False)
        if obs['str'] != exp:
            return Failure('roundtrip', 'to_string() = %r, text (markers and final newline aside) = %r' % (obs['str'], exp))
        self._nt = len(case['frames']) > 0
        return None

    def _oracle_live(self, case, obs):
        st = self.stats
        if 'skip' in obs:
            st['live_skipped'] = st.get('live_skipped', 0) + 1
            return None
        if 'exc' in obs:
            return Failure('raises', 'boltons raised %s on a live exception' % obs['exc'])
        sf = [[a, b, c, d.strip()] for a, b, c, d in obs['std_frames']]
        ef = [[a, b, c, (d or '').strip()] for a, b, c, d in obs['ei_frames']]
        st['live_depth_%s' % min(len(sf) // 5 * 5, 30)] = st.get('live_depth_%s' % min(len(sf) // 5 * 5, 30), 0) + 1
        for ln in case['links']:
            key = 'live_link_' + ln['kind'] + ('_' + ln.get('how', 'as_e') if ln['kind'] == 'reraise' else '')
            st[key] = st.get(key, 0) + 1
        wk = obs['walk']
        if any(a[:3] == b[:3] and a[5] != b[5] for a, b in zip(wk, wk[1:])):
            st['live_neighbours_differ_in_lasti_only'] = st.get('live_neighbours_differ_in_lasti_only', 0) + 1
        if any(w[0].lower().endswith(('.pyc', '.pyo')) for w in wk):
            st['live_bytecode_file_name'] = st.get('live_bytecode_file_name', 0) + 1
        fids = [w[3] for w in obs['walk']]
        if len(set(fids)) < len(fids):
            st['live_frame_listed_more_than_once'] = st.get('live_frame_listed_more_than_once', 0) + 1
        for m in case['mods']:
            key = 'live_mod_' + m['reg'] + ('_%s_%s' % (m.get('v1'), m.get('prime')) if m['reg'] == 'disk' else '')
            st[key] = st.get(key, 0) + 1
        for w in obs['walk']:
            lk = w[4]
            if lk and lk[0][0] == 's' and (lk[1][0] == 'n' or lk[1][1:3] != lk[0][1:3]):
                st['live_stale_cache_entry'] = st.get('live_stale_cache_entry', 0) + 1
                break
        # the earlier captures of the session: each names its own exception class, whatever was captured before
        for j, o in enumerate(obs.get('prior') or []):
            st['live_session_capture'] = st.get('live_session_capture', 0) + 1
            if 'exc' in o:
                return Failure('raises', 'boltons raised %s on capture #%d of the session' % (o['exc'], j + 1))
            if o['ei_type'] != o['std_type'] or o['ei_msg'] != o['std_msg']:
                return Failure('exc_fields', 'capture #%d of the session: ExceptionInfo (%r, %r), interpreter (%r, %r)'
                               % (j + 1, o['ei_type'], o['ei_msg'], o['std_type'], o['std_msg']))
            if o['ei_only'] + '\n' != o['std_only'] or o['print'] != o['std_only']:
                return Failure('format', 'capture #%d of the session: get_formatted_exception_only() = %r, print_exception '
                               'wrote %r, interpreter = %r' % (j + 1, o['ei_only'], o['print'], o['std_only']))
        if obs.get('prior'):
            st['live_sessions'] = st.get('live_sessions', 0) + 1
        if ef != sf:
            return Failure('frames', 'ExceptionInfo frames %r, extract_tb %r' % (ef, sf))
        lf = [[a, b, c, d.strip()] for a, b, c, d in obs['std_lim_frames']]
        tf = [[a, b, c, (d or '').strip()] for a, b, c, d in obs['tbi_frames']]
        if tf != lf or obs['tbi_n'] != len(lf):
            return Failure('frames', 'TracebackInfo(limit=%r) frames %r, extract_tb %r' % (case.get('limit'), tf, lf))
        if obs['ei_type'] != obs['std_type'] or obs['ei_msg'] != obs['std_msg']:
            return Failure('exc_fields', 'ExceptionInfo (%r, %r), interpreter (%r, %r)'
                           % (obs['ei_type'], obs['ei_msg'], obs['std_type'], obs['std_msg']))
        std = obs['std']
        fl, tfl = obs.get('std_fl'), obs.get('std_tb_fl')
        if not self._same(obs['ei'], std, fl, False):
            return Failure('format', 'ExceptionInfo.get_formatted() = %r, interpreter = %r' % (obs['ei'], std))
        only = std[len(std) - len(obs['ei_only']) - 1:]
        if obs['ei_only'] + '\n' != only:
            return Failure('format', 'get_formatted_exception_only() = %r, interpreter = %r' % (obs['ei_only'], only))
        if not self._same(obs['tbi'], obs['std_tb'], tfl, True) or obs['tbi_str'] != obs['tbi']:
            return Failure('format', 'TracebackInfo.get_formatted() = %r, format_tb = %r' % (obs['tbi'], obs['std_tb']))
        if not self._same(obs['print'], std, fl, True):
            return Failure('format', 'print_exception wrote %r (%s), interpreter = %r' % (obs['print'], obs.get('print_exc'), std))
        if obs['std_lim'] is not None and not self._same(obs['print_lim'], obs['std_lim'], obs.get('std_lim_fl'), True):
            return Failure('format', 'print_exception(limit=%r) wrote %r (%s), interpreter = %r'
                           % (case.get('limit'), obs['print_lim'], obs.get('print_lim_exc'), obs['std_lim']))
        # the same exception through from_current() / from_traceback() while it was being handled, and through
        # the Contextual* subclasses: the same frames, the same text
        if 'cur' not in obs:
            return Failure('raises', 'ExceptionInfo.from_current() raised %s' % obs.get('cur_exc'))
        cf = [[a, b, c, (d or '').strip()] for a, b, c, d in obs['cur_frames']]
        if cf != sf or not self._same(obs['cur'], std, fl, False):
            return Failure('format' if cf == sf else 'frames', 'ExceptionInfo.from_current(): frames %r, text %r; interpreter: %r, %r'
                           % (cf, obs['cur'], sf, std))
        if not self._same(obs['cur_tbi'], obs['std_tb'], tfl, True):
            return Failure('format', 'TracebackInfo.from_traceback(limit=%r) of the exception being handled = %r, format_tb = %r'
                           % (case.get('limit'), obs['cur_tbi'], obs['std_tb']))
        xf = [[a, b, c, (d or '').strip()] for a, b, c, d in obs['cei_frames']]
        if xf != sf or not self._same(obs['cei'], std, fl, False):
            return Failure('format' if xf == sf else 'frames', 'ContextualExceptionInfo: frames %r, text %r; interpreter: %r, %r'
                           % (xf, obs['cei'], sf, std))
        if obs.get('re'):
            label, got, want = obs['re'][0]
            return Failure('reread', '%s = %s after the caller edited the values it had been handed (to_dict() results, the '
                           'frames list and Callpoints of another object); before: %s' % (label, got, want))
        if case.get('af'):
            st['live_argform_' + case['af']] = st.get('live_argform_' + case['af'], 0) + 1
        if case.get('late'):
            st['live_lifetime'] = st.get('live_lifetime', 0) + 1
            if 'late' not in obs:
                return Failure('raises', 'TracebackInfo.get_formatted() raised %s after the exception and its frames were gone' % obs.get('late_exc'))
            want = obs['ei'][:len(obs['ei']) - len(obs['ei_only'])]
            if obs['late'] != want or obs['late_frames'] != obs['ei_frames']:
                return Failure('lifetime', 'the TracebackInfo of an ExceptionInfo, first read after the exception, its traceback and the '
                               'frames were gone: %r, frames %r; while they were alive: %r, %r'
                               % (obs['late'], obs['late_frames'], want, obs['ei_frames']))
        # the interpreter's own text through the parser (first clause on real texts)
        p = obs['parsed']
        if not self._parsed_ok(p, obs):
            return Failure('parse_std', 'interpreter text %r parsed as %r' % (obs['std_full'], p))
        if not self._same(p['str'], std, fl, False):
            return Failure('parse_std', 'to_string() of the parsed interpreter text = %r, text = %r' % (p['str'], std))
        self._nt = len(sf) >= 2
        return None

    @staticmethod
    def _parsed_ok(p, obs):
        want = [[a, str(b), c, d.strip()] for a, b, c, d in obs['std_frames']]
        return ([[f[0], str(f[1]), f[2], f[3]] for f in p['frames']] == want and p['type'] == obs['std_type']
                and p['msg'] == obs['std_msg'])

    def nontrivial(self, case, obs):
        return getattr(self, '_nt', False)

    # ------------------------------------------------------------------ known findings (narrow predicates)
    def _live_obs(self, case):
        return getattr(self, '_live', {}).get(self.key(case)) or self.impl(case)

    def finding_exotic_line_separators(self, case, failure):
        """a field of the text contains a str.splitlines separator other than '\\n' (from_string splits there, to_string
        joins with '\\n'); matched only while the implementation behaves exactly like the verified model"""
        if getattr(failure, 'model_agrees', None) is False:
            return False
        if case['k'] == 't':
            return failure.tag in ('fields', 'roundtrip') and self.in_statement(case) and self.has_exotic(case)
        if case['k'] == 'l' and failure.tag == 'parse_std':
            return any(c in self._live_obs(case).get('std_msg', '') for c in EXOTIC)
        return False

    def finding_message_trailing_newline(self, case, failure):
        """the message ends in a newline: indistinguishable from the interpreter's final newline, dropped by from_string"""
        if getattr(failure, 'model_agrees', None) is False:
            return False
        if case['k'] == 't':
            return (failure.tag in ('fields', 'roundtrip') and self.in_statement(case) and not self.has_exotic(case)
                    and case['msg'].endswith('\n'))
        if case['k'] == 'l' and failure.tag == 'parse_std':
            msg = self._live_obs(case).get('std_msg', '')
            return msg.endswith('\n') and not any(c in msg for c in EXOTIC)
        return False

    def finding_trailer_line_in_message(self, case, failure):
        """the last line of a multi-line message has the form 'Exception ... ignored' and is popped as a trailer"""
        if getattr(failure, 'model_agrees', None) is False or failure.tag not in ('fields', 'roundtrip') or case['k'] != 't':
            return False
        return (self.in_statement(case) and not self.has_exotic(case) and not case['msg'].endswith('\n')
                and self.last_line_is_trailer(case))

    def finding_module_not_str(self, case, failure):
        """live kind: the exception class has a __module__ that is not a str (None): the interpreter prints
        '<unknown>.Name', ExceptionInfo 'None.Name', and tbutils.print_exception / format_exception_only raise
        TypeError (smod + '.')"""
        if case['k'] != 'l' or failure.tag not in ('exc_fields', 'format'):
            return False
        exc = case['exc']
        if exc.get('kind') != 'modattr' or isinstance(exc.get('mod'), str):
            return False
        obs = self._live_obs(case)
        if 'ei_type' not in obs or 'std_type' not in obs:
            return False
        # exactly this: the prefix differs, nothing else
        return (obs['std_type'].startswith('<unknown>.') and obs['ei_type'] == repr(exc.get('mod')) + obs['std_type'][len('<unknown>'):]
                and obs['ei_msg'] == obs['std_msg']
                and [f[:3] for f in obs['ei_frames']] == [f[:3] for f in obs['std_frames']]
                and obs['ei'].replace(obs['ei_type'], obs['std_type']) + '\n' == obs['std_plain']
                and obs.get('print') is None and obs.get('print_exc') == 'TypeError')

    def _old_str_text(self, o):
        return '<unprintable %s object>' % o['attrs'][2]

    def _sub_old_str(self, obs):
        """boltons' texts of the last capture with the pre-5cec9e6 text for a raising str() replaced by the interpreter's"""
        if not obs.get('msg_raised'):
            return lambda t: t
        old = self._old_str_text(obs)
        return lambda t: None if t is None else t.replace(old, self.STR_FAILED)

    @staticmethod
    def _layouts(obs, sub):
        """(boltons text, the interpreter's text, the same with every entry printed on its own) per formatted output"""
        out = [(sub(obs['ei']) + '\n', obs['std'], obs['std_plain']),
               (sub(obs['print']), obs['std'], obs['std_plain']),
               (sub(obs.get('cur', obs['ei'])) + '\n', obs['std'], obs['std_plain']),
               (sub(obs.get('cei', obs['ei'])) + '\n', obs['std'], obs['std_plain']),
               (obs['tbi'], obs['std_tb'], obs.get('std_tb_plain', obs['std_tb'])),
               (obs.get('cur_tbi', obs['tbi']), obs['std_tb'], obs.get('std_tb_plain', obs['std_tb']))]
        if obs.get('std_lim') is not None:
            out.append((sub(obs.get('print_lim')), obs['std_lim'], obs.get('std_lim_plain')))
        return out

    def _uncollapsed_everywhere(self, obs, sub):
        """every formatted output is exactly the interpreter's layout with each entry printed on its own"""
        try:
            return all(b == plain for b, _, plain in self._layouts(obs, sub))
        except TypeError:       # an output is missing (None)
            return False

    def finding_str_raises(self, case, failure):
        """live kind: str() of the exception raises; the interpreter prints '<exception str() failed>', boltons before fix
        5cec9e6 the Python 2 text '<unprintable X object>'. Matched only while that text is the only difference (the
        uncollapsed layout of the other repaired finding aside)"""
        if case['k'] != 'l' or failure.tag not in ('exc_fields', 'format'):
            return False
        obs = self._live_obs(case)
        pri = obs.get('prior') or []
        if 'ei' not in obs or not (obs.get('msg_raised') or any(o.get('msg_raised') for o in pri)):
            return False
        for o in pri:
            want = self._old_str_text(o) if o.get('msg_raised') else o['std_msg']
            if 'exc' in o or o['ei_type'] != o['std_type'] or o['ei_msg'] != want:
                return False
            if o['ei_only'] != o['std_type'] + (': ' + want if want else '') or o['print'] != o['ei_only'] + '\n':
                return False
        if not obs.get('msg_raised'):
            # the earlier captures show exactly the old text; the last capture must be in order by itself
            # (or show one of the other known findings, judged by their own predicates)
            rest = self.oracle(case, dict(obs, prior=[]))
            if rest is None:
                return True
            rest.model_agrees = None    # the model (fixed code) differs on the earlier captures already
            return any(pred(case, rest) for pred in (
                self.finding_recursion_collapse, self.finding_collapse_line_not_parsed, self.finding_exotic_line_separators,
                self.finding_message_trailing_newline))
        if obs['ei_type'] != obs['std_type'] or obs['ei_msg'] != self._old_str_text(obs):
            return False
        if [f[:3] for f in obs['ei_frames']] != [f[:3] for f in obs['std_frames']]:
            return False
        # the old text aside, every output is the interpreter's - or (the other repaired finding) its uncollapsed layout
        try:
            return all(b == std or b == plain for b, std, plain in self._layouts(obs, self._sub_old_str(obs)))
        except TypeError:
            return False

    def finding_recursion_collapse(self, case, failure):
        """live kind, formatted output: the interpreter collapses more than 3 identical consecutive entries into
        '[Previous line repeated N more times]'; before fix 7fb4f9f boltons printed every entry. Matched only while
        the implementation prints exactly the uncollapsed layout everywhere (the model follows the fixed code, so
        agreement with the model is not asked for here)"""
        if case['k'] != 'l' or failure.tag != 'format':
            return False
        obs = self._live_obs(case)
        if 'std' not in obs or not any('  [Previous line repeated ' in (obs.get(k) or '') for k in ('std', 'std_tb', 'std_lim')):
            return False
        return self._uncollapsed_everywhere(obs, self._sub_old_str(obs))

    def finding_collapse_line_not_parsed(self, case, failure):
        """live kind, the interpreter's own text through from_string: a '[Previous line repeated N more times]' line is
        no frame line, from_string stops there; matched only while the implementation agrees with the verified model
        and the same entries printed one by one parse and round-trip correctly"""
        if getattr(failure, 'model_agrees', None) is False or case['k'] != 'l' or failure.tag != 'parse_std':
            return False
        obs = self._live_obs(case)
        if 'std' not in obs or '  [Previous line repeated ' not in obs['std']:
            return False
        return (self._parsed_ok(obs['parsed_plain'], obs) and obs['parsed_plain']['str'] + '\n' == obs['std_plain']
                and not obs['std_msg'].endswith('\n') and not any(c in obs['std_msg'] for c in EXOTIC))

    # ------------------------------------------------------------------ shrinking
    def shrink(self, case):
        k = case['k']
        if k in 'rt' and case.get('pre'):
            pre = case['pre']
            yield {k_: v for k_, v in case.items() if k_ != 'pre'}
            for i in range(len(pre)):
                if len(pre) > 1:
                    yield dict(case, pre=pre[:i] + pre[i + 1:])
        if k == 'r':
            t = case['text']
            ls = t.split('\n')
            if case.get('b'):
                yield {'k': 'r', 'text': t}
            for i in range(len(ls)):
                yield dict(case, text='\n'.join(ls[:i] + ls[i + 1:]))
            for i in range(len(t)):
                yield dict(case, text=t[:i] + t[i + 1:])
            return
        if k == 't':
            fr = case['frames']
            if case.get('b'):
                yield {k_: v for k_, v in case.items() if k_ != 'b'}
            for i in range(len(fr)):
                yield dict(case, frames=fr[:i] + fr[i + 1:])
            if case.get('nl'):
                yield dict(case, nl=0)
            for i, f in enumerate(fr):
                for j, simple in ((4, None), (3, None), (0, 'a'), (2, 'f'), (1, '1'), (3, 'x')):
                    if f[j] != simple and not (j == 3 and simple == 'x' and f[3] is None):
                        g = list(f)
                        g[j] = simple
                        if j == 3 and simple is None:
                            g[4] = None
                        yield dict(case, frames=fr[:i] + [g] + fr[i + 1:])
            for key in ('msg', 'type'):
                v = case[key]
                for i in range(len(v)):
                    if key == 'msg' or len(v) > 1:
                        yield dict(case, **{key: v[:i] + v[i + 1:]})
            return
        links = case['links']
        for i in range(len(links)):
            yield dict(case, links=links[:i] + links[i + 1:])
        for i, ln in enumerate(links):
            if ln['kind'] in self.REC_KINDS and ln.get('n', 0) > 0:
                yield dict(case, links=links[:i] + [dict(ln, n=ln['n'] - 1)] + links[i + 1:])
            if ln['kind'] != 'call':
                yield dict(case, links=links[:i] + [{'m': ln['m'], 'kind': 'call'}] + links[i + 1:])
            if ln['kind'] == 'reraise':
                if ln.get('how') == 'loop' and ln.get('n', 1) > 0:
                    yield dict(case, links=links[:i] + [dict(ln, n=ln['n'] - 1)] + links[i + 1:])
                if ln.get('how', 'as_e') != 'as_e':
                    yield dict(case, links=links[:i] + [{'m': ln['m'], 'kind': 'reraise', 'how': 'as_e'}] + links[i + 1:])
        if case.get('limit') is not None:
            yield dict(case, limit=None)
        if case.get('tblimit') is not None:
            yield {k: v for k, v in case.items() if k != 'tblimit'}
        if case.get('skip'):
            yield {k: v for k, v in case.items() if k != 'skip'}
        for key in ('seq', 'af', 'pf', 'late'):
            if case.get(key):
                yield {k: v for k, v in case.items() if k != key}
        pri = case.get('prior') or []
        for i in range(len(pri)):
            rest = pri[:i] + pri[i + 1:]
            yield dict({k: v for k, v in case.items() if k != 'prior'}, **({'prior': rest} if rest else {}))
        for i, pr in enumerate(pri):
            for key in ('via', 'm'):
                if key in pr:
                    yield dict(case, prior=pri[:i] + [{k: v for k, v in pr.items() if k != key}] + pri[i + 1:])
            if pr['args'] != ['x']:
                yield dict(case, prior=pri[:i] + [dict(pr, args=['x'])] + pri[i + 1:])
        exc = case['exc']
        if pri:
            return          # the classes of a session refer to each other: keep them
        if exc['kind'] != 'builtin':
            yield dict(case, exc={'kind': 'builtin', 'name': 'ValueError', 'm': exc['m'], 'args': exc['args']})
        if exc['args'] != ['x']:
            yield dict(case, exc=dict(exc, args=['x']))
        if len(case['mods']) > 1 and all(l['m'] == 0 for l in links) and exc['m'] == 0:
            yield dict(case, mods=case['mods'][:1])
        for i, m in enumerate(case['mods']):
            def mod(**kw):
                return dict(case, mods=case['mods'][:i] + [dict(m, **kw)] + case['mods'][i + 1:])
            if m['reg'] != 'cache' or m['name'] != 'bvm' or len(m) > 3:
                yield dict(case, mods=case['mods'][:i] + [{'file': '/bv/c16/m%d.py' % i, 'name': 'bvm', 'reg': 'cache'}]
                           + case['mods'][i + 1:])
            if m['reg'] == 'disk':
                for key, simple in (('decoy', None), ('junk', None), ('ldr', 0), ('gone', 0), ('prime', 'getlines'), ('v1', 'retag'), ('mt', 'differ'),
                                    ('file', 'disk%d.py' % i), ('name', 'bvm')):
                    if m.get(key) != simple:
                        yield mod(**{key: simple})
            elif m['name'] != 'bvm':
                yield mod(name='bvm')

    # ------------------------------------------------------------------ once per run
    def extra_checks(self):
        """the generated character-class tables, read back from the compiled model, against the interpreter"""
        from bv.common import Driver, InfraError
        drv = Driver(self.PID)
        if not drv.available():
            return []
        d = re.compile(r'\d')
        spans = [(0, 0x3100)] if not self.thorough else [(0, 0xd800), (0xe000, 0x110000)]
        if not self.thorough:
            spans += [(a, a + 64) for a in (0xa620, 0xff10, 0x1d7ce, 0x1e950, 0x1fbf0)]
        for lo, hi in spans:
            step = 0x4000
            for a in range(lo, hi, step):
                b = min(hi, a + step)
                got = drv.query(['C %d %d' % (a, b)])[0]
                want = ''.join(chr(48 + (1 if d.match(chr(i)) else 0) + (2 if chr(i).isspace() else 0)
                                   + (4 if len(('a' + chr(i) + 'b').splitlines()) > 1 else 0)) for i in range(a, b))
                if got != want:
                    raise InfraError('character-class tables of the model differ from the interpreter in %x..%x' % (a, b))
        self.stats['char_class_codepoints_checked'] = sum(b - a for a, b in spans)
        return []


PROPERTY = C16
