"""C05 - a failed or refused atomic_save leaves the destination intact, reports, and cleans up.

Every case is one whole save on a real scratch directory: configuration (flags, file_perms, umask),
initial destination / part file, the with-block (write calls, raises or not) and a *plan* (which
instrumented call fails with which errno, or before which call the destination appears).  The
same case is run by the Lean model (C05.runSave on the abstract file system); exception class /
errno, destination bytes + mode, part file bytes + mode, directory listing, number of calls made
and the outcome of an immediate retry are compared.  The oracle restates C05 on the real outcome.
"""
import errno
import itertools
import os
import shutil
import stat
import tempfile

from bv.common import Property, Failure, time_limit, exc_name, CaseTimeout
from bv.props.fsspy import Spy, ENV_BYTES, ENV_MODE

DEST = 'dest.txt'
PART = 'dest.txt.part'
OLD = b'OLD-content'
STALE = b'stale-part'

# errno injected per call site (never ENOENT at os.stat: that is not a failure but "no such file")
SITE_ERRNO = {
    'os.stat': errno.EACCES, 'os.open': errno.ENOSPC, 'os.fdopen': errno.ENOMEM, 'os.chmod': errno.EPERM,
    'file.write': errno.ENOSPC, 'file.flush': errno.ENOSPC, 'os.fsync': errno.EIO, 'file.close': errno.ENOSPC,
    'os.rename': errno.EXDEV, 'os.link': errno.EEXIST, 'os.unlink': errno.EPERM, 'os.close': errno.EIO,
}
ALT_ERRNO = {'os.open': errno.EEXIST, 'os.link': errno.EMLINK, 'os.rename': errno.EACCES, 'file.write': errno.EIO,
             'os.stat': errno.EIO, 'os.chmod': errno.EROFS}
# the steps named by the property statement ("creating or chmod-ing the part file, write, flush, fsync, close, link/rename")
LISTED_STEPS = {'os.open', 'os.fdopen', 'os.chmod', 'file.write', 'file.flush', 'os.fsync', 'file.close',
                'os.rename', 'os.replace', 'os.link', 'open'}


class BodyError(Exception):
    pass


def hx(b):
    return b.hex() if b else '-'


class C05(Property):
    PID = 'C05'
    QUICK_BUDGET_S = 40
    THOROUGH_BUDGET_S = 700
    RULE = ('a case is one whole save in a scratch directory: flags (overwrite, overwrite_part, rm_part_on_exc, '
            'text_mode) x file_perms {None,0600,0644} x umask {022,077,000} x destination {absent, 0644, 0600} x '
            'part file {absent, present} x body (0/1/2 writes, raising or not) x plan (no fault; every single '
            'fault position of the observed call sequence with a per-site errno; the destination appearing before '
            'each call; thorough: every pair of faults), followed by an immediate fault-free retry. '
            'Non-trivial = the save did not complete (some call failed, the body raised, or it was refused); '
            'distinct = distinct (configuration, initial state, body, plan).')
    ASSUMPTIONS = ['faults are injected by replacing boltons.fileutils.os and wrapping the part file object: an injected '
                   'failure performs no part of the call (a failing file.close() still closes the descriptor)',
                   'single process, no other writer in the scratch directory except the scripted "destination appears" action',
                   'POSIX branch of atomic_rename/replace (os.name != "nt")']
    CORRESPONDENCE_NAME = 'C05.Driver (runSave on the abstract FS) vs boltons.fileutils.atomic_save on a real scratch directory'

    # ------------------------------------------------------------------ generation
    def base_configs(self):
        perms_l = [None, 0o600, 0o644]
        umask_l = [0o022, 0o077, 0o000]
        dest_l = [None, 0o644, 0o600]
        part_l = [None, 0o640]
        out = []
        for ow, owp, rm, txt in itertools.product((1, 0), (0, 1), (1, 0), (0, 1)):
            for perms in perms_l:
                for um in umask_l:
                    for dm in dest_l:
                        for pm in part_l:
                            out.append(dict(ow=ow, owp=owp, rm=rm, txt=txt, perms=perms, umask=um,
                                            dest=None if dm is None else [dm, hx(OLD)],
                                            part=None if pm is None else [pm, hx(STALE)]))
        return out

    BODIES = [(['4e455731'], 0), ([], 0), (['4e45', '5732'], 0), (['4e455731'], 1), ([], 1)]

    def with_plans(self, base, appear=True, alt=False, pairs=False):
        """the fault-free case, then every single fault position of the call sequence observed on the
        real code (per-site errno), the destination appearing before each call, and optionally every
        pair of faults (the second position ranges over the calls made after the first fault)"""
        c0 = dict(base, plan=[])
        yield c0
        calls = self.learn_calls(c0)
        for k, name in enumerate(calls):
            e = SITE_ERRNO.get(name, errno.EIO)
            c1 = dict(base, plan=[[k, e]])
            yield c1
            if alt and name in ALT_ERRNO:
                yield dict(base, plan=[[k, ALT_ERRNO[name]]])
            if appear:
                yield dict(base, plan=[[k, 'A']])
            if pairs:
                calls1 = self.learn_calls(c1)
                for j in range(k + 1, len(calls1)):
                    yield dict(base, plan=[[k, e], [j, SITE_ERRNO.get(calls1[j], errno.EIO)]])
                if appear:
                    for j in range(k + 1, len(calls)):
                        yield dict(base, plan=[[k, 'A'], [j, SITE_ERRNO.get(calls[j], errno.EIO)]])
        # a fault planned beyond the last call never fires
        yield dict(base, plan=[[len(calls), errno.EIO]])

    def learn_calls(self, case):
        obs = self.impl(case)
        return obs['first'].get('log', [])

    def cases(self, budget_s):
        full = self.thorough
        cfgs = self.base_configs()
        sel = list(range(len(cfgs)))
        self.rng.shuffle(sel)
        rank = {ci: r for r, ci in enumerate(sel)}
        for i, cfg in enumerate(cfgs):
            # quick: every configuration with the plain body and every single fault; a seeded third of
            # them also with the other bodies and the "destination appears" positions
            rich = full or rank[i] % 3 == 0
            for bi, (writes, raises) in enumerate(self.BODIES if rich else self.BODIES[:1]):
                base = dict(cfg, writes=writes, raises=raises)
                for c in self.with_plans(base, appear=rich, alt=full, pairs=full and bi == 0):
                    yield c
        for c in self.random_cases(5000 if full else 400):
            yield c

    def deep_cases(self, budget_s):
        cfgs = self.base_configs()
        self.rng.shuffle(cfgs)
        for cfg in cfgs:
            for writes, raises in self.BODIES:
                for c in self.with_plans(dict(cfg, writes=writes, raises=raises), alt=True, pairs=writes == ['4e455731']):
                    yield c

    def random_cases(self, n):
        rng = self.rng
        for _ in range(n):
            dm = rng.choice([None, 0o644, 0o600, 0o664, 0o400])
            pm = rng.choice([None, None, 0o640, 0o600])
            nw = rng.choice([0, 1, 1, 2, 3, 5])
            writes = [bytes(rng.randrange(32, 127) for _ in range(rng.choice([1, 2, 7, 40]))).hex() for _ in range(nw)]
            plan = []
            idxs = sorted(rng.sample(range(0, 14 + nw), rng.choice([0, 1, 1, 2, 2, 3])))
            for k in idxs:
                plan.append([k, rng.choice(['A', errno.ENOSPC, errno.EIO, errno.EPERM, errno.EEXIST, errno.EACCES, errno.EINTR])])
            yield dict(ow=rng.randrange(2), owp=rng.randrange(2), rm=rng.randrange(2), txt=rng.randrange(2),
                       perms=rng.choice([None, None, 0o600, 0o644, 0o640, 0o755, 0o444]),
                       umask=rng.choice([0o022, 0o077, 0, 0o027, 0o002]),
                       dest=None if dm is None else [dm, bytes(rng.randrange(32, 127) for _ in range(rng.choice([0, 3, 11]))).hex() or '-'],
                       part=None if pm is None else [pm, hx(STALE)],
                       writes=writes, raises=rng.randrange(2) if rng.random() < 0.4 else 0, plan=plan)

    # ------------------------------------------------------------------ model line
    def line(self, case):
        # an injected ENOENT at os.stat is outside the harness's fault vocabulary (it is not a failure)
        def f(x):
            return '-' if x is None else '%d:%s' % (x[0], x[1])
        return ' '.join([
            '%d%d%d%d' % (case['ow'], case['owp'], case['rm'], case['txt']),
            '-' if case['perms'] is None else str(case['perms']), str(case['umask']),
            f(case['dest']), f(case['part']), str(case['raises']),
            ','.join(case['writes']) or '-',
            ','.join('%d:%s' % (k, a) for k, a in case['plan']) or '-'])

    # ------------------------------------------------------------------ implementation
    def impl(self, case):
        import boltons.fileutils as fu
        d = tempfile.mkdtemp(prefix='bvC05-')
        old_umask = os.umask(0o022)
        obs = {}
        try:
            dest = os.path.join(d, DEST)
            part = os.path.join(d, PART)
            for path, spec in ((dest, case['dest']), (part, case['part'])):
                if spec is not None:
                    with open(path, 'wb') as f:
                        f.write(b'' if spec[1] == '-' else bytes.fromhex(spec[1]))
                    os.chmod(path, spec[0])
            os.umask(case['umask'])
            # documented defaults are exercised by omitting the keyword
            kw = {}
            for name, val, default in (('overwrite', case['ow'], 1), ('overwrite_part', case['owp'], 0),
                                       ('rm_part_on_exc', case['rm'], 1), ('text_mode', case['txt'], 0)):
                if val != default:
                    kw[name] = bool(val)
            if case['perms'] is not None:
                kw['file_perms'] = case['perms']
            plan = {k: a for k, a in case['plan']}
            obs['first'] = self.one_save(fu, d, dest, kw, case['writes'], case['raises'], plan, case['txt'])
            obs['retry'] = self.one_save(fu, d, dest, kw, case['writes'], 0, {}, case['txt'])
        except CaseTimeout:
            obs.setdefault('first', {'out': 'exc:CaseTimeout', 'calls': 0, 'dest': None, 'part': None, 'extra': [], 'log': []})
            obs.setdefault('retry', {'out': 'exc:CaseTimeout', 'calls': 0, 'dest': None, 'part': None, 'extra': [], 'log': []})
        finally:
            fu.os = os
            if 'open' in fu.__dict__:
                del fu.__dict__['open']
            os.umask(old_umask)
            shutil.rmtree(d, ignore_errors=True)
        return obs

    def one_save(self, fu, d, dest, kw, writes, raises, plan, txt):
        spy = Spy(dest, plan=plan)
        out = 'ok'
        try:
            with time_limit(10):
                spy.install()
                try:
                    with fu.atomic_save(dest, **kw) as f:
                        for w in writes:
                            b = bytes.fromhex(w)
                            f.write(b.decode('latin-1') if txt else b)
                        if raises:
                            raise BodyError()
                finally:
                    spy.uninstall()
        except BodyError:
            out = 'body'
        except CaseTimeout:
            raise
        except OSError as e:
            out = 'os:%s' % (e.errno,)
        except Exception as e:
            out = 'exc:' + exc_name(e)

        def look(p):
            try:
                st = os.lstat(p)
            except OSError:
                return None
            if not stat.S_ISREG(st.st_mode):
                return [stat.S_IMODE(st.st_mode), '?notreg']
            with open(p, 'rb') as fh:
                return [stat.S_IMODE(st.st_mode), hx(fh.read())]
        names = sorted(os.listdir(d))
        log = []
        pub = False
        created = False
        unlink_faulted = False
        appeared = False
        pub_index = None
        for r in spy.log:
            if r['i'] is None:
                continue
            log.append(r['call'])
            roles = [spy.role(p) for p in r['paths']]
            if r.get('appear') and r.get('appeared'):
                appeared = True
            if r['ok'] and r['call'] in ('os.rename', 'os.replace', 'os.link') and roles[-1:] == ['dest']:
                pub = True
                if pub_index is None:
                    pub_index = r['i']
            if r['ok'] and r['call'] in ('os.open', 'open') and r.get('wr') and roles[0] == 'part':
                created = True
            if r.get('injected') and r['call'] in ('os.unlink', 'os.remove'):
                unlink_faulted = True
        faults = [[r['i'], r['call']] for r in spy.log if r.get('injected')]
        appear_at = [r['i'] for r in spy.log if r.get('appeared')]
        return {'out': out, 'calls': spy.n, 'dest': look(dest), 'part': look(os.path.join(d, PART)),
                'extra': [n for n in names if n not in (DEST, PART)], 'log': log, 'pub': pub, 'pub_index': pub_index,
                'created': created, 'unlink_faulted': unlink_faulted, 'faults': faults, 'appear_at': appear_at}

    def render(self, case, obs):
        def f(x):
            return '-' if x is None else '%d:%s' % (x[0], x[1])

        def half(o):
            s = 'out=%s calls=%d dest=%s part=%s' % (o['out'], o['calls'], f(o['dest']), f(o['part']))
            if o['extra']:
                s += ' extra=' + ','.join(o['extra'])
            return s
        return half(obs['first']) + ' | ' + half(obs['retry'])

    # ------------------------------------------------------------------ oracle (independent of the model)
    def oracle(self, case, obs):
        o = obs['first']
        st = self.stats
        st['saves'] = st.get('saves', 0) + 1
        st['out:' + o['out'].split(':')[0]] = st.get('out:' + o['out'].split(':')[0], 0) + 1
        for _, name in o.get('faults', []):
            st['fault@' + name] = st.get('fault@' + name, 0) + 1
        if o['out'].startswith('exc:'):
            return Failure('unexpected-exception', 'atomic_save raised %s (neither the block\'s exception nor an OSError)' % o['out'][4:])
        new = ''.join(case['writes'])
        new = [None, new or '-']
        completed = o['pub']
        pub_index = o['pub_index']
        before = (lambda i: pub_index is None or i < pub_index)
        appeared_before = [i for i in o['appear_at'] if before(i)]
        init_dest = case['dest']
        # what "the destination's previous content and permissions" are
        prev = init_dest if init_dest is not None else ([ENV_MODE, hx(ENV_BYTES)] if appeared_before else None)
        listed_fault = [(i, n) for i, n in o['faults'] if n in LISTED_STEPS and before(i)]
        refused = (not case['ow']) and (init_dest is not None or bool(appeared_before))
        trigger = bool(case['raises']) or bool(listed_fault) or refused
        self._nt = (not completed)
        if trigger and completed:
            return Failure('completed-despite-failure', 'the save was published although %s' % (
                'the block raised' if case['raises'] else 'call %r failed' % (listed_fault[:1],) if listed_fault else
                'overwrite=False and the destination existed'))
        if not completed:
            if o['out'] == 'ok':
                return Failure('silent-failure', 'the save did not complete but no exception reached the caller')
            if o['dest'] != prev:
                return Failure('dest-changed', 'destination was %r, is %r after a failed save' % (prev, o['dest']))
        else:
            if o['dest'] is None or o['dest'][1] != new[1]:
                return Failure('wrong-content', 'published destination holds %r, expected %r' % (o['dest'], new[1]))
            if not o['appear_at']:
                want = case['perms'] if case['perms'] is not None else (
                    init_dest[0] if init_dest is not None else 0o666 & ~case['umask'])
                if o['dest'][0] != want:
                    return Failure('wrong-perms', 'published destination has mode %o, expected %o' % (o['dest'][0], want))
        # pre-existing part file
        if case['part'] is not None and not case['owp']:
            if o['part'] != case['part']:
                return Failure('part-reused', 'pre-existing part file %r became %r although overwrite_part is off' % (case['part'], o['part']))
            if o['out'] == 'ok':
                return Failure('part-reused', 'save succeeded over a pre-existing part file although overwrite_part is off')
        elif o['created'] and o['out'] != 'ok' and case['rm'] and not o['unlink_faulted']:
            if o['part'] is not None:
                return Failure('part-left', 'part file left behind after a failed save (rm_part_on_exc on, no unlink failed)')
        if not o['created'] and case['part'] is not None and o['part'] is not None and o['part'] != case['part']:
            return Failure('part-reused', 'pre-existing part file modified by a save that never created one')
        # retry
        r = obs['retry']
        if (not completed and case['rm'] and not o['unlink_faulted'] and (case['part'] is None or case['owp'])
                and (case['ow'] or o['dest'] is None)):
            if r['out'] != 'ok' or r['dest'] is None or r['dest'][1] != new[1]:
                return Failure('retry-fails', 'an immediate retry after the failed save gives %s, destination %r' % (r['out'], r['dest']))
        return None

    def nontrivial(self, case, obs):
        return getattr(self, '_nt', False)

    def shrink(self, case):
        plan = case['plan']
        for i in range(len(plan)):
            yield dict(case, plan=plan[:i] + plan[i + 1:])
        if len(case['writes']) > 1:
            yield dict(case, writes=case['writes'][:1])
        if case['raises']:
            yield dict(case, raises=0)
        if case['txt']:
            yield dict(case, txt=0)
        if case['umask'] != 0o022:
            yield dict(case, umask=0o022)
        if case['part'] is not None:
            yield dict(case, part=None)
        if case['owp']:
            yield dict(case, owp=0)
        if case['perms'] is not None:
            yield dict(case, perms=None)


PROPERTY = C05
