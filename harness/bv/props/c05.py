"""C05 - a failed or refused atomic_save leaves the destination intact, reports, and cleans up.

Every case is one whole save on a real scratch directory: configuration (flags, file_perms, umask,
buffering), initial destination / part file, the with-block (a script of write / flush / close calls
on the file object, ending normally or by raising one of several exception kinds) and a *plan*
(which instrumented call fails with which errno or with which non-OSError exception class, or
before which call the destination appears), followed by an immediate fault-free retry (on a fresh
saver, or on the SAME AtomicSaver instance) - or by a HISTORY (round 3b): further saves through the same long-lived
AtomicSaver object (or a second one, or fresh ones) while the world changes between the uses (`hist`).

Tie = ACCEPTANCE (round 3): the calls the real code makes are recorded and classified by their EFFECT
(create-part-exclusive, chmod of the part file by path or descriptor, write/flush/fsync/close,
rename-or-replace onto the destination, link, unlink of the part file; probes and fdopen have no
effect; a call that reported an error is recorded as such, with "is it one of the steps the property
lists").  The observed trace of the save and of the retry goes to the Lean driver, which evaluates the
decidable predicate `C05.Accept` on it (the predicate the `accepted_*` theorems are about) and replays
it on the abstract file system; the replayed destination / part file must equal the real ones.  Which
calls the implementation uses, how many probes it makes and in which order it sets things up is free.
The transliteration `runScript` is still run on every case (driver command REF) and compared
field by field, but only as a statistic (`ref_model:*` in the histogram), never as an alarm.
The oracle restates C05 on the real outcome.
"""
import errno
import itertools
import os
import shutil
import stat
import tempfile

from bv.common import Property, Failure, time_limit, exc_name, CaseTimeout, Driver
from bv.props.fsspy import Spy, ENV_BYTES, ENV_MODE

DEST = 'dest.txt'
PART = 'dest.txt.part'
OLD = b'OLD-content'
STALE = b'stale-part'

# errno injected per call site (never ENOENT at os.stat: that is not a failure but "no such file")
SITE_ERRNO = {
    'os.stat': errno.EACCES, 'os.open': errno.ENOSPC, 'os.fdopen': errno.ENOMEM, 'os.chmod': errno.EPERM,
    'file.write': errno.ENOSPC, 'file.flush': errno.ENOSPC, 'os.fsync': errno.EIO, 'file.close': errno.ENOSPC,
    'os.rename': errno.EXDEV, 'os.link': errno.EEXIST, 'os.unlink': errno.EPERM, 'os.close': errno.EIO,
    # the same steps under their other names
    'os.replace': errno.EXDEV, 'os.fchmod': errno.EPERM, 'os.remove': errno.EPERM, 'open': errno.ENOSPC,
    'os.fdatasync': errno.EIO, 'os.lstat': errno.EACCES, 'fcntl.fcntl': errno.EINVAL,
}
ALT_ERRNO = {'os.open': errno.EEXIST, 'os.link': errno.EMLINK, 'os.rename': errno.EACCES, 'file.write': errno.EIO,
             'os.stat': errno.EIO, 'os.chmod': errno.EROFS, 'os.replace': errno.EACCES, 'os.fchmod': errno.EROFS,
             'open': errno.EEXIST}
# the steps named by the property statement ("creating or chmod-ing the part file, write, flush, fsync, close, link/rename")
LISTED_STEPS = {'os.open', 'os.fdopen', 'os.chmod', 'os.fchmod', 'file.write', 'file.writelines', 'file.flush', 'os.fsync',
                'os.fdatasync', 'file.close', 'os.rename', 'os.replace', 'os.link', 'open'}
UNLINK_CALLS = {'os.unlink', 'os.remove'}
PUBLISH_CALLS = {'os.rename', 'os.replace', 'os.link'}
PROBE_CALLS = {'os.stat', 'os.lstat'}
# round 5: errno values on which file-system code is known to BRANCH ("no hard links here", "other device", "try again",
# "read-only", "exists", "gone" ...) - each of them is a behaviour class of its own at every call; the first ones are the
# "this file system cannot do it: try another way" class.  Names missing on the platform are skipped, equal values merged.
ERRNO_CLASS_NAMES = ['EPERM', 'ENOTSUP', 'EOPNOTSUPP', 'ENOSYS', 'EXDEV', 'EMLINK', 'EACCES', 'EROFS', 'EEXIST', 'ENOENT',
                     'EINTR', 'EAGAIN', 'EWOULDBLOCK', 'EBUSY', 'ENOSPC', 'EDQUOT', 'EIO', 'ENOTDIR', 'EISDIR', 'ELOOP',
                     'ENAMETOOLONG', 'EINVAL', 'EBADF', 'ETXTBSY', 'ENOTEMPTY', 'ENOMEM', 'EMFILE', 'ENFILE', 'EFBIG',
                     'ESTALE', 'ENOLCK', 'ETIMEDOUT', 'ENODEV', 'ENOTTY', 'ESPIPE', 'EDEADLK', 'ECANCELED', 'ENXIO']
TRY_ANOTHER_WAY = ['EPERM', 'ENOTSUP', 'EOPNOTSUPP', 'ENOSYS', 'EXDEV', 'EMLINK', 'EACCES', 'EROFS']


def errno_values(names):
    out = []
    for n in names:
        v = getattr(errno, n, None)
        if isinstance(v, int) and v not in out:
            out.append(v)
    return out


_SRC_ERRNOS = []


def source_errnos():
    """errno names the CURRENT boltons/fileutils.py mentions anywhere - as `errno.X` or as a string ('EPERM' in a table
    looked up with getattr): the values its code can tell apart come first in every errno family"""
    if not _SRC_ERRNOS:
        names = []
        try:
            import re
            import boltons.fileutils as fu
            with open(fu.__file__.replace('.pyc', '.py'), encoding='utf-8') as fh:
                for n in re.findall(r'\bE[A-Z0-9]{2,14}\b', fh.read()):
                    if isinstance(getattr(errno, n, None), int) and n not in names:
                        names.append(n)
        except Exception:
            pass
        _SRC_ERRNOS.append(names)
    return _SRC_ERRNOS[0]

# A plan action >= 1000 makes the call raise an exception that is NOT an errno-carrying OSError.  The Lean
# model treats an error as an opaque number (`Errno = Nat`), exactly as the code must (`except Exception`):
# these codes are the numbers by which the two sides name the exception classes.
EXC_CODES = {1000: OSError, 1001: ValueError, 1002: MemoryError, 1003: RuntimeError, 1004: AttributeError,
             1005: TypeError, 1006: UnicodeEncodeError, 1007: EOFError}
EXC_CODE_OF = {cls.__name__: code for code, cls in EXC_CODES.items() if code != 1000}
QUICK_CODES = [1001, 1002, 1000, 1003]


def make_exc(code):
    cls = EXC_CODES[code]
    if code == 1000:
        return OSError('injected fault without an errno')
    if cls is UnicodeEncodeError:
        return UnicodeEncodeError('ascii', 'x', 0, 1, 'injected fault')
    return cls('injected fault')


class BodyError(Exception):
    pass


class BodyBase(BaseException):
    pass


# how the with-block ends: 0 = normally; the others raise (1 an ordinary Exception, 2-5 BaseExceptions that
# are not Exceptions, 6 an OSError of the block's own, 7 a ValueError of the block's own)
BODY_EXC = {1: BodyError, 2: KeyboardInterrupt, 3: SystemExit, 4: GeneratorExit, 5: BodyBase,
            6: lambda: OSError(errno.ENOSPC, 'the block\'s own I/O failed'), 7: lambda: ValueError('from the block')}


def hx(b):
    return b.hex() if b else '-'


class Flag:
    """an option value that is only a truth value: `bool(x)` says what it means, `==` claims equality with everything
    (True, False, None, 0 ...), `is` matches nothing"""

    def __init__(self, v):
        self.v = bool(v)

    def __bool__(self):
        return self.v

    def __eq__(self, other):
        return True

    def __ne__(self, other):
        return True

    def __hash__(self):
        return 0

    def __repr__(self):
        return 'Flag(%r)' % self.v


# argument / call forms of a save (round 5) - none of them changes what the save must do:
#   kwform 1: all four flags passed explicitly as ints 0/1 (also those equal to the default); 2: as Flag objects
#   api 1:    the AtomicSaver class called directly instead of atomic_save()
#   proto 1:  no `with`: saver.setup(), the block on saver.part_file, saver.__exit__(exc_type, exc, tb) by hand (documented)
#   pathform 1: the destination as a pathlib.Path; 2: with redundant components (dir/./x, dir//x); 3: dir/sub/../x
FORM_KEYS = ('kwform', 'api', 'proto', 'pathform')


def dest_arg(dest, pathform):
    d, n = os.path.split(dest)
    if pathform == 1:
        import pathlib
        return pathlib.Path(dest)
    if pathform == 2:
        return d + '/.//' + n
    if pathform == 3:
        return d + '/no-such-dir/../' + n
    return dest


_SCRATCH = []


def scratch_base():
    """where the per-case scratch directories are made: a memory-backed file system when there is one (C05 is
    about what the calls do to the directory, not about the disk: fsync on a busy disk costs milliseconds
    and made the run time depend on what else the machine is doing), else the default temporary directory"""
    if not _SCRATCH:
        base = None
        # BV_C05_SCRATCH=<dir> chooses the place, BV_C05_SCRATCH=default forces the default temporary directory
        forced = os.environ.get('BV_C05_SCRATCH')
        for cand in ((forced,) if forced else ('/dev/shm',)):
            if not cand or cand == 'default' or not os.path.isdir(cand):
                continue
            try:
                d = tempfile.mkdtemp(prefix='bvC05-probe-', dir=cand)
                try:
                    a, b = os.path.join(d, 'a'), os.path.join(d, 'b')
                    with open(a, 'wb') as f:
                        f.write(b'x')
                        f.flush()
                        os.fsync(f.fileno())
                    os.chmod(a, 0o1640)
                    os.link(a, b)           # hard links, permission bits and rename must work there
                    os.rename(b, a)
                    ok = stat.S_IMODE(os.lstat(a).st_mode) == 0o1640
                finally:
                    shutil.rmtree(d, ignore_errors=True)
                if ok:
                    base = cand
                    break
            except OSError:
                continue
        _SCRATCH.append(base)
    return _SCRATCH[0]


def rm_scratch(d):
    try:
        for n in os.listdir(d):
            os.unlink(os.path.join(d, n))
        os.rmdir(d)
    except OSError:
        shutil.rmtree(d, ignore_errors=True)


class Spy5(Spy):
    """fsspy.Spy + plan actions >= 1000: the call raises the exception class EXC_CODES[action]; the bytes of
    every write call are kept (the abstract file system needs them)"""

    def counted(self, name, real, args, kwargs, paths, size=None, still=None):
        n0 = len(self.log)
        try:
            return self._counted(name, real, args, kwargs, paths, size, still)
        finally:
            if len(self.log) > n0:
                rec = self.log[n0]
                if name in ('file.write', 'file.writelines') and args:
                    rec['data'] = _hexdata(args[0])
                # what a call that failed WOULD have been (fsspy fills these in after a successful call only)
                if name == 'os.open' and 'flags' not in rec and len(args) > 1:
                    rec['flags'] = args[1]
                    rec['mode'] = args[2] if len(args) > 2 else 0o777
                    rec['wr'] = bool(args[1] & (os.O_WRONLY | os.O_RDWR))
                    rec['created'] = True
                if name == 'open' and 'pymode' not in rec and len(args) > 1:
                    rec['pymode'] = args[1]
                    rec['wr'] = any(ch in args[1] for ch in 'wax+')
                if name in ('os.chmod', 'os.fchmod') and 'mode' not in rec and len(args) > 1:
                    rec['mode'] = args[1]

    cloexec = False      # also count (and be able to fail) the fcntl calls of set_cloexec()

    def install(self):
        Spy.install(self)
        fu = self._installed
        if self.cloexec and hasattr(fu, 'fcntl'):
            self._real_fcntl = fu.fcntl
            fu.fcntl = FcntlProxy(self, fu.fcntl)
        return self

    def uninstall(self):
        fu = self._installed
        if fu is not None and self.__dict__.get('_real_fcntl') is not None:
            fu.fcntl = self._real_fcntl
            self._real_fcntl = None
        Spy.uninstall(self)

    def _event(self, rec):
        if rec['ok'] and rec['call'].startswith('fcntl.'):
            return 'n'          # descriptor flags: no effect on the two names
        if rec['ok'] and rec['call'] == 'open' and rec.get('on_fd'):
            return 'n'          # open(fd, mode) is os.fdopen: wraps a descriptor, no effect on the file system
        return Spy._event(self, rec)

    def _builtin_open(self, file, mode='r', *args, **kwargs):
        """fsspy's wrapper + the descriptor of the new file object is known to the recorder (os.fsync / os.fchmod /
        fcntl on `f.fileno()` of a file made by the builtin must be attributed to its path)"""
        n0 = len(self.log)
        try:
            r = Spy._builtin_open(self, file, mode, *args, **kwargs)
        finally:
            if isinstance(file, int) and len(self.log) > n0:
                self.log[n0]['on_fd'] = True
        try:
            f = object.__getattribute__(r, '_f')
            self.fdpath.setdefault(f.fileno(), (object.__getattribute__(r, '_path'), object.__getattribute__(r, '_wr')))
        except Exception:
            pass
        return r

    def _counted(self, name, real, args, kwargs, paths, size=None, still=None):
        act = self.plan.get(self.n)
        if isinstance(act, int) and act >= 1000:
            idx = self.n
            self.n += 1
            rec = {'i': idx, 'call': name, 'paths': paths, 'ok': False, 'errno': act, 'injected': True,
                   'cls': EXC_CODES[act].__name__}
            if size is not None:
                rec['size'] = size
            self.log.append(rec)
            if still is not None:
                try:
                    still()
                    rec['performed'] = True
                except Exception:
                    pass
            raise make_exc(act)
        return Spy.counted(self, name, real, args, kwargs, paths, size=size, still=still)

    def observations(self):
        """the observed trace in the vocabulary of C05.Obs (lean/BoltonsVerif/C05/Accept.lean): one token per
        counted call, classified by its effect (fsspy.Spy._event); `A` = the other process created the destination"""
        out = []
        for rec in self.log:
            if rec['i'] is None:
                continue                       # probes that cannot fail (lexists ...): not part of the trace
            if rec.get('appeared'):
                out.append('A')
            if rec['ok']:
                tok = self._event(rec)
                if tok[0] in 'wW' and tok[1:].isdigit():
                    tok = tok[0] + (rec.get('data') or '')
                out.append(tok)
                continue
            listed = rec['call'] in LISTED_STEPS
            if (rec['call'] == 'file.close' and rec.get('performed') and not rec.get('was_closed')
                    and rec.get('wr') and self.role(rec['paths'][0]) == 'part'):
                out.append('X%d' % listed)     # a failing close() that closed all the same
            else:
                tok = 'F%d%d%d' % (listed, bool(rec.get('injected')), rec['call'] in UNLINK_CALLS)
                if not rec.get('injected'):
                    # a failure the real file system produced on its own: the abstract one must refuse the same event
                    try:
                        ev = self._event(dict(rec, ok=True))
                    except Exception:
                        ev = '?'
                    if ev[0] in 'wW' and ev[1:].isdigit():
                        ev = ev[0] + (rec.get('data') or '')
                    if ev not in ('n', '?', 'T', 'D') and ev[0] != 'W':
                        tok += ':' + ev
                out.append(tok)
        return out


    def raw_records(self):
        """the recorded FACTS about every counted call, without any judgement: name, which of the two names the path
        arguments / descriptor / file object refer to, success, injected, and the arguments that matter - the Lean driver
        classifies them itself (C05.classify, lean/BoltonsVerif/C05/Classify.lean) and must arrive at `observations()`"""
        out = []
        for rec in self.log:
            if rec['i'] is None:
                continue
            call = rec['call']
            paths = rec.get('paths') or []
            roles = ''.join({'dest': 'd', 'part': 'p'}.get(self.role(p), 'o') for p in paths)
            creat = excl = trunc = False
            mode = rec.get('mode')
            if call == 'os.open' and 'flags' in rec:
                fl = rec['flags']
                creat, excl, trunc = bool(fl & os.O_CREAT), bool(fl & os.O_EXCL), bool(fl & os.O_TRUNC)
            elif call == 'open' and 'pymode' in rec:
                m = rec['pymode']
                creat, excl, trunc = ('w' in m or 'a' in m or 'x' in m), 'x' in m, 'w' in m
                mode = 0o666
            same = bool(paths) and os.path.dirname(paths[0]) == os.path.dirname(self.dest)
            bits = [rec['ok'], rec.get('injected'), rec.get('wr'), creat, excl, trunc, rec.get('created'), same,
                    rec.get('on_fd'), rec.get('was_closed'), rec.get('performed'), rec.get('appeared')]
            out.append(';'.join([call, roles, ''.join('1' if b else '0' for b in bits),
                                 str(mode if isinstance(mode, int) and mode >= 0 else 0),
                                 (rec.get('data') or '-') if call in ('file.write', 'file.writelines') else '-']))
        return out


class FcntlProxy:
    """stands in for the module attribute `boltons.fileutils.fcntl`: fcntl.fcntl(fd, ...) becomes a counted call"""

    def __init__(self, spy, real):
        self.__dict__['_spy'] = spy
        self.__dict__['_real'] = real

    def __getattr__(self, name):
        real = getattr(self.__dict__['_real'], name)
        if name != 'fcntl':
            return real
        spy = self.__dict__['_spy']

        def w(*args, **kwargs):
            fd = args[0] if args else None
            return spy.counted('fcntl.fcntl', real, args, kwargs, [spy.fdpath.get(fd, ('?fd', False))[0]])
        return w


def _hexdata(x):
    try:
        if isinstance(x, (list, tuple)):
            return ''.join(_hexdata(y) for y in x)
        if isinstance(x, str):
            try:
                return x.encode('latin-1').hex()
            except UnicodeEncodeError:
                return x.encode('utf-8').hex()
        return bytes(x).hex()
    except Exception:
        return ''


def look(p):
    """[mode, hex content] of the regular file at p, None when there is nothing"""
    try:
        st = os.lstat(p)
    except OSError:
        return None
    if not stat.S_ISREG(st.st_mode):
        return [stat.S_IMODE(st.st_mode), '?notreg']
    with open(p, 'rb') as fh:
        return [stat.S_IMODE(st.st_mode), hx(fh.read())]


CFG_KEYS = ('ow', 'owp', 'rm', 'txt', 'perms')


def saver_cfg(case, who):
    """configuration of the saver object `who` of a history case (0 / 'n': the case's own; 1: with the overrides `alt`)"""
    cfg = {k: case[k] for k in CFG_KEYS}
    if who == 1:
        cfg.update(case.get('alt') or {})
    return cfg


def ops_of(case):
    """the with-block's script: 'w<hex>' = f.write(bytes), 'f' = f.flush(), 'c' = f.close()"""
    if case.get('ops') is not None:
        return list(case['ops'])
    return ['w' + w for w in case['writes']]


def new_hex(case):
    return ''.join(op[1:] for op in ops_of(case) if op[0] == 'w') or '-'


class C05(Property):
    PID = 'C05'
    QUICK_BUDGET_S = 75
    THOROUGH_BUDGET_S = 700
    RULE = ('a case is one whole save in a scratch directory: flags (overwrite, overwrite_part, rm_part_on_exc, '
            'text_mode) x file_perms {None,0600,0644; 0, sticky on sub-families} x umask {022,077,000} x destination {absent, 0644, 0600} x '
            'part file {absent, present} x with-block (a script of write/flush/close calls on the file object - 0/1/2 writes, '
            'the block closing the file itself, writing after closing, flushing - ending normally or raising an Exception, '
            'KeyboardInterrupt, SystemExit, GeneratorExit, another BaseException, an OSError or a ValueError of its own) x '
            'buffering {default, 0, 1, small, large} x plan (no fault; every single '
            'fault position of the observed call sequence with a per-site errno and, on sub-families, with non-OSError '
            'exception classes (ValueError, MemoryError, RuntimeError, an OSError without errno); the destination appearing before '
            'each call; every pair of faults on a sub-family, thorough: on all), followed by an immediate fault-free retry '
            '(fresh saver, or the same AtomicSaver instance used twice). '
            'Small adversarial families come first (file_perms=0, block behaviours x exception kinds, exception classes at every '
            'call, fault pairs, buffering, instance reuse, special permission bits, the fcntl calls of set_cloexec as fault sites), '
            'then the full enumeration. Fault positions are the calls the CURRENT code makes, under whatever name (os.rename / os.replace, '
            'os.chmod / os.fchmod, os.unlink / os.remove, os.open+fdopen / open). '
            'HISTORIES (round 3b): one long-lived AtomicSaver object (or two with different file_perms taking turns, or fresh ones in between) '
            'used for 2-5 saves while the world changes between the uses - the destination chmod-ed / deleted / replaced by another '
            "writer's file with another mode, the process umask changed, a foreign part file appearing / removed - x file_perms explicit / None x text / binary x "
            'overwrite x first use completing / block raising / a call failing x every single fault position of a LATER save; each save is judged '
            'with the state IT starts from (measured just before it). '
            'ROUND 5: errno values as BEHAVIOUR CLASSES - the errno names the current source mentions (as errno.X or as a string) first, '
            'then a family of 38 values code is known to branch on (EPERM / ENOTSUP / EOPNOTSUPP / ENOSYS / EXDEV / EMLINK / EACCES / EROFS ... ; at the '
            'publishing call every errno the platform knows) at every call; where the run after such a fault differs from the run after '
            "the site's ordinary errno (other calls, other outcome: the code took another way) - and always at the publishing call (link / rename / "
            'replace) - the destination created by another process at EVERY later call boundary and just before the call, and a second fault at every '
            'later call; generated first with overwrite=False. Histories in which an EARLIER use (same object, second object, fresh one) or a call of the '
            'module-level helpers atomic_rename / replace / _atomic_rename by somebody else on unrelated files (each argument form; succeeding, failing '
            "with such an errno, failing because the target exists) precedes a save during which the destination appears at each call boundary. "
            'The other ways of saying the same save: flags as ints / as objects that only have a truth value, AtomicSaver called directly, '
            'setup() / part_file / __exit__() by hand, the destination as pathlib.Path / with redundant components; a part_file that names the destination '
            'itself (oracle only); writes at 255..257 / 8191..8193 / 16384 bytes. '
            'Non-trivial = the save did not complete (some call failed, the body raised, or it was refused); '
            'distinct = distinct (configuration, initial state, body, plan).')
    ASSUMPTIONS = ['faults are injected by replacing boltons.fileutils.os and wrapping the part file object: an injected '
                   'failure performs no part of the call (a failing file.close() still closes the descriptor)',
                   'an injected failure is an OSError(errno) or, for plan actions >= 1000, an exception of another class '
                   '(ValueError, MemoryError, RuntimeError, an OSError without errno, ...); a BaseException that is not an '
                   'Exception is only used as the way the with-block ends',
                   'single process, no other writer in the scratch directory except the scripted "destination appears" action',
                   'the recorder notes FACTS about every counted call (name, which of the two names its path arguments / descriptor / '
                   'file object refer to, success, open flags, mode argument, bytes written: fsspy.Spy + c05.Spy5.raw_records, trusted Python); '
                   'their CLASSIFICATION into observations is the Lean definition C05.classify - the Python classifier (fsspy.Spy._event, '
                   'Spy5.observations) is checked against it on every call of every case (cls=ok); that no file-system call of the saver '
                   'escapes the recorder is a proof obligation regenerated from the source (C05.source_calls_are_recorded)',
                   'between two saves of a history the world moves only by the scripted steps (chmod / unlink / replacement of the destination, '
                   'umask, a part file appearing / removed); WHILE a save of a history runs nothing else acts',
                   'the scratch directory is made on a memory-backed file system (/dev/shm) when one passes a probe '
                   '(hard links, rename, permission bits), else in the default temporary directory',
                   'POSIX branch of atomic_rename/replace (os.name != "nt")']
    CORRESPONDENCE_NAME = ('C05.Driver: C05.Accept (acceptance automaton + end conditions) on the trace observed on boltons.fileutils.atomic_save '
                           'in a real scratch directory (= C05.classify of the recorded raw facts), and C05.replay of that trace on the abstract FS '
                           'vs the real destination / part file; for histories every save is judged from the state it starts in, the moves of the '
                           'world between the saves are C05.EnvStep.apply')

    # ------------------------------------------------------------------ translator hook
    # mutating / process-state calls of the os module that the recorder (fsspy) does NOT interpose, and modules through
    # which a saver could reach the file system behind its back
    UNSEEN_OS = {'sendfile', 'copy_file_range', 'splice', 'pwritev', 'posix_fallocate', 'renames', 'makedirs', 'removedirs',
                 'mkfifo', 'mknod', 'lchmod', 'chflags', 'lchflags', 'setxattr', 'removexattr', 'umask', 'chdir', 'fchdir',
                 'chroot', 'dup', 'dup2', 'system', 'popen', 'fork', 'startfile'}
    UNSEEN_MODULES = {'shutil', 'pathlib', 'tempfile', 'subprocess', 'io', 'mmap'}
    SAVER_SCOPES = {'AtomicSaver', 'atomic_save', 'atomic_rename', 'replace', 'set_cloexec'}

    def regen(self):
        """facts of the current source the proofs / the tie rely on: the default permission bits, and that every call
        by which the saver can change the file system is one the recorder interposes (so the observed trace is complete)"""
        import ast
        import boltons.fileutils as fu
        with open(fu.__file__.replace('.pyc', '.py'), encoding='utf-8') as fh:
            tree = ast.parse(fh.read())
        unseen = set()
        for node in ast.walk(tree):
            if isinstance(node, (ast.ClassDef, ast.FunctionDef)) and node.name in self.SAVER_SCOPES:
                for sub in ast.walk(node):
                    if isinstance(sub, ast.Attribute) and isinstance(sub.value, ast.Name):
                        if sub.value.id == 'os' and (sub.attr in self.UNSEEN_OS or sub.attr.startswith(('exec', 'spawn'))):
                            unseen.add('os.' + sub.attr)
                        elif sub.value.id in self.UNSEEN_MODULES:
                            unseen.add(sub.value.id + '.' + sub.attr)
                    elif isinstance(sub, ast.Name) and sub.id in self.UNSEEN_MODULES:
                        unseen.add(sub.id)
        src = ('/- generated by harness/bv/props/c05.py regen() from boltons/fileutils.py - do not edit -/\n'
               'namespace C05.Gen\n'
               'def rwPerms : Nat := %d\ndef defaultFilePerms : Nat := %d\n'
               '/-- calls inside AtomicSaver / atomic_save / atomic_rename / replace / set_cloexec that the recorder cannot see -/\n'
               'def unseenCalls : List String := [%s]\n'
               'end C05.Gen\n') % (int(fu.RW_PERMS), int(fu.AtomicSaver._default_file_perms),
                                   ', '.join('"%s"' % n for n in sorted(unseen)))
        return {'C05_Consts.lean': src}

    # ------------------------------------------------------------------ generation
    def base_configs(self):
        perms_l = [None, 0o600, 0o644]
        umask_l = [0o022, 0o077, 0o000]
        dest_l = [None, 0o644, 0o600]
        part_l = [None, 0o640]
        out = []
        for ow, owp, rm, txt in itertools.product((1, 0), (0, 1), (1, 0), (0, 1)):
            for perms in perms_l:
                for um in umask_l:
                    for dm in dest_l:
                        for pm in part_l:
                            out.append(dict(ow=ow, owp=owp, rm=rm, txt=txt, perms=perms, umask=um,
                                            dest=None if dm is None else [dm, hx(OLD)],
                                            part=None if pm is None else [pm, hx(STALE)]))
        return out

    BODIES = [(['4e455731'], 0), ([], 0), (['4e45', '5732'], 0), (['4e455731'], 1), ([], 1)]
    # with-blocks that do more than write: (ops, raises)
    N1 = 'w4e455731'
    SCRIPTS = [([N1, 'c'], 0), ([N1, 'c'], 1), ([N1, 'f', 'w32'], 0), ([N1, 'c', 'w32'], 0), (['c'], 0),
               (['f', 'c', 'f'], 0), ([N1, 'f'], 1), ([N1, 'c', 'c'], 0), ([N1, 'f', 'c'], 2)]

    @staticmethod
    def mk(ow=1, owp=0, rm=1, txt=0, perms=None, umask=0o022, dm=None, pm=None, writes=('4e455731',), raises=0, **extra):
        c = dict(ow=ow, owp=owp, rm=rm, txt=txt, perms=perms, umask=umask, dest=None if dm is None else [dm, hx(OLD)],
                 part=None if pm is None else [pm, hx(STALE)], writes=list(writes), raises=raises)
        c.update(extra)
        return c

    @staticmethod
    def script(base, ops, raises):
        return dict(base, ops=list(ops), writes=[op[1:] for op in ops if op[0] == 'w'], raises=raises)

    def with_plans(self, base, appear=True, alt=False, pairs=False, codes=()):
        """the fault-free case, then every single fault position of the call sequence observed on the
        real code (per-site errno, then each of the exception-class `codes`), the destination appearing
        before each call, and optionally every pair of faults (the second position ranges over the calls
        made after the first fault)"""
        c0 = dict(base, plan=[])
        yield c0
        calls = self.learn_calls(c0)
        for k, name in enumerate(calls):
            e = SITE_ERRNO.get(name, errno.EIO)
            c1 = dict(base, plan=[[k, e]])
            yield c1
            for code in codes:
                yield dict(base, plan=[[k, code]])
            if alt and name in ALT_ERRNO:
                yield dict(base, plan=[[k, ALT_ERRNO[name]]])
            if appear:
                yield dict(base, plan=[[k, 'A']])
            if pairs:
                calls1 = self.learn_calls(c1)
                for j in range(k + 1, len(calls1)):
                    yield dict(base, plan=[[k, e], [j, SITE_ERRNO.get(calls1[j], errno.EIO)]])
                    if codes:
                        yield dict(base, plan=[[k, codes[0]], [j, codes[(j + k) % len(codes)]]])
                if appear:
                    for j in range(k + 1, len(calls)):
                        yield dict(base, plan=[[k, 'A'], [j, SITE_ERRNO.get(calls[j], errno.EIO)]])
        # a fault planned beyond the last call never fires
        yield dict(base, plan=[[len(calls), errno.EIO]])

    def learn_calls(self, case):
        # the observation is kept for the evaluation of the same case that follows (the run is deterministic)
        obs = self.run_case(case)
        memo = self.__dict__.setdefault('_memo', {})
        if len(memo) > 64:
            memo.clear()
        memo[self.key(case)] = obs
        return obs['first'].get('log', [])

    # ------------------------------------------------------------------ round 5: errno values as behaviour classes
    def run_sig(self, case):
        """what a run looks like from outside: the calls made, whether the caller saw an exception, whether it published"""
        obs = self.run_case(case)
        memo = self.__dict__.setdefault('_memo', {})
        if len(memo) > 64:
            memo.clear()
        memo[self.key(case)] = obs
        o = obs['first']
        return o.get('log', []), (o['out'] == 'ok', bool(o.get('pub')))

    def errno_classes(self, base, sites=None, errnos=None, always=PUBLISH_CALLS, second=True):
        """errno values are BEHAVIOUR CLASSES: code branches on them ("no hard links here: fall back on ...", "other device:
        copy instead", "interrupted: again").  For every call k of the fault-free run (restricted to the call names `sites`
        when given) and every errno e of the family: the single fault [k, e]; and when the run that follows differs from the
        run after the site's ordinary errno (other calls, other outcome: the code took ANOTHER WAY) - or always, at the
        publishing calls - the interleavings of that other way: the destination created by another process at EVERY later call
        boundary (a check-then-act window is one call wide), at the boundary just before k, and a second fault at every later call."""
        c0 = dict(base, plan=[])
        calls = self.learn_calls(c0)
        raws = self.__dict__['_memo'][self.key(c0)]['first'].get('raw') or []
        fam = errnos if errnos is not None else errno_values(source_errnos() + ERRNO_CLASS_NAMES)
        for k, name in enumerate(calls):
            if sites is not None and name not in sites:
                continue
            # a call on the destination alone (stat / lstat / access / a read-only open of it ...) is a PROBE of the file to replace
            dest_probe = name in PROBE_CALLS or (k < len(raws) and raws[k].split(';')[1:2] == ['d'])
            e0 = SITE_ERRNO.get(name, errno.EIO)
            ref_calls, ref_out = self.run_sig(dict(base, plan=[[k, e0]]))
            for e in fam:
                if e == errno.ENOENT and dest_probe:
                    continue        # a probe answering "no such file" is not a failure (and a lie when the file is there)
                c1 = dict(base, plan=[[k, e]])
                calls_e, out_e = self.run_sig(c1)
                other_way = (calls_e[k + 1:] != ref_calls[k + 1:]) or out_e != ref_out
                if not (other_way or name in always):
                    yield c1
                    continue
                for j in range(k + 1, len(calls_e)):
                    yield dict(base, plan=[[k, e], [j, 'A']])
                yield c1
                if k:
                    yield dict(base, plan=[[k - 1, 'A'], [k, e]])
                if second and other_way:
                    for j in range(k + 1, len(calls_e)):
                        yield dict(base, plan=[[k, e], [j, SITE_ERRNO.get(calls_e[j], errno.EIO)]])
                        yield dict(base, plan=[[k, e], [j, e]])

    def errno_family(self, full, stage):
        mk = self.mk
        taw = errno_values(source_errnos() + TRY_ANOTHER_WAY)
        if stage == 0:
            # the publishing call (link / rename / replace) failing with each "cannot do it here" errno, the destination
            # appearing at every call boundary after it: overwrite=False first (no-clobber must survive every fallback)
            for ow, dm, owp, pm in ((0, None, 0, None), (1, 0o644, 0, None), (0, None, 1, 0o640), (1, None, 0, None)):
                for c in self.errno_classes(mk(ow=ow, dm=dm, owp=owp, pm=pm), sites=PUBLISH_CALLS, errnos=taw):
                    yield c
            return
        # every call x the whole family
        allv = sorted(errno.errorcode) if full else None
        for ow, dm, perms, txt in ((0, None, None, 0), (1, 0o600, None, 0), (1, None, 0o640, 1), (0, None, 0o600, 1)):
            for c in self.errno_classes(mk(ow=ow, dm=dm, perms=perms, txt=txt), errnos=allv):
                yield c
        # ... of a save whose block raised (only the cleanup may differ) and of a save that leaves its part file on purpose
        for c in self.errno_classes(mk(ow=0, dm=None, raises=1), errnos=taw, always=()):
            yield c
        for c in self.errno_classes(mk(ow=0, dm=None, rm=0), errnos=taw):
            yield c
        # every errno the platform knows at the publishing call
        for ow, dm in ((0, None), (1, 0o644)):
            for c in self.errno_classes(mk(ow=ow, dm=dm, umask=0o077), sites=PUBLISH_CALLS, errnos=sorted(errno.errorcode)):
                yield c

    def small_families(self, full):
        """small, diverse, adversarial: generated FIRST so that a slow machine (budget cut) never loses them"""
        mk, script = self.mk, self.script
        # 0. (round 5) errno classes at the publishing call x interference at every later call boundary
        for c in self.errno_family(full, 0):
            yield c
        # 1. an explicit file_perms of 0 (a fully locked-down file) is a request like any other, not "none given"
        for ow, dm, um in itertools.product((1, 0), (None, 0o644, 0o600), (0o022, 0)):
            for c in self.with_plans(mk(ow=ow, perms=0, umask=um, dm=dm), appear=False):
                yield c
        # 10. HISTORIES: one long-lived AtomicSaver object, several saves, the world changes in between
        for c in self.history_family(full):
            yield c
        # 11. (round 5) every call x the errno family; where an errno makes the code take another way, its interleavings
        for c in self.errno_family(full, 1):
            yield c
        # 2. what the with-block does besides writing (closes the file itself, writes after closing, flushes)
        #    x how it ends, with every single fault; then the ways a block can raise
        for (ow, dm), (ops, raises) in itertools.product(((1, 0o644), (0, None)), self.SCRIPTS):
            for c in self.with_plans(script(mk(ow=ow, dm=dm), ops, raises), appear=False):
                yield c
        for kind in sorted(BODY_EXC):
            for ow, dm, rm in ((1, 0o644, 1), (0, None, 1), (1, None, 0)):
                for c in self.with_plans(mk(ow=ow, dm=dm, rm=rm, raises=kind), appear=False,
                                         codes=(1001,) if kind in (1, 2) else ()):
                    yield c
        for c in self.with_plans(script(mk(txt=1, dm=0o600), [self.N1, 'c'], 0), appear=False):
            yield c
        # 3. every call failing with something that is not an errno-carrying OSError
        for ow, dm, perms, txt in ((1, 0o600, None, 0), (0, None, None, 1), (1, None, 0o600, 0)):
            for raises in (0, 1):
                for c in self.with_plans(mk(ow=ow, dm=dm, perms=perms, txt=txt, raises=raises), appear=False, alt=True,
                                         codes=QUICK_CODES):
                    if c['plan']:
                        yield c
        # 4. every pair of faults (errno and exception-class) on a few configurations
        for ow, dm, perms, owp, pm in ((1, 0o644, None, 0, None), (0, None, 0o600, 0, None), (1, None, None, 1, 0o640)):
            for raises in (0, 1):
                for c in self.with_plans(mk(ow=ow, dm=dm, perms=perms, owp=owp, pm=pm, raises=raises), appear=ow == 0,
                                         pairs=True, codes=(1001, 1002)):
                    if len(c['plan']) == 2:
                        yield c
        # 5. the buffering argument (0 = unbuffered, refused by Python in text mode; 1 = line buffered; sizes around the data)
        for txt, buf in ((0, 0), (1, 0), (1, 1), (0, 2), (0, 3), (1, 4), (0, 65536)):
            for dm, raises in ((0o644, 0), (None, 1)):
                wr = ('4e45', '5731320a', '33') if buf else ('4e455731',)
                for c in self.with_plans(mk(txt=txt, dm=dm, raises=raises, writes=wr, buf=buf), appear=False):
                    yield c
        # 6. one AtomicSaver instance used several times (reuse=1: the retry runs on the same object; reuse=2: moreover the
        #    object has already been through a save whose block raised)
        for dm, um, perms, ow in itertools.product((None, 0o644, 0o600), (0o022, 0o077), (None, 0o640), (1, 0)):
            for raises in (0, 1):
                for c in self.with_plans(mk(ow=ow, dm=dm, umask=um, perms=perms, raises=raises, reuse=1 + (raises + ow) % 2),
                                         appear=False):
                    yield c
        # 7. permission bits beyond rwx (sticky), requested explicitly or carried by the replaced file
        #    and the boundary value: permissions equal to the built-in default 0666
        for perms, dm, um in ((0o1644, None, 0o022), (None, 0o1640, 0o022), (0o1600, 0o644, 0o022), (0o7, 0o1644, 0o022),
                              (0o666, None, 0o022), (0o666, 0o600, 0o077), (None, 0o666, 0o022), (None, 0o666, 0o077), (0o777, None, 0o027)):
            for c in self.with_plans(mk(perms=perms, dm=dm, umask=um), appear=False):
                yield c
        # 9. the descriptor-flag calls of set_cloexec() (fcntl.fcntl F_GETFD / F_SETFD) as fault sites of their own: the
        #    code treats them as best effort, but whatever escapes from them must go through the cleanup
        for ow, dm, perms, rm in ((1, 0o644, None, 1), (0, None, 0o600, 1), (1, None, None, 0)):
            for raises in (0, 1):
                for c in self.with_plans(mk(ow=ow, dm=dm, perms=perms, rm=rm, raises=raises, cloexec=1), appear=False,
                                         codes=(1001, 1002), pairs=(ow == 1 and rm == 1 and not raises)):
                    yield c
        # 12. (round 5) the other ways of saying the same save: flags as ints / as objects that only have a truth value (and an
        #     `==` that agrees with everything), the AtomicSaver class called directly, setup() / part_file / __exit__() by hand
        #     instead of `with`, the destination as a pathlib.Path / with redundant path components - x every single fault
        forms = [dict(kwform=1), dict(kwform=2), dict(api=1), dict(proto=1), dict(pathform=1), dict(pathform=2), dict(pathform=3),
                 dict(kwform=2, api=1, proto=1, pathform=1), dict(kwform=1, proto=1, reuse=1), dict(kwform=2, reuse=2, pathform=2)]
        cfgs = [mk(ow=1, dm=0o644), mk(ow=0, dm=None), mk(ow=0, dm=0o600), mk(owp=1, pm=0o640, dm=0o600), mk(owp=0, pm=0o640),
                mk(rm=0, raises=1), mk(txt=1, perms=0o640), mk(ow=0, owp=1, rm=0, txt=1, raises=2)]
        for fi, fm in enumerate(forms):
            for ci, cfg in enumerate(cfgs):
                if full or fi < 4 or (fi + ci) % 2 == 0:
                    for c in self.with_plans(dict(cfg, **fm), appear=(cfg['ow'] == 0 and cfg['dest'] is None)):
                        yield c
        # 13. (round 5) identity coincidences: a part_file that IS the destination (as such, via ./, via sub/../): refused or
        #     worked around, but the destination is never created empty / written in place / unlinked by overwrite_part
        for pf in (DEST, './' + DEST, 'sub/../' + DEST, '../@DIR@/' + DEST):
            for ow, owp, dm, raises in itertools.product((1, 0), (0, 1), (None, 0o644), (0, 1)):
                yield mk(ow=ow, owp=owp, dm=dm, raises=raises, pf=pf, plan=[])
        # 8. a write larger than any buffer; writes at the buffer size and one byte off it, a buffering argument equal to the data
        big = (bytes(range(48, 112)) * 400).hex()
        for c in self.with_plans(mk(dm=0o644, writes=('4e45', big)), appear=False):
            yield c
        for n, buf in ((8191, None), (8192, None), (8193, None), (16384, None), (8192, 8192), (255, 256), (256, 256), (257, 256)):
            extra = {} if buf is None else {'buf': buf}
            for c in self.with_plans(mk(dm=0o600, writes=((b'%d|' % n + b'z' * n)[:n].hex(), '21'), **extra), appear=False):
                yield c

    ENV_MOVES = [['c', 0o600], ['c', 0o664], ['d'], ['p', 0o640, b'OTHER-WRITER'.hex()], ['u', 0o027], ['c', 0o755],
                 ['p', 0o444, '-'], ['u', 0]]

    @staticmethod
    def sv(k, who=0, raises=0, plan=(), ops=None):
        """save number k of a history: writes b'V<k>' (so the content says which save it came from)"""
        return ['s', {'who': who, 'ops': list(ops) if ops is not None else ['w' + ('V%d' % k).encode().hex()], 'raises': raises,
                      'plan': [list(x) for x in plan]}]

    def history_family(self, full):
        """one saver object used for several saves while the world changes between the uses: the destination is chmod-ed,
        deleted, replaced by another writer's file with another mode, the process umask changes; file_perms explicit or
        None; text / binary; the first use completes, or its block raises, or a call of it fails; then every single fault
        position of a LATER save; two long-lived saver objects with different file_perms taking turns; a fresh saver in between"""
        mk, sv, moves = self.mk, self.sv, self.ENV_MOVES
        bases = [mk(ow=ow, perms=perms, txt=txt, dm=dm, plan=[]) for perms, txt, dm, ow in
                 itertools.product((None, 0o640), (0, 1), (None, 0o644, 0o600), (1, 0))]
        for bi, base in enumerate(bases):
            for mi, mv in enumerate(moves):
                # a. save, the world moves, save again through the same object
                yield dict(base, hist=[mv, sv(2)])
                if base['ow']:
                    # b. the first use fails (the block raises / fdopen fails), then the world moves, then the same object retries
                    yield dict(base, raises=1, hist=[mv, sv(2)])
                    if full or (bi + mi) % 2 == 0:
                        yield dict(base, plan=[[2 if base['perms'] is None else 1, errno.ENOMEM]], hist=[mv, sv(2)])
                # c. three uses, two moves
                mv2 = moves[(mi + 3 + bi) % len(moves)]
                if full or (bi + mi) % 3 == 0:
                    yield dict(base, hist=[mv, sv(2), mv2, sv(3)])
                    yield dict(base, hist=[mv, sv(2, raises=1), mv2, sv(3)])
                    yield dict(base, hist=[mv, mv2, sv(2), sv(3, who='n'), moves[(mi + 5) % len(moves)], sv(4)])
        # d. two long-lived objects with different explicit / implicit permissions taking turns
        for perms, alt in ((None, 0o600), (0o640, None), (None, None), (0o604, 0o640)):
            for dm in (None, 0o644):
                for mv in moves[:5]:
                    yield dict(mk(perms=perms, dm=dm, plan=[]), alt={'perms': alt},
                               hist=[sv(2, who=1), mv, sv(3, who=0), moves[1], sv(4, who=1)])
                    yield dict(mk(perms=perms, dm=dm, plan=[], txt=1), alt={'perms': alt, 'ow': 0},
                               hist=[mv, sv(2, who=1), ['d'], sv(3, who=1), sv(4, who=0)])
        # f. the part file name changes hands between the uses: a part file left behind by another (crashed) saver appears,
        #    is removed again - "never reused or overwritten unless overwrite_part" holds at the time of EACH save
        stale = ['P', 0o600, b'foreign-part'.hex()]
        for owp, rm, ow, dm in itertools.product((0, 1), (1, 0), (1, 0), (None, 0o644)):
            base = mk(ow=ow, owp=owp, rm=rm, dm=dm, plan=[])
            yield dict(base, hist=[stale, sv(2), ['Q'], sv(3)])
            yield dict(base, hist=[stale, sv(2, who='n'), sv(3), moves[0], ['Q'], sv(4)])
            if ow:
                yield dict(base, raises=1, hist=[stale, sv(2), sv(3, raises=1), ['Q'], sv(4)])
                yield dict(base, hist=[stale, sv(2, plan=[[0, errno.EIO]]), ['Q'], stale, sv(3), ['Q'], sv(4)])
        # g. (round 5) what an EARLIER use learned about the file system must not weaken a later one: a use whose publishing
        #    call failed with a "cannot do it here" errno (on the same object, on a second object, on a fresh one), then
        #    a save during which the destination appears at each call boundary / whose publishing call fails the ordinary way
        taw = errno_values(source_errnos() + TRY_ANOTHER_WAY)
        for ow, dm in ((0, None), (1, 0o644)):
            base = mk(ow=ow, dm=dm, plan=[])
            calls = self.learn_calls(base)
            ks = [k for k, name in enumerate(calls) if name in PUBLISH_CALLS]
            for k in ks[:1]:
                for ei, e in enumerate(taw if full else taw[:5]):
                    for who in (0, 'n', 1):
                        if not full and who == 1 and ei > 1:
                            continue
                        first = dict(base, plan=[[k, e]], alt={})
                        for j in (range(len(calls)) if (ow == 0 and (full or who == 0 or ei < 2)) else ()):
                            yield dict(first, hist=[sv(2, who=who, plan=[[j, 'A']])])
                        yield dict(first, hist=[sv(2, who=who), ['d'], sv(3, who=who, plan=[[k, SITE_ERRNO[calls[k]]]]), sv(4, who=who)])
        # h. (round 5) the module-level helpers called by somebody else between the uses - every argument form, succeeding,
        #    failing with a "cannot do it here" errno, failing because the target exists - then saves that meet interference
        helper = [(0, 0), (1, 0), (2, 0), (3, 0), (4, 0), (0, 'x'), (2, 'x')] + [(fm, e) for e in taw[:4] for fm in (0, 2, 1)]
        for hi, (fm, fault) in enumerate(helper):
            for ow in (0, 1):
                base = mk(ow=ow, dm=None if ow == 0 else 0o644, plan=[])
                ncalls = len(self.learn_calls(base))
                yield dict(base, hist=[['r', fm, fault], sv(2), ['d'], ['r', fm, fault], sv(3, who='n')])
                if ow == 0:
                    for j in (range(ncalls) if (full or hi % 3 == 0) else (ncalls - 2, ncalls - 1)):
                        yield dict(base, hist=[['d'], ['r', fm, fault], sv(2, who=hi % 2 and 'n' or 0, plan=[[j, 'A']])])
        # e. every single fault position of the SECOND save of a history (and of the third)
        sel = [(mk(dm=0o644, plan=[]), moves[0]), (mk(dm=None, plan=[]), moves[4]), (mk(dm=0o600, perms=0o640, plan=[]), moves[2]),
               (mk(ow=0, dm=None, plan=[]), moves[2]), (mk(dm=0o644, txt=1, plan=[]), moves[3])]
        for base, mv in (sel if full else sel[:4]):
            c0 = dict(base, hist=[mv, sv(2), moves[5], sv(3)])
            obs = self.run_case(c0)
            for idx in (1, 3):
                calls = obs['steps'][idx].get('log', []) if len(obs.get('steps', [])) > idx else []
                for kk, name in enumerate(calls):
                    h = [mv, sv(2), moves[5], sv(3)]
                    h[idx] = sv(idx // 2 + 2, plan=[[kk, SITE_ERRNO.get(name, errno.EIO)]])
                    yield dict(base, hist=h)
                    if idx == 1 and kk % 3 == 0:
                        h2 = list(h)
                        h2[idx] = sv(2, plan=[[kk, 1001]])
                        yield dict(base, hist=h2)

    def random_history(self):
        rng = self.rng
        h = []
        k = 1
        for _ in range(rng.choice([1, 2, 2, 3, 4, 6])):
            r = rng.random()
            if r < 0.5:
                mv = rng.choice(self.ENV_MOVES + [['c', rng.choice([0o400, 0o640, 0o666, 0o1644, 0o777, 0])],
                                                  ['u', rng.choice([0o022, 0o077, 0o002])],
                                                  ['p', rng.choice([0o600, 0o644, 0o660]), bytes([rng.randrange(65, 91)] * rng.choice([1, 5])).hex()]])
                h.append(list(mv) if rng.random() < 0.85 else rng.choice([['P', 0o600, b'foreign-part'.hex()], ['Q'],
                                                                          ['r', rng.randrange(5), rng.choice([0, 'x', errno.EPERM, errno.EXDEV])]]))
            if r >= 0.3 or not h:
                k += 1
                plan = []
                if rng.random() < 0.3:
                    plan = [[rng.randrange(0, 12), rng.choice([errno.ENOSPC, errno.EIO, errno.EPERM, 1001, 1002, 'A', errno.ENOSYS, errno.EXDEV])]]
                h.append(self.sv(k, who=rng.choice([0, 0, 0, 1, 'n']), raises=(1 if rng.random() < 0.2 else 0), plan=plan))
        if h[-1][0] != 's':
            h.append(self.sv(k + 1))
        return h

    def cases(self, budget_s):
        full = self.thorough
        cfgs = self.base_configs()
        sel = list(range(len(cfgs)))
        self.rng.shuffle(sel)
        rank = {ci: r for r, ci in enumerate(sel)}
        for c in self.small_families(full):
            yield c
        # custom part file name
        for i, cfg in enumerate(cfgs):
            if rank[i] % 40 == 1:
                for c in self.with_plans(dict(cfg, writes=['4e455731'], raises=0, pf='x.tmp'), appear=False):
                    yield c
        # relative destination path + chdir() inside the block (outside the Lean model: oracle only)
        for ow, rm, raises, dm in itertools.product((1, 0), (1, 0), (0, 1), (None, 0o644)):
            yield dict(ow=ow, owp=0, rm=rm, txt=0, perms=None, umask=0o022, dest=None if dm is None else [dm, hx(OLD)],
                       part=None, writes=['4e455731'], raises=raises, plan=[], chdir=1)
        for c in self.random_cases(1500 if full else 150):
            yield c
        for i, cfg in enumerate(cfgs):
            # quick: every configuration with the plain body and every single fault; a seeded third of
            # them also with the other bodies and the "destination appears" positions
            rich = full or rank[i] % 3 == 0
            for bi, (writes, raises) in enumerate(self.BODIES if rich else self.BODIES[:1]):
                base = dict(cfg, writes=writes, raises=raises)
                for c in self.with_plans(base, appear=rich, alt=full, pairs=full and bi in (0, 2, 3)):
                    yield c
            if full or rank[i] % 16 == 5:
                ops, raises = self.SCRIPTS[rank[i] % len(self.SCRIPTS)]
                for c in self.with_plans(self.script(cfg, ops, raises), appear=full, codes=QUICK_CODES if full else (1001,)):
                    yield c
        for c in self.random_cases(3500 if full else 250):
            yield c

    def deep_cases(self, budget_s):
        for c in self.small_families(True):
            yield c
        cfgs = self.base_configs()
        self.rng.shuffle(cfgs)
        for cfg in cfgs:
            for writes, raises in self.BODIES:
                for c in self.with_plans(dict(cfg, writes=writes, raises=raises), alt=True, pairs=writes == ['4e455731'],
                                         codes=(1001,)):
                    yield c

    def random_cases(self, n):
        rng = self.rng
        for _ in range(n):
            dm = rng.choice([None, 0o644, 0o600, 0o664, 0o400, 0o1644])
            pm = rng.choice([None, None, 0o640, 0o600])
            nw = rng.choice([0, 1, 1, 2, 3, 5])
            sizes = [1, 2, 7, 40] + ([9000] if rng.random() < 0.03 else [])
            ops = ['w' + bytes(rng.randrange(32, 127) for _ in range(rng.choice(sizes))).hex() for _ in range(nw)]
            if rng.random() < 0.3:
                for _ in range(rng.choice([1, 1, 2])):
                    ops.insert(rng.randrange(len(ops) + 1), rng.choice(['f', 'c', 'f', 'c', 'w41']))
            plan = []
            idxs = sorted(rng.sample(range(0, 14 + len(ops)), rng.choice([0, 1, 1, 2, 2, 3])))
            for k in idxs:
                plan.append([k, rng.choice(['A', 'A', errno.ENOSPC, errno.EIO, errno.EPERM, errno.EEXIST, errno.EACCES, errno.EINTR,
                                            1001, 1002, rng.choice(sorted(EXC_CODES)),
                                            rng.choice(errno_values(source_errnos() + TRY_ANOTHER_WAY)),
                                            rng.choice(errno_values(ERRNO_CLASS_NAMES))])])
            c = dict(ow=rng.randrange(2), owp=rng.randrange(2), rm=rng.randrange(2), txt=rng.randrange(2),
                     perms=rng.choice([None, None, 0o600, 0o644, 0o640, 0o755, 0o444, 0, 0o200, 0o1666]),
                     umask=rng.choice([0o022, 0o077, 0, 0o027, 0o002]),
                     dest=None if dm is None else [dm, bytes(rng.randrange(32, 127) for _ in range(rng.choice([0, 3, 11]))).hex() or '-'],
                     part=None if pm is None else [pm, hx(STALE)],
                     writes=[op[1:] for op in ops if op[0] == 'w'],
                     raises=(rng.choice([1, 1, 1, 2, 3, 4, 5, 6, 7]) if rng.random() < 0.4 else 0), plan=plan,
                     **({'pf': 'other.part'} if rng.random() < 0.15 else {}))
            if any(op[0] != 'w' for op in ops):
                c['ops'] = ops
            if rng.random() < 0.2:
                c['buf'] = rng.choice([0, 1, 2, 5, 4096]) if c['txt'] else rng.choice([0, 2, 5, 4096])
            if rng.random() < 0.25:
                c['reuse'] = 2 if (c['rm'] and c['part'] is None and rng.random() < 0.5) else 1
            elif rng.random() < 0.3:
                c['hist'] = self.random_history()
                if rng.random() < 0.4:
                    c['alt'] = {'perms': rng.choice([None, 0o600, 0o664]), 'ow': rng.randrange(2)}
            if rng.random() < 0.15:
                c['cloexec'] = 1
            if rng.random() < 0.2:
                c[rng.choice(FORM_KEYS)] = 1
                if rng.random() < 0.5:
                    c.update(rng.choice([dict(kwform=2), dict(pathform=2), dict(pathform=3), dict(proto=1, api=1)]))
            yield c

    # ------------------------------------------------------------------ model line: the OBSERVED trace
    def in_model(self, case):
        if case.get('chdir'):
            return False    # process-level cwd is not part of the model
        if case['txt'] and case.get('buf') == 0:
            return False    # Python itself refuses unbuffered text I/O (os.fdopen raises ValueError): oracle only
        if self.pf_is_dest(case):
            return False    # the part-file name IS the destination: one name, not two (oracle only)
        return True

    @staticmethod
    def pf_is_dest(case):
        pf = case.get('pf')
        return bool(pf) and os.path.normpath(os.path.join('/d', pf.replace('@DIR@', 'd'))) == os.path.normpath(os.path.join('/d', DEST))

    @staticmethod
    def _head(case):
        def f(x):
            return '-' if x is None else '%d:%s' % (x[0], x[1])
        return ['%d%d%d%d' % (case['ow'], case['owp'], case['rm'], case['txt']),
                '-' if case['perms'] is None else str(case['perms']), str(case['umask']),
                f(case['dest']), f(case['part']), str(1 if case['raises'] else 0)]

    def line(self, case):
        if not self.in_model(case):
            return None
        k = self.key(case)
        cache = self.__dict__.setdefault('_obs_cache', {})
        obs = cache.pop(k, None)
        if obs is None:
            obs = self.run_case(case)
        if len(cache) > 2000:
            cache.clear()
        if case.get('hist') is not None:
            return self.line_history(case, obs)
        # the transliteration on the same case (statistics only): queried in one batch at the next render()
        ops = ops_of(case)
        toks = [op[1:] if op[0] == 'w' else op.upper() for op in ops]
        ref = ' '.join(['REF'] + self._head(case) + [','.join(toks) or '-',
                                                    ','.join('%d:%s' % (kk, a) for kk, a in case['plan']) or '-'])
        if not case.get('cloexec'):      # (the transliteration does not count the fcntl calls)
            self.__dict__.setdefault('_ref_pending', []).append((ref, self.render_ref(obs)))
        o1, o2 = obs['first'], obs['retry']
        return ' '.join(self._head(case) + [
            new_hex(case),
            str(int(o1['out'] == 'ok')), ','.join(o1.get('trace') or []) or '-',
            str(int(o2['out'] == 'ok')), ','.join(o2.get('trace') or []) or '-',
            ','.join(o1.get('raw') or []) or '-', ','.join(o2.get('raw') or []) or '-'])

    def line_history(self, case, obs):
        """HIST <umask> <dest> <part> <step>... : every save of the history with ITS configuration and observed trace
        (S/<flags>/<perms>/<raises>/<content>/<ok>/<trace>/<raw records>), the moves of the world in between (E/c<mode>, E/d,
        E/p<mode>:<hex>, E/u<umask>); the driver judges each save by C05.Accept with the state that save starts from"""
        def f(x):
            return '-' if x is None else '%d:%s' % (x[0], x[1])

        def sv(o, ops, raises):
            cfg = o['cfg']
            return '/'.join(['S', '%d%d%d%d' % (cfg['ow'], cfg['owp'], cfg['rm'], cfg['txt']),
                             '-' if cfg['perms'] is None else str(cfg['perms']), str(1 if raises else 0),
                             ''.join(op[1:] for op in ops if op[0] == 'w') or '-', str(int(o['out'] == 'ok')),
                             ','.join(o.get('trace') or []) or '-', ','.join(o.get('raw') or []) or '-'])
        words = ['HIST', str(case['umask']), f(case['dest']), f(case['part']), sv(obs['first'], ops_of(case), case['raises'])]
        for st, so in zip(case['hist'], obs['steps']):
            if st[0] == 's':
                words.append(sv(so, list(st[1].get('ops') or []), st[1].get('raises', 0)))
            elif st[0] == 'r':
                continue        # somebody else's call on unrelated files: no step of the model
            elif st[0] in 'pP':
                words.append('E/%s%d:%s' % (st[0], st[1], st[2]))
            elif st[0] in 'dQ':
                words.append('E/' + st[0])
            else:
                words.append('E/%s%d' % (st[0], st[1]))
        return ' '.join(words)

    def flush_ref(self):
        pend = self.__dict__.get('_ref_pending')
        if not pend:
            return
        self._ref_pending = []
        st = self.stats
        try:
            drv = self.__dict__.get('_ref_driver')
            if drv is None:
                drv = self._ref_driver = Driver(self.PID)
            outs = drv.query([r for r, _ in pend])
        except Exception as e:      # statistics only: never an infrastructure error of the check
            st['ref_model:not-run'] = st.get('ref_model:not-run', 0) + len(pend)
            st.setdefault('ref_model:error', repr(e)[:200])
            return
        for (ref, mine), out in zip(pend, outs):
            if out == mine:
                st['ref_model:exact-agreement'] = st.get('ref_model:exact-agreement', 0) + 1
            else:
                st['ref_model:differs'] = st.get('ref_model:differs', 0) + 1
                st.setdefault('ref_model:first-difference', '%s | impl %s | runScript %s' % (ref, mine, out))

    # ------------------------------------------------------------------ implementation
    def impl(self, case):
        memo = self.__dict__.get('_memo')
        obs = None
        if memo:
            obs = memo.pop(self.key(case), None)
        if obs is None:
            obs = self.run_case(case)
        if self.in_model(case):
            self.__dict__.setdefault('_obs_cache', {})[self.key(case)] = obs     # line() sends the observed trace
        return obs

    def run_case(self, case):
        import boltons.fileutils as fu
        d = tempfile.mkdtemp(prefix='bvC05-', dir=scratch_base())
        d2 = tempfile.mkdtemp(prefix='bvC05b-', dir=scratch_base()) if case.get('chdir') else None
        old_umask = os.umask(0o022)
        old_cwd = os.getcwd()
        obs = {}
        try:
            dest = os.path.join(d, DEST)
            part = os.path.normpath(os.path.join(d, (case.get('pf') or PART).replace('@DIR@', os.path.basename(d))))
            for path, spec in ((dest, case['dest']), (part, case['part'])):
                if spec is not None:
                    with open(path, 'wb') as f:
                        f.write(b'' if spec[1] == '-' else bytes.fromhex(spec[1]))
                    os.chmod(path, spec[0])
                    if stat.S_IMODE(os.lstat(path).st_mode) != spec[0]:
                        obs['env'] = 'the scratch file system does not keep mode %o' % spec[0]
            os.umask(case['umask'])
            kw = self.kwargs_of(case, case, d)
            plan = {k: a for k, a in case['plan']}
            ops = ops_of(case)
            if case.get('hist') is not None:
                self.run_history(fu, d, dest, part, case, obs)
                return obs
            holder = {} if case.get('reuse') else None
            forms = {k: case[k] for k in FORM_KEYS if case.get(k)}
            if case.get('reuse') == 2 and case['rm'] and case['part'] is None and not d2:
                # the instance has been used before: a save whose block raises at once (it must leave everything as it was)
                w = self.one_save(fu, d, dest, kw, [], 1, {}, case['txt'], holder=holder, forms=forms)
                obs['warm'] = {k: w[k] for k in ('out', 'dest', 'part', 'extra')}
            if d2:
                os.chdir(d)
                obs['first'] = self.one_save(fu, d, dest, kw, ops, case['raises'], plan, case['txt'], rel=DEST, chdir_to=d2)
                os.chdir(old_cwd)
            else:
                obs['first'] = self.one_save(fu, d, dest, kw, ops, case['raises'], plan, case['txt'], holder=holder,
                                              cloexec=case.get('cloexec'), forms=forms)
            obs['retry'] = self.one_save(fu, d, dest, kw, ['w' + op[1:] for op in ops if op[0] == 'w'], 0, {}, case['txt'],
                                         holder=holder, cloexec=case.get('cloexec'), forms=forms)
        except CaseTimeout:
            obs['timeout'] = True
            obs.setdefault('first', {'out': 'exc:CaseTimeout', 'calls': 0, 'dest': None, 'part': None, 'extra': [], 'log': []})
            obs.setdefault('retry', {'out': 'exc:CaseTimeout', 'calls': 0, 'dest': None, 'part': None, 'extra': [], 'log': []})
        finally:
            fu.os = os
            if 'open' in fu.__dict__:
                del fu.__dict__['open']
            if isinstance(fu.__dict__.get('fcntl'), FcntlProxy):
                fu.fcntl = fu.fcntl.__dict__['_real']
            os.umask(old_umask)
            os.chdir(old_cwd)
            rm_scratch(d)
            if d2:
                rm_scratch(d2)
        return obs

    @staticmethod
    def kwargs_of(cfg, case, d=None):
        """keyword arguments of atomic_save for the configuration `cfg`; documented defaults are exercised by omitting the keyword"""
        kw = {}
        kwform = case.get('kwform') or 0
        for name, val, default in (('overwrite', cfg['ow'], 1), ('overwrite_part', cfg['owp'], 0),
                                   ('rm_part_on_exc', cfg['rm'], 1), ('text_mode', cfg['txt'], 0)):
            if kwform:
                kw[name] = int(bool(val)) if kwform == 1 else Flag(val)
            elif val != default:
                kw[name] = bool(val)
        if cfg['perms'] is not None:
            kw['file_perms'] = cfg['perms']
        if case.get('pf'):
            kw['part_file'] = case['pf']       # custom part file name (always in the destination's directory)
            if d and '@DIR@' in kw['part_file']:
                kw['part_file'] = kw['part_file'].replace('@DIR@', os.path.basename(d))
        if case.get('buf') is not None:
            kw['buffering'] = case['buf']
        return kw

    def run_history(self, fu, d, dest, part, case, obs):
        """a history: the case's own save, then the steps of case['hist'] on the same directory - the world changes
        (['c', mode] the destination is chmod-ed, ['d'] deleted, ['p', mode, hex] replaced by another writer's file,
        ['u', umask] the process umask changes, ['P', mode, hex] a part file appears under the part name, ['Q'] it is removed)
        and further saves (['s', {who, ops, raises, plan}]: `who` = 0 the SAME
        long-lived AtomicSaver object as the first save, 1 = a second long-lived object (configuration overrides `alt`),
        'n' = a fresh object).  The state each save starts from is measured (not predicted) just before it."""
        holders = {0: {}, 1: {}}
        um = case['umask']

        def save(who, ops, raises, plan):
            cfg = saver_cfg(case, who)
            start = {'dest': look(dest), 'part': look(part), 'umask': um}
            o = self.one_save(fu, d, dest, self.kwargs_of(cfg, case, d), ops, raises, {k: a for k, a in plan}, cfg['txt'],
                              holder=holders.get(who), cloexec=case.get('cloexec'),
                              forms={k: case[k] for k in FORM_KEYS if case.get(k)})
            o['start'] = start
            o['cfg'] = cfg
            o['who'] = who
            return o
        obs['first'] = save(0, ops_of(case), case['raises'], case['plan'])
        steps = obs['steps'] = []
        for st in case['hist']:
            kind = st[0]
            if kind == 's':
                sp = st[1]
                steps.append(save(sp.get('who', 0), list(sp.get('ops') or []), sp.get('raises', 0), sp.get('plan') or []))
                continue
            if kind == 'c':
                if os.path.lexists(dest):
                    os.chmod(dest, st[1])
            elif kind == 'd':
                if os.path.lexists(dest):
                    os.unlink(dest)
            elif kind == 'p':
                tmp = os.path.join(d, 'other-writer.tmp')
                with open(tmp, 'wb') as f:
                    f.write(b'' if st[2] == '-' else bytes.fromhex(st[2]))
                os.chmod(tmp, st[1])
                os.rename(tmp, dest)
            elif kind == 'u':
                um = st[1]
                os.umask(um)
            elif kind == 'P':
                if os.path.lexists(part):
                    os.unlink(part)
                with open(part, 'wb') as f:
                    f.write(b'' if st[2] == '-' else bytes.fromhex(st[2]))
                os.chmod(part, st[1])
            elif kind == 'Q':
                if os.path.lexists(part):
                    os.unlink(part)
            elif kind == 'r':
                self.helper_call(fu, d, st[1], st[2])
            steps.append({'env': kind, 'dest': look(dest), 'part': look(part)})

    @staticmethod
    def helper_call(fu, d, form, fault):
        """(round 5) the module-level helpers the saver publishes with, called by SOMEBODY ELSE on two unrelated files of the
        same directory, in each argument form they accept - and failing (an injected errno at their first call, or the target
        existing): whatever they learn or leave behind must not change what a later save does"""
        a, b = os.path.join(d, 'other-a.tmp'), os.path.join(d, 'other-b.tmp')
        with open(a, 'wb') as f:
            f.write(b'unrelated')
        if fault == 'x':
            with open(b, 'wb') as f:
                f.write(b'in the way')
        spy = Spy5(b, plan={0: fault} if isinstance(fault, int) and fault else {})
        try:
            spy.install()
            try:
                if form == 0:
                    fu.atomic_rename(a, b)
                elif form == 1:
                    fu.atomic_rename(a, b, True)
                elif form == 2:
                    fu.atomic_rename(src=a, dst=b, overwrite=False)
                elif form == 3:
                    fu.replace(a, b)
                else:
                    fu._atomic_rename(a, b, overwrite=True)
            finally:
                spy.uninstall()
        except Exception:
            pass
        for p in (a, b):
            if os.path.lexists(p):
                os.unlink(p)

    def one_save(self, fu, d, dest, kw, ops, raises, plan, txt, rel=None, chdir_to=None, holder=None, cloexec=False, forms=None):
        forms = forms or {}
        partname = kw.get('part_file') or PART
        spy = Spy5(dest, plan=plan)
        spy.cloexec = bool(cloexec)
        spy.part_path = os.path.join(d, partname)     # the name the part file must have (roles of failed / early calls)
        out = 'ok'
        mk = BODY_EXC.get(raises)
        body_exc = mk() if mk else None
        closed_by_body = False
        try:
            with time_limit(10):
                spy.install()
                try:
                    if holder is not None and 'saver' in holder:
                        saver = holder['saver']          # the same AtomicSaver instance, used a second time
                    else:
                        make = fu.AtomicSaver if forms.get('api') else fu.atomic_save
                        saver = make(rel or dest_arg(dest, forms.get('pathform')), **kw)
                        if holder is not None:
                            holder['saver'] = saver

                    def block(f):
                        nonlocal closed_by_body
                        for op in ops:
                            if op[0] == 'w':
                                b = bytes.fromhex(op[1:])
                                f.write(b.decode('latin-1') if txt else b)
                            elif op == 'f':
                                f.flush()
                            elif op == 'c':
                                closed_by_body = True
                                f.close()
                        if chdir_to:
                            os.chdir(chdir_to)
                        if body_exc is not None:
                            raise body_exc
                    if forms.get('proto'):
                        # the documented use without `with`: setup(), write to part_file, __exit__ by hand
                        saver.setup()
                        try:
                            block(saver.part_file)
                        except BaseException as be:
                            if not saver.__exit__(type(be), be, be.__traceback__):
                                raise
                        else:
                            saver.__exit__(None, None, None)
                    else:
                        with saver as f:
                            block(f)
                finally:
                    spy.uninstall()
        except CaseTimeout:
            raise
        except BaseException as e:
            if e is body_exc:
                out = 'body'
            elif isinstance(e, OSError):
                out = 'os:%s' % (e.errno,)
            elif isinstance(e, Exception):
                out = 'exc:' + exc_name(e)
            else:
                out = 'exc:' + exc_name(e)      # a BaseException that is not the block's own

        names = sorted(os.listdir(d))
        log = []
        pub = False
        created = False
        unlink_faulted = False
        appeared = False
        pub_index = None
        for r in spy.log:
            if r['i'] is None:
                continue
            log.append(r['call'])
            roles = [spy.role(p) for p in r['paths']]
            if r.get('appear') and r.get('appeared'):
                appeared = True
            if r['ok'] and r['call'] in ('os.rename', 'os.replace', 'os.link') and roles[-1:] == ['dest']:
                pub = True
                if pub_index is None:
                    pub_index = r['i']
            if r['ok'] and r['call'] in ('os.open', 'open') and r.get('wr') and roles[0] == 'part':
                created = True
            if r.get('injected') and r['call'] in ('os.unlink', 'os.remove'):
                unlink_faulted = True
        faults = [[r['i'], r['call']] for r in spy.log if r.get('injected')]
        fault_cls = sorted({r['cls'] for r in spy.log if r.get('injected') and r.get('cls')})
        appear_at = [r['i'] for r in spy.log if r.get('appeared')]
        return {'out': out, 'calls': spy.n, 'dest': look(dest), 'part': look(os.path.join(d, partname)),
                'extra': [n for n in names if n not in (DEST, partname)], 'log': log, 'pub': pub, 'pub_index': pub_index,
                'created': created, 'unlink_faulted': unlink_faulted, 'faults': faults, 'appear_at': appear_at,
                'fault_cls': fault_cls, 'closed_by_body': closed_by_body, 'trace': spy.observations(), 'raw': spy.raw_records()}

    def render(self, case, obs):
        """what an accepted, executable trace must give: the REAL destination and part file"""
        self.flush_ref()

        def f(x):
            return '-' if x is None else '%d:%s' % (x[0], x[1])

        def half(o):
            s = 'acc=0 exec=ok nat=ok cls=ok dest=%s part=%s' % (f(o['dest']), f(o['part']))
            if o['extra']:
                s += ' extra=' + ','.join(o['extra'])      # the model knows two names only
            return s
        if case.get('hist') is not None:
            return ' | '.join([half(obs['first'])] + [
                ('env dest=%s part=%s' % (f(so['dest']), f(so['part']))) if 'env' in so else half(so) for so in obs['steps']
                if so.get('env') != 'r'])
        return half(obs['first']) + ' | ' + half(obs['retry'])

    def render_ref(self, obs):
        """the round-2 rendering (exception class / errno, number of calls, destination, part file) compared with runScript"""
        def f(x):
            return '-' if x is None else '%d:%s' % (x[0], x[1])

        def outc(s):
            # the two sides name an exception class by its number (EXC_CODES)
            if s == 'os:None':
                return 'os:1000'
            if s.startswith('exc:') and s[4:] in EXC_CODE_OF:
                return 'os:%d' % EXC_CODE_OF[s[4:]]
            return s

        def half(o):
            s = 'out=%s calls=%d dest=%s part=%s' % (outc(o['out']), o['calls'], f(o['dest']), f(o['part']))
            # the whole observed trace (without the `:<event>` annotation of natural failures)
            s += ' obs=' + (','.join(t.split(':')[0] if t[0] == 'F' else t for t in (o.get('trace') or [])) or '-')
            if o['extra']:
                s += ' extra=' + ','.join(o['extra'])
            return s
        return half(obs['first']) + ' | ' + half(obs['retry'])

    # ------------------------------------------------------------------ oracle (independent of the model)
    def oracle(self, case, obs):
        o = obs['first']
        st = self.stats
        st['saves'] = st.get('saves', 0) + 1
        st['out:' + o['out'].split(':')[0]] = st.get('out:' + o['out'].split(':')[0], 0) + 1
        for _, name in o.get('faults', []):
            st['fault@' + name] = st.get('fault@' + name, 0) + 1
        for k in ('ops', 'buf', 'reuse', 'cloexec', 'hist'):
            if case.get(k):
                st['with:' + k] = st.get('with:' + k, 0) + 1
        if case['raises']:
            st['raises:%d' % case['raises']] = st.get('raises:%d' % case['raises'], 0) + 1
        self._nt = False
        if obs.get('env'):
            st['env-skipped'] = st.get('env-skipped', 0) + 1
            return None         # the scratch file system cannot represent the initial state (e.g. drops the sticky bit)
        if obs.get('timeout') or 'first' not in obs:
            return Failure('unexpected-exception', 'the save did not terminate')
        w = obs.get('warm')
        if w is not None:
            # only generated with rm_part_on_exc on and no part file: the warm-up save (block raises) must change nothing
            if w['out'] == 'ok':
                return Failure('silent-failure', 'a save whose block raised ended without an exception')
            if w['dest'] != case['dest']:
                return Failure('dest-changed', 'destination was %r, is %r after a save whose block raised' % (case['dest'], w['dest']))
            if w['part'] is not None:
                return Failure('part-left', 'part file left behind after a save whose block raised (rm_part_on_exc on)')
        if self.pf_is_dest(case):
            self._nt = True
            return self.judge_alias(case, obs)
        if ((case.get('kwform') or case.get('pathform') == 1) and o['out'] not in ('ok', 'body') and not o['calls']
                and o['dest'] == case['dest'] and o['part'] == case['part'] and not o['extra']):
            # the documentation promises bool flags and a str path: an implementation may REFUSE ints / truth-value objects /
            # a pathlib.Path outright (before it touches anything); what it must not do is misread them
            st['form-refused'] = st.get('form-refused', 0) + 1
            self._nt = True
            return None
        f = self.judge_save(case, o)
        self._nt = not o['pub']
        if f is not None:
            return f
        if case.get('hist') is not None:
            return self.judge_history(case, obs)
        return self.judge_retry(case, obs)

    def judge_alias(self, case, obs):
        """`part_file` names the destination itself (as it stands, or through ./ or sub/../): there is no room for a part
        file.  Whatever the saver does about it - refuse, or pick another name and complete - the destination is never
        left created-empty / half-written / unlinked, nothing is left lying around, and a refusal is reported"""
        new = new_hex(case)
        prev = case['dest']
        for which in ('first', 'retry'):
            o = obs[which]
            if o['extra']:
                return Failure('part-left', 'part_file names the destination: files left behind: %r' % (o['extra'],))
            if o['out'] == 'ok' and not (case['raises'] and which == 'first'):
                if o['dest'] is None or o['dest'][1] != new:
                    return Failure('wrong-content', 'part_file names the destination: the save reported success, destination %r, expected content %r' % (o['dest'], new))
            elif o['out'] == 'ok':
                return Failure('silent-failure', 'part_file names the destination: the block raised but no exception reached the caller')
            elif o['dest'] != prev:
                return Failure('dest-changed', 'part_file names the destination: destination was %r, is %r after a %s save (%s)' % (
                    prev, o['dest'], 'refused / failed', o['out']))
            prev = o['dest']
        return None

    def judge_history(self, case, obs):
        """every save of a history is a save of its own: the property applies to it with the state it STARTS from
        (measured just before it: destination, part file, umask) - whatever the same saver object did or saw before"""
        k = 1
        told = ['save #1']
        prev_dest, prev_part = obs['first']['dest'], obs['first']['part']
        for st, so in zip(case['hist'], obs['steps']):
            if st[0] == 'r':
                told.append('somebody calls %s on two unrelated files%s' % (
                    ('atomic_rename(a, b)', 'atomic_rename(a, b, True)', 'atomic_rename(src=, dst=, overwrite=False)', 'replace(a, b)',
                     '_atomic_rename(a, b, overwrite=True)')[st[1]], '' if not st[2] else ' (failing: %s)' % (st[2],)))
                if so['dest'] != prev_dest or so['part'] != prev_part:
                    return Failure('dest-changed', 'history [%s]: a helper call on unrelated files changed the destination / part file: %r -> %r, %r -> %r' % (
                        '; '.join(told), prev_dest, so['dest'], prev_part, so['part']))
                continue
            if st[0] != 's':
                prev_dest, prev_part = so['dest'], so['part']
                told.append('destination deleted' if st[0] == 'd' else 'part file removed' if st[0] == 'Q' else
                            ('chmod %o', 'destination replaced by another writer (mode %o)', 'umask %o',
                             'a part file (mode %o) appears')['cpuP'.index(st[0])] % st[1])
                if ((st[0] == 'd' and so['dest'] is not None) or (st[0] == 'p' and so['dest'] != [st[1], st[2]])
                        or (st[0] == 'c' and so['dest'] is not None and so['dest'][0] != st[1])):
                    self.stats['env-skipped'] = self.stats.get('env-skipped', 0) + 1
                    return None       # the scratch file system did not do what the harness asked: no verdict
                continue
            k += 1
            sp = st[1]
            ops = list(sp.get('ops') or [])
            sub = dict(so['cfg'], umask=so['start']['umask'], dest=so['start']['dest'], part=so['start']['part'],
                       ops=ops, writes=[op[1:] for op in ops if op[0] == 'w'], raises=sp.get('raises', 0),
                       plan=sp.get('plan') or [])
            for kk in ('buf', 'pf'):
                if case.get(kk) is not None:
                    sub[kk] = case[kk]
            who = so.get('who')
            told.append('save #%d (%s)' % (k, {0: 'the same AtomicSaver object', 1: 'a second long-lived AtomicSaver object',
                                                 'n': 'a fresh saver'}.get(who, who)))
            f = self.judge_save(sub, so)
            prev_dest, prev_part = so['dest'], so['part']
            if not so['pub']:
                self._nt = True
            if f is not None:
                return Failure(f.tag, 'history [%s]: %s (this save started with destination %r, umask %o, file_perms %s)' % (
                    '; '.join(told), f.what, so['start']['dest'] and ['%o' % so['start']['dest'][0], so['start']['dest'][1]],
                    so['start']['umask'], 'None' if sub['perms'] is None else '%o' % sub['perms']))
        return None

    def judge_save(self, case, o):
        """C05 on ONE save: `case` gives its configuration, the state it starts from (dest, part, umask), its with-block
        and plan; `o` what was observed"""
        # which exception class reaches the caller is not constrained by the statement ("the caller receives an exception");
        # what IS required is that a save with nothing in its way - no injected failure, the block neither raises nor closes
        # the file itself, no refusal, no pre-existing part file, a configuration Python accepts - completes
        if (o['out'] != 'ok' and not case['raises'] and not o.get('faults') and not o.get('appear_at')
                and (case['ow'] or case['dest'] is None) and (case['part'] is None or case['owp'])
                and not o.get('closed_by_body') and not (case['txt'] and case.get('buf') == 0) and not case.get('chdir')):
            return Failure('unexpected-exception', 'a save with nothing in its way (no fault, no refusal, the block ended normally) '
                           'raised %s' % o['out'])
        new = [None, new_hex(case)]
        completed = o['pub']
        pub_index = o['pub_index']
        before = (lambda i: pub_index is None or i < pub_index)
        # the destination "appears" immediately BEFORE the call carrying that index: an appearance at the index of
        # the publishing call itself still precedes the publication
        appeared_before = [i for i in o['appear_at'] if pub_index is None or i <= pub_index]
        init_dest = case['dest']
        # what "the destination's previous content and permissions" are
        prev = init_dest if init_dest is not None else ([ENV_MODE, hx(ENV_BYTES)] if appeared_before else None)
        listed_fault = [(i, n) for i, n in o['faults'] if n in LISTED_STEPS and before(i)]
        refused = (not case['ow']) and (init_dest is not None or bool(appeared_before))
        trigger = bool(case['raises']) or bool(listed_fault) or refused
        if trigger and completed:
            why = []
            if case['raises']:
                why.append('the block raised')
            if refused:
                why.append('overwrite=False and the destination existed' + (
                    '' if init_dest is not None else ' (created by another process before call #%d, %s the publishing call #%d: '
                    'its content is lost)' % (appeared_before[-1], 'which is' if appeared_before[-1] == pub_index else 'before', pub_index)))
            if listed_fault:
                why.append('call %r failed' % (listed_fault[:1],))
            # another writer's file silently replaced: the worst outcome, told apart so that the shrinker keeps the interleaving
            lost = refused and init_dest is None
            return Failure('clobbered' if lost else 'completed-despite-failure', 'the save was published although ' + ' and '.join(why))
        if not completed:
            if o['out'] == 'ok':
                return Failure('silent-failure', 'the save did not complete but no exception reached the caller')
            if o['dest'] != prev:
                return Failure('dest-changed', 'destination was %r, is %r after a failed save' % (prev, o['dest']))
        else:
            if o['dest'] is None or o['dest'][1] != new[1]:
                return Failure('wrong-content', 'published destination holds %r, expected %r' % (o['dest'], new[1]))
            if not o['appear_at']:
                want = case['perms'] if case['perms'] is not None else (
                    init_dest[0] if init_dest is not None else 0o666 & ~case['umask'])
                if o['dest'][0] != want:
                    return Failure('wrong-perms', 'published destination has mode %o, expected %o' % (o['dest'][0], want))
        # pre-existing part file
        if case['part'] is not None and not case['owp']:
            if o['part'] != case['part']:
                return Failure('part-reused', 'pre-existing part file %r became %r although overwrite_part is off' % (case['part'], o['part']))
            if o['out'] == 'ok':
                return Failure('part-reused', 'save succeeded over a pre-existing part file although overwrite_part is off')
        elif o['created'] and o['out'] != 'ok' and case['rm'] and not o['unlink_faulted']:
            if o['part'] is not None:
                return Failure('part-left', 'part file left behind after a failed save (rm_part_on_exc on, no unlink failed)')
        if not o['created'] and case['part'] is not None and o['part'] is not None and o['part'] != case['part']:
            return Failure('part-reused', 'pre-existing part file modified by a save that never created one')
        return None

    def judge_retry(self, case, obs):
        o = obs['first']
        new = [None, new_hex(case)]
        completed = o['pub']
        # retry: a second, fault-free save of the same data that starts in the state the first one left
        r = obs['retry']
        if r['out'] == 'exc:CaseTimeout':
            return Failure('unexpected-exception', 'the retry did not terminate')
        # (a configuration that Python itself refuses - unbuffered text mode - fails the same way every time)
        refused_by_python = bool(case['txt'] and case.get('buf') == 0)
        if (not completed and case['rm'] and not o['unlink_faulted'] and (case['part'] is None or case['owp'])
                and (case['ow'] or o['dest'] is None) and not refused_by_python):
            if r['out'] != 'ok' or r['dest'] is None or r['dest'][1] != new[1]:
                return Failure('retry-fails', 'an immediate retry after the failed save gives %s, destination %r' % (r['out'], r['dest']))
        # ... and is a save of its own, to which the property applies as well
        if o['part'] is not None and not case['owp']:
            if r['part'] != o['part'] or r['out'] == 'ok':
                return Failure('part-reused', 'retry: pre-existing part file %r became %r (outcome %s) although overwrite_part is off' % (
                    o['part'], r['part'], r['out']))
        if not case['ow'] and o['dest'] is not None:
            if r['out'] == 'ok' or r['dest'] != o['dest']:
                return Failure('completed-despite-failure', 'retry with overwrite=False over an existing destination: outcome %s, destination %r -> %r' % (
                    r['out'], o['dest'], r['dest']))
        if r['out'] == 'ok' and r.get('pub'):
            if r['dest'] is None or r['dest'][1] != new[1]:
                return Failure('wrong-content', 'retry: published destination holds %r, expected %r' % (r['dest'], new[1]))
            want = case['perms'] if case['perms'] is not None else (
                o['dest'][0] if o['dest'] is not None else 0o666 & ~case['umask'])
            if r['dest'][0] != want:
                return Failure('wrong-perms', 'retry%s: published destination has mode %o, expected %o' % (
                    ' on the same AtomicSaver instance' if case.get('reuse') else '', r['dest'][0], want))
        return None

    def nontrivial(self, case, obs):
        return getattr(self, '_nt', False)

    def shrink(self, case):
        plan = case['plan']
        for i in range(len(plan)):
            yield dict(case, plan=plan[:i] + plan[i + 1:])
        for i, (k, a) in enumerate(plan):
            if isinstance(a, int) and a >= 1000 and a != 1001:
                yield dict(case, plan=plan[:i] + [[k, 1001]] + plan[i + 1:])
        if case.get('ops') is not None:
            ops = case['ops']
            for i in range(len(ops)):
                o2 = ops[:i] + ops[i + 1:]
                c = dict(case, ops=o2, writes=[op[1:] for op in o2 if op[0] == 'w'])
                if all(op[0] == 'w' for op in o2):
                    del c['ops']
                yield c
        elif len(case['writes']) > 1:
            yield dict(case, writes=case['writes'][:1])
        if case['raises'] > 1:
            yield dict(case, raises=1)
        if case['raises']:
            yield dict(case, raises=0)
        if case['txt']:
            yield dict(case, txt=0)
        if case['umask'] != 0o022:
            yield dict(case, umask=0o022)
        if case['part'] is not None:
            yield dict(case, part=None)
        if case['owp']:
            yield dict(case, owp=0)
        if case['perms'] is not None:
            yield dict(case, perms=None)
        if case.get('hist'):
            h = case['hist']
            for i in range(len(h)):
                yield dict(case, hist=h[:i] + h[i + 1:])
            for i, st in enumerate(h):
                if st[0] == 's' and (st[1].get('plan') or st[1].get('raises') or st[1].get('who')):
                    for k2, v in (('plan', []), ('raises', 0), ('who', 0)):
                        if st[1].get(k2):
                            yield dict(case, hist=h[:i] + [['s', dict(st[1], **{k2: v})]] + h[i + 1:])
        for k in ('chdir', 'pf', 'buf', 'reuse', 'cloexec', 'alt') + FORM_KEYS:
            if case.get(k) is not None:
                yield {kk: v for kk, v in case.items() if kk != k}


PROPERTY = C05
