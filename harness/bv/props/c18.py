"""C18 - spooled files act the same in memory and on disk; MultiFileReader concatenates."""
import ast
import io
import itertools
import os
import tempfile

from bv.common import Property, Failure, time_limit, exc_name, CaseTimeout, REPO

EXOTIC = '\x0b\x0c\x1c\x1d\x1e\x85\u2028\u2029'          # str.splitlines boundaries besides CR / LF
B_UNITS = [b'a', b'x', b'\xc3\xa9', b'\n', b'\r\n', b'\r', b'\x00']
S_UNITS = ['a', 'x', '\xe9', '日', '\U0001f600', '\n', '\r\n', '\r']
S_WIDE = ['a', '\xe9', '日', '\U0001f600']
LINE_OPS = ('rl', 'rL', 'rs', 'n', 'it', 'dr')
ARG_OPS = ('r', 'rL', 'sk', 'sc', 'se')
# other spellings of the same operation (same token in the model line, same reference call):
#   tp = f.pos, gb = f.buf, lp = f.len (property, not len(f)), fn = f.fileno() (rolls over first), rm = f.read(-1)
ALIAS = {'tp': 't', 'gb': 'g', 'lp': 'l', 'fn': 'ro', 'rm': 'ra',
         # round 5: every argument form the methods accept (the io reference is always called positionally)
         #   ln = f.__len__(), nd = f.__next__(), rln = readline(None), rlk = readline(length=None),
         #   rs0 = readlines(0), rsk = readlines(sizehint=0), rsm = readlines(-1), rsn = readlines(None),
         #   rak = read(n=-1), rn = read(None) (SpooledBytesIO only), itr = list(iter(f)) / list(f.__iter__())
         'ln': 'l', 'nd': 'n', 'rln': 'rl', 'rlk': 'rl', 'rs0': 'rs', 'rsk': 'rs', 'rsm': 'rs', 'rsn': 'rs',
         'rak': 'ra', 'rn': 'ra', 'itr': 'it'}
# spellings of the ops that carry a number: rk = read(n=k), sk0 = seek(p, 0), skk = seek(pos=p, mode=os.SEEK_SET),
# sck = seek(pos=n, mode=os.SEEK_CUR), rLk = readline(length=n) (bytes)
ARG_ALIAS = {'rk': 'r', 'sk0': 'sk', 'skk': 'sk', 'sck': 'sc', 'rLk': 'rL'}
# round 5 - three kinds of op that the plain reference file does not have:
#   ['x', what, ...]  a call that the class REJECTS (raises before storing anything): the io reference skips it (for
#                     writelines with a bad piece: writes the pieces before it, as io.writelines does itself); position,
#                     content and every later answer must be those of the history without the call
#   ['o', op]         the op is applied to ANOTHER instance of the same class (other max_size; its failures are
#                     swallowed, `['o', ['cl']]` closes it): the judged object must not notice
#   ['q', name]       a harmless query / no-op of the file API (flush, isatty, seekable, ..., iter(f), f.__enter__(),
#                     bool(f), f.closed): nothing may move
SPECIAL = ('x', 'o', 'q')
Q_NAMES = ('flush', 'isatty', 'seekable', 'readable', 'writable', 'closed', 'bool', 'iter', 'enter', 'softspace')
WL_FORMS = ('list', 'gen', 'iter', 'tuple')
# code points on the edges of the 1 / 2 / 3 / 4 byte classes of UTF-8 (and around the surrogate gap, BOM)
UTF8_EDGES = ['\x7f', '\x80', '\u07ff', '\u0800', '\ud7ff', '\ue000', '\ufeff', '\uffff', '\U00010000', '\U0010ffff']


def base(op):
    """the operation an op stands for (aliases resolved)"""
    return ALIAS.get(op[0], ARG_ALIAS.get(op[0], op[0]))


def bad_value(spec, text):
    """an argument the class must refuse: ['sur', s] = a str holding a lone surrogate (not encodable as UTF-8), else a
    value of the wrong type"""
    if isinstance(spec, list):
        return spec[1]
    return {'other': b'zz' if text else 'zz', 'none': None, 'int': 5, 'bytearray': bytearray(b'q'), 'list': ['a'],
            'float': 1.5, 'str': 'a'}[spec]


def x_call(f, op, kind):
    """make the call of an ['x', ...] op (expected to raise) on a spooled object"""
    what = op[1]
    text = kind == 'S'
    if what == 'w':
        return f.write(bad_value(op[2], text))
    if what == 'wl':         # ['x', 'wl', pieces before, bad piece]: the pieces before it ARE written (io does the same)
        return f.writelines(wl_pieces(['wl', op[2]], kind) + [bad_value(op[3], text), 'no' if text else b'no'])
    if what == 'wln':
        return f.writelines(bad_value(op[2], text))      # not an iterable (None, 5)
    if what == 'sw':
        return f.seek(op[2], 7)                         # no such whence (3 / 4 are SEEK_DATA / SEEK_HOLE on Linux)
    if what == 'sn':
        return f.seek(-1)                               # SpooledBytesIO only (BytesIO and BufferedRandom both refuse)
    if what == 'sb':
        return f.seek(bad_value(op[2], text))
    if what == 'tr':
        return f.truncate(-1)
    if what == 'rb':
        return f.read(bad_value(op[2], text))
    if what == 'rlb':
        return f.readline('a')
    raise ValueError('unknown rejected call %r' % (op,))


def x_ref_ops(op, kind):
    """the plain ops the reference performs in place of a rejected call"""
    if op[1] == 'wl' and op[2]:
        return [['wl', op[2]]]
    return []


def q_call(f, name):
    if name == 'closed':
        return f.closed
    if name == 'bool':
        return bool(f)
    if name == 'iter':
        return iter(f)
    if name == 'enter':
        return f.__enter__()
    if name == 'softspace':
        return getattr(f, 'softspace', None)
    return getattr(f, name)()


def wl_pieces(op, kind):
    return [bytes.fromhex(p) for p in op[1]] if kind == 'B' else list(op[1])


def written(op, kind):
    """what a write / writelines op appends (bytes or str), None for other ops"""
    if op[0] == 'w':
        return bytes.fromhex(op[1]) if kind == 'B' else op[1]
    if op[0] == 'wl':
        return (b'' if kind == 'B' else '').join(wl_pieces(op, kind))
    if op[0] == 'x' and op[1] == 'wl':       # writelines with a bad piece: the pieces before it are written
        return (b'' if kind == 'B' else '').join(wl_pieces(['wl', op[2]], kind))
    return None


def hx(b):
    return b.hex() or '-'


def canon(v, text):
    """canonical JSON-able form of a returned value"""
    if v is None:
        return ['N']
    if isinstance(v, bool):
        return ['?', repr(v)]
    if isinstance(v, int):
        return ['I', v] if v >= 0 else ['?', repr(v)]
    if text and isinstance(v, str):
        try:
            return ['D', hx(v.encode('utf-8'))]
        except UnicodeEncodeError:
            return ['?', repr(v)]
    if not text and isinstance(v, (bytes, bytearray)):
        return ['D', hx(bytes(v))]
    if isinstance(v, list):
        items = [canon(x, text) for x in v]
        if all(it[0] == 'D' for it in items):
            return ['L', [it[1] for it in items]]
    return ['?', repr(v)[:80]]


def show(rec):
    if rec[0] == 'N':
        return 'N'
    if rec[0] == 'D':
        return 'D' + rec[1]
    if rec[0] == 'L':
        return 'L' + ','.join(rec[1])
    if rec[0] == 'I':
        return 'I%d' % rec[1]
    if rec[0] == 'STOP':
        return 'STOP'
    return '?' + str(rec[1:])


def apply_op(f, op, kind, is_ref):
    """run one op of a history on a file-like object; `is_ref` = io.BytesIO / io.StringIO(newline='')"""
    name = op[0]
    if name == 'w':
        f.write(bytes.fromhex(op[1]) if kind == 'B' else op[1])
        return None
    if name == 'wl':
        pieces = wl_pieces(op, kind)
        form = op[2] if len(op) > 2 else 'list'
        arg = (pieces if form == 'list' else tuple(pieces) if form == 'tuple' else iter(pieces) if form == 'iter'
               else (p for p in pieces))        # 'gen': a one-shot generator
        f.writelines(arg)
        return None
    if name == 'rm':
        return f.read(-1)
    if name in ALIAS and name not in ('tp', 'gb', 'lp', 'fn') and is_ref:
        return apply_op(f, [ALIAS[name]] + list(op[1:]), kind, True)
    if name in ARG_ALIAS and is_ref:
        return apply_op(f, [ARG_ALIAS[name]] + list(op[1:]), kind, True)
    if name == 'ln':
        return f.__len__()
    if name == 'nd':
        try:
            return f.__next__()
        except StopIteration:
            return StopIteration
    if name == 'rln':
        return f.readline(None)
    if name == 'rlk':
        return f.readline(length=None)
    if name == 'rs0':
        return f.readlines(0)
    if name == 'rsk':
        return f.readlines(sizehint=0)
    if name == 'rsm':
        return f.readlines(-1)
    if name == 'rsn':
        return f.readlines(None)
    if name == 'rak':
        return f.read(n=-1)
    if name == 'rn':
        return f.read(None)
    if name == 'itr':
        return list(iter(f)) if len(op) < 2 else list(f.__iter__())
    if name == 'rk':
        return f.read(n=op[1])
    if name == 'sk0':
        return f.seek(op[1], 0)
    if name == 'skk':
        return f.seek(pos=op[1], mode=os.SEEK_SET)
    if name == 'sck':
        return f.seek(pos=op[1], mode=os.SEEK_CUR)
    if name == 'rLk':
        return f.readline(length=op[1])
    if name == 'tp':
        return f.tell() if is_ref else f.pos
    if name == 'gb':
        return f.getvalue() if is_ref else f.buf
    if name == 'lp':
        return len(f.getvalue()) if is_ref else f.len
    if name == 'fn':
        if not is_ref:
            f.fileno()
        return None
    if name == 'r':
        return f.read(op[1])
    if name == 'ra':
        return f.read()
    if name == 'rl':
        return f.readline()
    if name == 'rL':
        return f.readline(op[1])
    if name == 'rs':
        return f.readlines()
    if name == 'sk':
        return f.seek(op[1])
    if name == 'sc':
        if kind == 'S' and is_ref:          # io.StringIO only accepts a zero relative offset
            return f.seek(f.tell() + op[1])
        return f.seek(op[1], os.SEEK_CUR)
    if name == 'se':
        if kind == 'S':
            if is_ref:
                return f.seek(len(f.getvalue()) - op[1])
            return f.seek(op[1], os.SEEK_END)       # boltons: code points back from the end
        return f.seek(-op[1], os.SEEK_END)
    if name == 't':
        return f.tell()
    if name == 'g':
        return f.getvalue()
    if name == 'l':
        return len(f.getvalue()) if is_ref else len(f)
    if name == 'n':
        try:
            return next(f)
        except StopIteration:
            return StopIteration
    if name == 'it':
        return list(f)
    if name == 'dr':
        return [x for x in f]
    if name == 'ro':
        return None if is_ref else f.rollover()
    raise ValueError('unknown op %r' % (op,))


def apply_raw(f, op, ft):
    """one op of an 'F' history on a plain io / temporary-file object (the reference the theorems refine to)"""
    name = op[0]
    if name == 'g' or name == 'l':
        if hasattr(f, 'getvalue'):
            v = f.getvalue()
        else:
            pos = f.tell()
            f.seek(0)
            v = f.read()
            f.seek(pos)
        return v if name == 'g' else len(v)
    if name == 'se':
        if ft != 'b':
            return f.seek(len(f.getvalue()) - op[1])
        return f.seek(-op[1], os.SEEK_END)
    if name == 'sc' and ft != 'b':
        return f.seek(f.tell() + op[1])
    return apply_op(f, op, 'B' if ft == 'b' else 'S', True)


def ref_special(ref, op, kind):
    """a round-5 special op on the reference object: the record it must produce, or None when it has none ('o')"""
    if op[0] == 'o':
        return None
    if op[0] == 'x':
        for sub in x_ref_ops(op, kind):
            apply_op(ref, sub, kind, True)
        return [['N'], ref.tell()]
    return [['Q'], ref.tell()]          # 'q'


def reference(case):
    """run the history on io.BytesIO / io.StringIO(newline=''); returns (in_domain, appending, records); the record of
    an ['o', ...] op (another instance) is None"""
    kind = case['k']
    text = kind == 'S'
    ref = io.StringIO(newline='') if text else io.BytesIO()
    recs = []
    in_domain = True
    appending = True
    for op in case['ops']:
        name = base(op)
        n = len(ref.getvalue())
        if (name in ('w', 'wl') or (name == 'x' and x_ref_ops(op, kind))) and ref.tell() != n:
            appending = False
            in_domain = False              # the statement is about appending writes
        if name == 'sk' and op[1] > n:
            in_domain = False
        if name == 'sc' and ref.tell() + op[1] > n:
            in_domain = False
        if name == 'se' and op[1] > n:
            in_domain = False
        if name == 'rL' and (text or op[1] < 1):
            in_domain = False
        if op[0] == 'rn' and text:
            in_domain = False              # SpooledStringIO.read(None) raises TypeError (recorded, outside the statement)
        if not in_domain:
            break
        if op[0] in SPECIAL:
            recs.append(ref_special(ref, op, kind))
            continue
        v = apply_op(ref, op, kind, True)
        if name in ('w', 'wl', 'ro', 'fn'):
            v = None
        recs.append([['STOP'] if v is StopIteration else canon(v, text), ref.tell()])
    return in_domain, appending, recs


def no_lone_cr(t):
    """every CR is immediately followed by LF (Lean: noLoneCR)"""
    return all(i + 1 < len(t) and t[i + 1] == '\n' for i, ch in enumerate(t) if ch == '\r')


def default_reference(case):
    """the same history on the DEFAULT io.StringIO() (newline='\\n': a line ends at LF only), or None when a
    line-cutting op meets a lone CR in what is left to read (Lean: lfOnly / string_refines_default_StringIO)"""
    ref = io.StringIO()
    recs = []
    for op in case['ops']:
        if base(op) in ('rl', 'rL', 'rs', 'n', 'it', 'dr') and not no_lone_cr(ref.getvalue()[ref.tell():]):
            return None
        if op[0] in SPECIAL:
            recs.append(ref_special(ref, op, 'S'))
            continue
        v = apply_op(ref, op, 'S', True)
        if base(op) in ('w', 'wl', 'ro', 'fn'):
            v = None
        recs.append([['STOP'] if v is StopIteration else canon(v, True), ref.tell()])
    return recs


def mfr_text(case):
    """MultiFileReader() with no members joins with '' (all([]) is True): a text reader"""
    return bool(case['text']) or not case['files']


def mfr_at(case):
    """how many units of each member were already consumed when it was handed to MultiFileReader (round 5)"""
    at = case.get('at') or [0] * len(case['files'])
    text = mfr_text(case)
    return [min(a, len(p if text else bytes.fromhex(p))) for a, p in zip(at, case['files'])]


M_READ_ALIAS = {'rk': 'r', 'rn': 'ra'}      # read(amt=n), read(None)
M_SEEK_OPS = ('s', 'sw', 'skk')            # seek(0), seek(0, os.SEEK_SET), seek(offset=0, whence=os.SEEK_SET)


def mfr_expected(case, from_start=False):
    """plain restatement: one string, one cursor.  Members handed over at a position other than 0 (just written; a
    header already read): the first pass delivers what each member still had to deliver, in order (the code's reading,
    and the model's; `from_start`: the other reading the statement allows - a reader that rewinds its members when it is
    built delivers the whole contents at once); seek(0) rewinds every member, so after it the reader delivers the whole
    contents under either reading"""
    text = mfr_text(case)
    parts = case['files'] if text else [bytes.fromhex(p) for p in case['files']]
    whole = ('' if text else b'').join(p[0 if from_start else a:] for p, a in zip(parts, mfr_at(case)))
    pos = 0
    out = []
    for op in case['ops']:
        if op[0] in M_SEEK_OPS:
            whole = ('' if text else b'').join(parts)
            pos = 0
            out.append(['N'])
            continue
        if op[0] == 'x':                    # a rejected call (seek(1), seek(0, SEEK_CUR), read('a')): nothing moves
            out.append(['N'])
            continue
        name = M_READ_ALIAS.get(op[0], op[0])
        if name == 'ra' or op[1] == 0:
            chunk = whole[pos:]
        else:
            chunk = whole[pos:pos + op[1]]
        pos += len(chunk)
        out.append(canon(chunk, text))
    return out


# the functions of CPython's Lib/codecs.py that SpooledStringIO runs on (through codecs.EncodedFile) and that
# C18.Model transliterates by hand; `codecs_facts` re-reads them from the running interpreter's source on every run
CODECS_TRANSLITERATED = ['StreamReader.__init__', 'StreamReader.read', 'StreamReader.readline', 'StreamReader.reset',
                         'StreamReader.seek', 'StreamWriter.write', 'StreamWriter.reset', 'StreamWriter.seek',
                         'StreamRecoder.__init__', 'StreamRecoder.read', 'StreamRecoder.readline',
                         'StreamRecoder.readlines', 'StreamRecoder.write', 'StreamRecoder.writelines',
                         'StreamRecoder.seek', 'StreamRecoder.reset', 'StreamRecoder.__getattr__', 'EncodedFile']


def _strip_doc(fn):
    if fn.body and isinstance(fn.body[0], ast.Expr) and isinstance(getattr(fn.body[0], 'value', None), ast.Constant) \
            and isinstance(fn.body[0].value.value, str):
        fn.body = fn.body[1:] or [ast.Pass()]
    return fn


def codecs_facts():
    """(readline's first read size, the cap of its doubling, the factor, digest of the transliterated functions) read
    from the source of the `codecs` module of the interpreter that runs the implementation"""
    import codecs
    import hashlib
    tree = ast.parse(open(codecs.__file__).read())
    top = {n.name: n for n in tree.body if isinstance(n, (ast.ClassDef, ast.FunctionDef))}
    h = hashlib.sha256()
    nodes = {}
    for q in CODECS_TRANSLITERATED:
        node = top[q.split('.')[0]]
        if '.' in q:
            node = {m.name: m for m in node.body if isinstance(m, ast.FunctionDef)}[q.split('.')[1]]
        nodes[q] = _strip_doc(node)
        h.update((q + ':' + ast.dump(node) + '\n').encode())
    rs = cap = factor = None
    for n in ast.walk(nodes['StreamReader.readline']):
        if isinstance(n, ast.Assign) and getattr(n.targets[0], 'id', None) == 'readsize' and \
                isinstance(n.value, ast.BoolOp) and isinstance(n.value.op, ast.Or) and \
                isinstance(n.value.values[-1], ast.Constant):
            rs = n.value.values[-1].value
        if isinstance(n, ast.If) and isinstance(n.test, ast.Compare) and getattr(n.test.left, 'id', None) == 'readsize' \
                and len(n.test.ops) == 1 and isinstance(n.test.ops[0], ast.Lt) and \
                isinstance(n.test.comparators[0], ast.Constant) and len(n.body) == 1 and \
                isinstance(n.body[0], ast.AugAssign) and isinstance(n.body[0].op, ast.Mult) and \
                getattr(n.body[0].target, 'id', None) == 'readsize' and isinstance(n.body[0].value, ast.Constant):
            cap, factor = n.test.comparators[0].value, n.body[0].value.value
    for v in (rs, cap, factor):
        if not isinstance(v, int) or isinstance(v, bool) or v < 0:
            raise ValueError('codecs.StreamReader.readline no longer has the shape `readsize = size or N` / '
                             '`if readsize < CAP: readsize *= K`: %r' % ((rs, cap, factor),))
    return rs, cap, factor, h.hexdigest()[:32]


class C18(Property):
    PID = 'C18'
    QUICK_BUDGET_S = 38
    THOROUGH_BUDGET_S = 600
    RULE = ('a case is one whole history on one object. B/S: SpooledBytesIO / SpooledStringIO(max_size) and a list of '
            'write / writelines(list | tuple | iterator | one-shot generator of pieces, also empty) / read(n) / read() / '
            'read(-1) / readline() / readline(n) (bytes) / readlines() / seek(p) / seek(n, SEEK_CUR) / seek(.., SEEK_END) / '
            'tell / f.pos / getvalue / f.buf / len(f) / f.len / next / list(f) / for-loop / explicit rollover() / fileno() '
            'ops; writes append (a seek to the end is inserted when needed), seek targets lie inside the data; every '
            'history ends with getvalue and tell, and tell() is recorded after every op; the same history is run for '
            'max_size in {1, a mid value, larger than the data} and (S) READ_CHUNK_SIZE in {small patched values, the real '
            'one}. First the small families: every str.splitlines-only boundary x every way of reading; every pair of '
            'code points on the edges of the 1/2/3/4-byte classes of UTF-8; "sandwich" = an op (every op and every '
            'spelling), an appending write, the SAME op again, one probe (stale caches, one-shot arguments); "readahead" = '
            'nothing / readline / read(2) / next after seek(0), then every op, then a read before any getvalue '
            're-synchronises; MultiFileReader read, seek(0), read for every partition; the shrunk failing inputs of past '
            'hand mutations (corpus). Then exhaustive: every op sequence up to '
            'length 2 (3 thorough) over a 20-op alphabet after one write, for 2-4 contents; random histories over units '
            'with 1-4 byte characters and LF / CRLF / CR; adversarial: lines of 70-75 and 142-147 characters with CR / CRLF '
            'on the 72 / 144 read edge of the codec reader, multi-byte reads that overshoot, texts longer than '
            'READ_CHUNK_SIZE. '
            'M: MultiFileReader over every partition of a short content into 0-3 members (bytes and text; io, spooled or '
            'temporary-file members) x every op sequence up to length 2 (3 thorough) over read(1..3, 9) / read() / read(0) / '
            'seek(0), plus random ones. Non-trivial = B/S: data was written, a read or iteration returned data after a seek '
            'or query, and the object rolled over or (S) holds a multi-byte character; M: at least 2 members and a sized '
            'read or a seek(0) after a read. F (round 3): the plain reference file of the theorems by itself (Lean Spec.run '
            'for bytesSem / textSem / lfSem) against the real io.BytesIO AND tempfile.TemporaryFile / io.StringIO(newline="") / '
            'the default io.StringIO(): every op sequence of length 2 (3 after a write) over a 15-17 op alphabet plus random '
            'histories, overwriting writes and (bytes) seeks, writes and reads past the end included; non-trivial = a '
            'write or read after a seek. Round 5, generated FIRST: "rejected" = a call the class refuses (write of bytes / str '
            'to the other class, of None, 5, a bytearray, a list; (S) of a str holding a lone surrogate; writelines with such a '
            'piece in the MIDDLE of the batch or of a non-iterable; seek(n, 7); truncate(-1); (B) seek(-1); read("a"), '
            'read(1.5), readline("a"), seek("a"), seek(None)) once or twice, as the first call on a fresh object or after '
            'nothing / seek(0) / a read / a readline, followed by a probe, an appending write, a read, getvalue, tell - the io '
            'reference skips the call (writelines: writes the pieces before the refused one); MultiFileReader over members '
            'handed over AWAY from offset 0 (just written: at the end; a header consumed: at 1; mixed) for every partition x '
            'read / seek(0) mixes, its rejected calls (seek(1), seek(0, SEEK_CUR), read("a")) between reads and every argument '
            'form (read(amt=n), read(None), seek(0, os.SEEK_SET), seek(offset=0, whence=0)); "spelling" = every argument form of '
            'the spooled methods (read(n=k), seek(p, 0), seek(pos=, mode=), readline(None / length=), readlines(0 / -1 / None / '
            'sizehint=0), f.__len__(), f.__next__(), iter(f), the four constructor forms) and the harmless queries '
            '(flush, isatty, seekable, readable, writable, closed, bool, iter, __enter__, softspace); "sibling" = writes, '
            'reads, rollover, rejected calls, close() and calls after close() on ANOTHER live instance between the steps of the '
            'judged one; every list returned (readlines, list(f), loop) is spoiled by the caller; 30 % of the random '
            'histories carry such calls; max_size also exactly the number of bytes written. '
            'distinct = distinct canonical cases.')
    ASSUMPTIONS = ['io.BytesIO and tempfile.TemporaryFile are the same abstract file (content + position) for the listed calls '
                   '(round 3: tested directly on every run, kind F: same history on both objects and on the Lean reference file)',
                   'text is a sequence of Unicode scalar values (no lone surrogates); UTF-8 is modelled as a prefix code with '
                   'Char.utf8Size code units per character, decoded incrementally (whole characters, rest kept)',
                   'the reference for SpooledStringIO is io.StringIO(newline=""): LF, CR and CRLF end a line, untranslated; '
                   'the default io.StringIO() (LF only) is a second reference on histories whose line-cutting ops meet no '
                   'lone CR (Lean: string_refines_default_StringIO; with a lone CR the two io objects differ themselves)',
                   'seek(n, SEEK_CUR) / seek(n, SEEK_END) on SpooledStringIO are judged as code-point moves (n forward / '
                   'only n = 0 from the end), the forms io.StringIO itself supports being the n = 0 ones',
                   'f.rollover() / f.fileno() (which rolls over first) may be called at any point: io reference = no-op',
                   'f.pos, f.buf, f.len, read(-1) are spellings of tell(), getvalue(), len(f), read(): same model operation, '
                   'same io reference call; writelines(iterable) is judged against io.writelines of the same pieces and '
                   'modelled as the loop of writes it is (Lean: = one write of the joined pieces)',
                   'round 5: a call that RAISES (wrong-type or unencodable argument of write / writelines, a whence that does not '
                   'exist, negative truncate / seek, wrong-type size or position) must leave content and position alone: the '
                   'reference is the io object that SKIPPED the call (writelines with a refused piece: that wrote the pieces '
                   'before it, as io.writelines itself does); which exception is raised is not compared; if the implementation '
                   'ACCEPTS a call generated as rejected (e.g. a bytearray) the history leaves the judged domain at that call',
                   'round 5: MultiFileReader over members handed over at another position than 0: the first pass delivers the '
                   'members\' UNREAD parts in order, seek(0) rewinds every member and from then on the whole contents are '
                   'delivered (Lean: mfr_offset_first_pass, mfr_offset_seek0_restarts)',
                   'round 5: another live instance of the class and the harmless queries of the file API (flush, isatty, '
                   'seekable, readable, writable, closed, bool(f), iter(f), f.__enter__(), softspace) are no events '
                   'of the reference or the model: nothing may move; keyword / dunder / explicit-default spellings are the same '
                   'model operation as the plain call',
                   'readlines(sizehint > 0) and readline(0) are outside the statement (CPython\'s BytesIO and BufferedRandom '
                   'differ on the hint themselves); positions beyond the data are outside the statement']
    EXTRA_TRUSTED = ['CPython 3.12 codecs.StreamReader.read/readline/seek/reset and StreamRecoder wrappers, transliterated by '
                     'hand into the model (C18.Reader) and differential-tested through SpooledStringIO']
    CORRESPONDENCE_NAME = ('C18.Driver (SBytes / SStr incl. codecs.StreamReader / MFR models) vs boltons.ioutils '
                           'SpooledBytesIO / SpooledStringIO / MultiFileReader; the reference file Spec.run vs io.BytesIO, '
                           'tempfile.TemporaryFile, io.StringIO')

    # ------------------------------------------------------------------ translator
    def regen(self):
        src = open(os.path.join(REPO, 'boltons', 'ioutils.py')).read()
        val = None
        for node in ast.parse(src).body:
            if isinstance(node, ast.Assign) and len(node.targets) == 1 and \
                    getattr(node.targets[0], 'id', None) == 'READ_CHUNK_SIZE':
                val = ast.literal_eval(node.value)
        if not isinstance(val, int) or isinstance(val, bool) or val < 0:
            raise ValueError('READ_CHUNK_SIZE is not a non-negative int literal: %r' % (val,))
        self._chunk_const = val
        rs, cap, factor, digest = codecs_facts()
        return {'C18_Consts.lean':
                '/- GENERATED by harness/bv/props/c18.py (regen) from boltons/ioutils.py and the running interpreter\'s\n'
                '   Lib/codecs.py — do not edit. -/\n'
                'namespace C18.Generated\n\n'
                '/-- `boltons.ioutils.READ_CHUNK_SIZE` -/\n'
                'def READ_CHUNK_SIZE : Nat := %d\n\n'
                '/-- `codecs.StreamReader.readline`: `readsize = size or <this>` -/\n'
                'def CODECS_READLINE_SIZE : Nat := %d\n\n'
                '/-- `codecs.StreamReader.readline`: `if readsize < <this>: readsize *= <factor>` -/\n'
                'def CODECS_READSIZE_CAP : Nat := %d\n'
                'def CODECS_READSIZE_FACTOR : Nat := %d\n\n'
                '/-- sha256 (first 32 hex digits) of the docstring-free AST of the codecs functions that C18.Model\n'
                '    transliterates: %s -/\n'
                'def CODECS_SOURCE_DIGEST : String := "%s"\n\n'
                'end C18.Generated\n' % (val, rs, cap, factor, ', '.join(CODECS_TRANSLITERATED), digest)}

    # ------------------------------------------------------------------ generation
    def cases(self, budget_s):
        rng = self.rng
        for c in self.small_families(rng):      # small, diverse, adversarial: first
            yield c
        for c in self.exhaustive(3 if self.thorough else 2):
            yield c
        for c in self.mfr_exhaustive(3 if self.thorough else 2):
            yield c
        for c in self.adversarial(rng, 200 if self.thorough else 15):
            yield c
        n = 150000 if self.thorough else 10000
        for i in range(n):
            r = rng.random()
            if r < 0.2:
                yield self.random_mfr(rng)
            else:
                for c in self.with_sizes(rng, self.random_history(rng, 'B' if r < 0.5 else 'S',
                                                                  long=rng.random() < 0.15)):
                    yield c

    def deep_cases(self, budget_s):
        rng = self.rng
        for c in self.small_families(rng):
            yield c
        for c in self.adversarial(rng, 40):
            yield c
        for c in self.exhaustive(3):
            yield c
        while True:
            r = rng.random()
            if r < 0.2:
                yield self.random_mfr(rng)
            else:
                for c in self.with_sizes(rng, self.random_history(rng, 'B' if r < 0.5 else 'S',
                                                                  long=rng.random() < 0.2)):
                    yield c

    # ------------------------------------------------------------------ small families (round 2)
    def small_families(self, rng):
        for c in self.rejected_family():        # round 5
            yield c
        for c in self.mfr_offset_family():
            yield c
        for c in self.spelling_family():
            yield c
        for c in self.sibling_family():
            yield c
        for c in self.exotic_family():
            yield c
        for c in self.utf8_family():
            yield c
        for c in self.mfr_seek_family():
            yield c
        for c in self.sandwich():
            yield c
        for c in self.readahead():
            yield c
        for c in self.file_family(rng, 2000 if self.thorough else 300):
            yield c

    # ------------------------------------------------------------------ round 5 families
    @staticmethod
    def x_ops(kind):
        """every call the class rejects: wrong-type and (text) unencodable arguments of write / writelines (also in the
        MIDDLE of a batch), no such whence, negative truncate, negative seek (bytes), wrong-type size / position"""
        text = kind == 'S'
        ok = ['ok', '\xe9'] if text else ['6f6b', 'c3a9']
        xs = [['x', 'w', 'other'], ['x', 'w', 'none'], ['x', 'w', 'int'], ['x', 'w', 'bytearray'], ['x', 'w', 'list'],
              ['x', 'wl', [], 'other'], ['x', 'wl', ok, 'int'], ['x', 'wl', ok[:1], 'none'], ['x', 'wln', 'none'],
              ['x', 'wln', 'int'], ['x', 'sw', 0], ['x', 'sw', 1], ['x', 'tr'], ['x', 'rb', 'str'], ['x', 'rb', 'float'],
              ['x', 'rlb'], ['x', 'sb', 'str'], ['x', 'sb', 'none']]
        if text:
            xs = [['x', 'w', ['sur', 'bad\ud800']], ['x', 'w', ['sur', '\udc00']], ['x', 'w', ['sur', '\xe9\udfff\U0001f600']],
                  ['x', 'wl', ok, ['sur', 'b\udbff']], ['x', 'wl', [], ['sur', '\ud800\udc00x']]] + xs
        else:
            xs = [['x', 'sn']] + xs
        return xs

    def rejected_family(self):
        """a call that RAISES stores nothing and moves nothing: content, position and every later answer are those of the
        history without it (prefix x rejected call (once / twice) x probe, then an appending write, a read and the final
        getvalue / tell; also as the very first call on a fresh object)"""
        for kind, c1, c2 in (('B', b'h\xc3\xa9llo\nw', b'\xc3\xb6r\n'), ('S', 'h\xe9llo\nw', ' w\xf6rld\n')):
            enc = (lambda b: b.hex()) if kind == 'B' else (lambda t: t)
            probes = [['t'], ['ra'], ['rl'], ['l'], ['sc', 0], ['n']]
            j = 0
            for pre in ([], [['sk', 0]], [['sk', 0], ['r', 2]], [['sk', 0], ['rl']], None):
                for x in self.x_ops(kind):
                    for reps in (1, 2):
                        j += 1
                        probe = probes[j % len(probes)]
                        if pre is None:       # the rejected call comes first (fresh object, buffer not created yet)
                            ops = [x] * reps + [['t'], ['w', enc(c1)], probe, ['g'], ['t']]
                        else:
                            ops = ([['w', enc(c1)]] + pre + [x] * reps + [probe] +
                                   [['se', 0], ['w', enc(c2)], ['t'], ['sk', 1], ['ra'], ['g'], ['t']])
                        for c in self.variants({'k': kind, 'ops': [list(o) for o in ops]},
                                               mid=len(c1 if kind == 'B' else c1.encode('utf-8')) + 2):
                            yield c

    def spelling_family(self):
        """every argument form the methods accept (keywords, explicit defaults, dunder / alias names, the constructor
        forms) and the harmless queries of the file API, each after a seek into the data and followed by a read"""
        for kind, c in (('B', b'a\xc3\xa9\nbc\r\nd'), ('S', 'a\xe9\nb\u65e5\r\nc')):
            enc = (lambda b: b.hex()) if kind == 'B' else (lambda t: t)
            alpha = [['ln'], ['nd'], ['rln'], ['rlk'], ['rs0'], ['rsk'], ['rsm'], ['rsn'], ['rak'], ['itr'],
                     ['itr', 1], ['rk', 2], ['sk0', 3], ['skk', 1], ['sck', 1]] + [['q', q] for q in Q_NAMES]
            if kind == 'B':
                alpha += [['rn'], ['rLk', 2]]
            j = 0
            for pos in (0, 1, 3):
                for a in alpha:
                    for tail in (['ra'], ['rl'], ['n']):
                        j += 1
                        ops = [['w', enc(c)], ['sk', pos], a, tail, ['se', 0], ['w', enc(c[:2])], a, ['g'], ['t']]
                        for cse in self.variants({'k': kind, 'ctor': j % 4, 'ops': [list(o) for o in ops]},
                                                 mid=len(c if kind == 'B' else c.encode('utf-8')) + 1):
                            yield cse

    def sibling_family(self):
        """two live objects of the class: writes, reads, rollovers, REJECTED calls and close() on the other instance
        (and calls on it after it was closed) between the steps of the judged one"""
        for kind, c, d in (('B', b'ab\ncd', b'XYZ\n'), ('S', 'a\xe9\ncd', '\U0001f600Y\n')):
            enc = (lambda b: b.hex()) if kind == 'B' else (lambda t: t)
            others = [[['o', ['w', enc(d)]]], [['o', ['w', enc(d)]], ['o', ['sk', 0]], ['o', ['r', 1]]],
                      [['o', ['w', enc(d)]], ['o', ['ro']]], [['o', ['w', enc(d)]], ['o', ['l']], ['o', ['g']]],
                      [['o', x] for x in self.x_ops(kind)[:3]],
                      [['o', ['w', enc(d)]], ['o', ['cl']], ['o', ['ra']], ['o', ['w', enc(d)]], ['o', ['t']]],
                      [['o', ['cl']], ['o', ['l']], ['o', ['ro']]]]
            for ot in others:
                for mine in ([['sk', 1], ['r', 2]], [['sk', 0], ['rl']], [['l']], [['se', 0], ['w', enc(c)]], [['n']]):
                    ops = [['w', enc(c)]] + ot[:1] + mine[:1] + ot[1:] + mine[1:] + [['t'], ['ra'], ['g'], ['t']]
                    for cse in self.variants({'k': kind, 'ops': [list(o) for o in ops]}):
                        yield cse

    @staticmethod
    def alpha_x(kind, n):
        """every operation and every spelling of it, one or two arguments each"""
        if kind == 'B':
            wls = [['wl', ['79', '', '0a7a'], 'list'], ['wl', ['c3', 'a9'], 'gen'], ['wl', [], 'gen'], ['wl', ['71'], 'iter']]
        else:
            wls = [['wl', ['y', '', '\n\xe9'], 'list'], ['wl', ['\xe9', '日'], 'gen'], ['wl', [], 'gen'], ['wl', ['q'], 'iter']]
        return ([['r', 0], ['r', 1], ['r', 2], ['ra'], ['rm'], ['rl'], ['rs'], ['sk', 0], ['sk', 1], ['sk', n], ['sc', 1],
                 ['se', 0], ['t'], ['tp'], ['g'], ['gb'], ['l'], ['lp'], ['n'], ['it'], ['dr'], ['ro'], ['fn']] + wls +
                [['rL', 2] if kind == 'B' else ['r', 3]])

    def variants(self, case, mid=None):
        """rolled over from the first byte / (by a later write: `mid`) / never; patched and real READ_CHUNK_SIZE"""
        if reference(case)[0] and reference(case)[1]:
            for ms in ((1, 1000) if mid is None else (1, mid, 1000)):
                if case['k'] == 'S':
                    for ch in (2, None):
                        yield dict(case, ms=ms, chunk=ch)
                else:
                    yield dict(case, ms=ms)

    def sandwich(self):
        """an operation, an appending write, the SAME operation again, one probe: whatever an operation remembers
        (a cached length / value / position, a one-shot argument) is stale the second time"""
        for kind, c1, c2 in (('B', b'ab\nc', b'\xc3\xa9\n'), ('B', b'\n\xc3\xa9\r\nx', b'y'),
                             ('S', 'a\xe9\n日b', '\xe9\r\nz'), ('S', 'x\r\ny', '\U0001f600')):
            enc = (lambda b: b.hex()) if kind == 'B' else (lambda t: t)
            n = len(c1)
            for pre in ([], [['sk', 0]], [['sk', 1]]):
                for a in self.alpha_x(kind, n):
                    for b in (['ra'], ['rl'], ['t'], ['n'], ['l']):
                        ops = ([['w', enc(c1)]] + pre + [a] + [['se', 0], ['w', enc(c2)]] + pre + [a] + [b] +
                               [['g'], ['t']])
                        for c in self.variants({'k': kind, 'ops': [list(o) for o in ops]},
                                               mid=len(c1 if kind == 'B' else c1.encode('utf-8')) + 2):
                            yield c

    def readahead(self):
        """nothing, or a read that leaves the codec reader holding read-ahead (a whole short text after readline(), a
        partial character after read(2)); then every operation; then a read, BEFORE any getvalue() re-synchronises
        stream and position"""
        for kind, c in (('B', b'a\xc3\xa9\nbc\r\nd'), ('S', 'a\xe9\nb日\r\nc'), ('S', '\U0001f600\ra\n\n\xe9')):
            enc = (lambda b: b.hex()) if kind == 'B' else (lambda t: t)
            for first in ([], [['rl']], [['r', 2]], [['n']]):
                for x in self.alpha_x(kind, len(c)):
                    for y in (['ra'], ['n'], ['t'], ['rl']):
                        ops = [['w', enc(c)], ['sk', 0]] + first + [x, y, ['g'], ['t']]
                        for cse in self.variants({'k': kind, 'ops': [list(o) for o in ops]}):
                            yield cse

    def exotic_family(self):
        """every str.splitlines boundary that is not a line end for io.StringIO x every way of reading: readline /
        next / iteration cut there (known finding), readlines() / read() must not, nor line ops after a seek past it"""
        i = 0
        for ex in EXOTIC:
            for text in ('a' + ex + 'b\nc', '\xe9' + ex + '\r\n' + ex):
                for tail in ([['rl']], [['n']], [['it']], [['dr']], [['rs']], [['ra']], [['r', 2], ['rs']],
                             [['r', 1], ['gb'], ['rs']],
                             # line ops that do not READ the boundary (seek past it / it ends the text): must agree
                             # with io.StringIO (Lean: string_refines_StringIO_partial_tight)
                             [['sk', 2], ['rl'], ['n'], ['n']], [['sk', 2], ['dr']] if text.endswith(ex) else [['sk', 2], ['it']]):
                    i += 1
                    yield {'k': 'S', 'ms': (1, 100)[i % 2], 'chunk': (2, None, 5)[i % 3],
                           'ops': [['w', text], ['sk', 0]] + tail + [['g'], ['t']]}

    def utf8_family(self):
        """code points on the edges of the 1 / 2 / 3 / 4-byte classes of UTF-8, in every pair"""
        for a in UTF8_EDGES:
            for b in UTF8_EDGES:
                text = a + 'x' + b + '\n' + b + a
                ops = [['w', text], ['sk', 0], ['r', 1], ['t'], ['r', 2], ['sk', 4], ['ra'], ['l'], ['sk', 1], ['rs'],
                       ['se', 0], ['wl', [b, a], 'gen'], ['sk', 5], ['rm'], ['tp'], ['g'], ['t']]
                for c in self.variants({'k': 'S', 'ops': ops}):
                    yield c

    def mfr_partitions(self):
        for text, content in ((False, b'ab\xc3\xa9'), (True, 'a\xe9日b')):
            n = len(content)
            for nf in range(1, 4):
                for cuts in itertools.combinations_with_replacement(range(n + 1), nf - 1):
                    edges = [0] + list(cuts) + [n]
                    parts = [content[edges[i]:edges[i + 1]] for i in range(nf)]
                    yield text, (parts if text else [p.hex() for p in parts])

    def mfr_seek_family(self):
        """read, seek(0), read - for every partition (a seek(0) needs a read on each side to be seen)"""
        reads = [['r', 1], ['r', 2], ['r', 3], ['r', 9], ['ra'], ['r', 0]]
        for text, files in self.mfr_partitions():
            for a in reads:
                for c in reads:
                    for mk in (('io', 'spooled') if len(files) == 2 else ('io',)):
                        yield {'k': 'M', 'text': text, 'mk': mk, 'files': list(files), 'ops': [list(a), ['s'], list(c)]}

    def mfr_offset_family(self):
        """member files handed to MultiFileReader AWAY from offset 0 - just written (position at the end), a header
        already read (position 1), a mix - for every partition; first pass = what the members still had to deliver,
        after seek(0) = the whole contents; mixes of sized / unsized reads around the seek(0); rejected calls
        (seek(1), seek(0, SEEK_CUR), read('a')) and every argument form in between"""
        seqs = [[['s'], ['ra']], [['s'], ['r', 3], ['ra']], [['r', 1], ['s'], ['ra']], [['ra'], ['s'], ['r', 2], ['ra']],
                [['r', 2], ['ra']], [['ra'], ['r', 1]], [['r', 9], ['s'], ['r', 9]], [['s'], ['r', 2], ['s'], ['ra']],
                [['s'], ['r', 0], ['s'], ['r', 1], ['r', 9]],
                [['x', 's1'], ['sw'], ['rk', 2], ['x', 'sc'], ['rn']], [['rk', 1], ['x', 'rb'], ['skk'], ['x', 's1'], ['r', 9]],
                # a rejected call BETWEEN reads (nothing may be rewound, skipped or re-read)
                [['r', 1], ['x', 's1'], ['r', 9]], [['x', 's1'], ['ra']], [['r', 3], ['x', 's1'], ['x', 'sc'], ['ra']],
                [['ra'], ['x', 's1'], ['ra']], [['r', 2], ['x', 'rb'], ['x', 'sc'], ['r', 2], ['ra']]]
        j = 0
        for text, files in self.mfr_partitions():
            n = len(files)
            lens = [len(p) if text else len(p) // 2 for p in files]
            ats = [lens, [min(1, ln) for ln in lens], [0] + lens[1:], lens[:-1] + [0], [0] * n]
            for at in ats:
                for seq in seqs:
                    if not any(at) and not any(o[0] in ('x', 'sw', 'skk', 'rk', 'rn') for o in seq):
                        continue        # members at 0 and plain ops: mfr_seek_family / mfr_exhaustive
                    j += 1
                    mk = ('written', 'io', 'spooled', 'written', 'tmp')[j % 5]
                    if mk == 'tmp' and text:
                        mk = 'written'
                    yield {'k': 'M', 'text': text, 'mk': mk, 'files': list(files), 'at': list(at),
                           'ops': [list(o) for o in seq]}

    def file_family(self, rng, n_random):
        """'F' cases: the plain reference file by itself - Lean `Spec.run` (what every refinement theorem has on its
        right-hand side) against the real io.BytesIO AND tempfile.TemporaryFile (b), io.StringIO(newline='') (t), the
        default io.StringIO() (d); beyond the statement's domain too: overwriting writes, (b) seeks and writes past the
        end (zero-filled gap), reads there"""
        small = {'b': [['w', '610a62'], ['w', 'c3a9'], ['w', '0a'], ['r', 1], ['ra'], ['rl'], ['rL', 1], ['rs'], ['sk', 0],
                       ['sk', 2], ['sk', 5], ['sc', 1], ['se', 1], ['n'], ['it'], ['g'], ['wl', ['78', '', '0a79']]],
                 't': [['w', 'a\r\n\xe9'], ['w', '\r'], ['w', '\nb'], ['r', 1], ['ra'], ['rl'], ['rs'], ['sk', 0], ['sk', 2],
                       ['sc', 0], ['se', 1], ['n'], ['it'], ['g'], ['wl', ['x', '', '\x0cy']]]}
        small['d'] = small['t']
        for ft in ('b', 't', 'd'):
            for d in (2, 3):
                for seq in itertools.product(small[ft], repeat=d):
                    if d == 3 and seq[0][0] not in ('w', 'wl'):
                        continue
                    case = {'k': 'F', 'ft': ft, 'ops': [list(o) for o in seq] + [['g'], ['t']]}
                    if self.file_case_ok(case):
                        yield case
        for _ in range(n_random):
            ft = rng.choice('btd')
            text = ft != 'b'
            units = S_UNITS + ['\x0c', '\x85'] if text else B_UNITS
            ref = io.StringIO(newline='') if text else io.BytesIO()
            ops = []
            for i in range(rng.randint(2, 12)):
                n = len(ref.getvalue())
                o = rng.choice(['w', 'w', 'wl', 'r', 'ra', 'rl', 'rL', 'rs', 'sk', 'sk', 'sc', 'se', 't', 'g', 'l', 'n', 'it', 'dr']
                               if i else ['w'])
                if o == 'w':
                    p = [rng.choice(units) for _ in range(rng.randint(0, 5))]
                    op = ['w', ''.join(p) if text else b''.join(p).hex()]
                elif o == 'wl':
                    ps = [[rng.choice(units) for _ in range(rng.randint(0, 3))] for _ in range(rng.randint(0, 3))]
                    op = ['wl', [''.join(q) if text else b''.join(q).hex() for q in ps], rng.choice(WL_FORMS)]
                elif o == 'r':
                    op = ['r', rng.randint(0, n + 2)]
                elif o == 'rL':
                    op = ['rL', rng.randint(0, 4)]
                elif o == 'sk':
                    op = ['sk', rng.randint(0, n if text else n + 3)]
                elif o == 'sc':
                    op = ['sc', rng.randint(0, max(0, n - ref.tell()) if text else 3)]
                elif o == 'se':
                    op = ['se', rng.randint(0, n)]
                else:
                    op = [o]
                ops.append(op)
                apply_raw(ref, op, ft)
            case = {'k': 'F', 'ft': ft, 'ops': ops + [['g'], ['t']]}
            if self.file_case_ok(case):
                yield case

    @staticmethod
    def file_case_ok(case):
        """inside what the plain-file model claims: seek targets exist for the real objects (never a negative position;
        for text no position past the end: io.StringIO fills a gap with NUL characters, which the model does not claim)"""
        ft = case['ft']
        ref = io.BytesIO() if ft == 'b' else io.StringIO(newline='')
        for op in case['ops']:
            n = len(ref.getvalue())
            if op[0] == 'se' and op[1] > n:
                return False
            if ft != 'b' and ((op[0] == 'sk' and op[1] > n) or (op[0] == 'sc' and ref.tell() + op[1] > n)):
                return False
            if op[0] in ('w', 'wl') and ref.tell() > n and not written(op, 'B' if ft == 'b' else 'S'):
                return False    # an EMPTY write past the end: the model fills the gap at once, the real objects only
                                # when a byte is written (outside the statement: its writes append)
            apply_raw(ref, op, ft)
        return True

    @staticmethod
    def data_len(case):
        if case['k'] == 'B':
            return sum(len(written(op, 'B') or b'') for op in case['ops'])
        return sum(len((written(op, 'S') or '').encode('utf-8')) for op in case['ops'])

    def with_sizes(self, rng, case, chunks=None):
        """the same history for max_size 1, a mid value, larger than the data (and chunk sizes for S)"""
        n = self.data_len(case)
        sizes = [1, max(2, n // 2 + rng.randint(0, 1)), n + 1 + rng.randint(0, 3)]
        if rng.random() < 0.3:
            sizes[1] = max(2, n)          # the LAST byte written reaches max_size exactly (`>=`): rolls over there
        for ms in sizes:
            if case['k'] == 'S':
                for ch in (chunks or [rng.choice([1, 2, 3, 5, 7]), None]):
                    yield dict(case, ms=ms, chunk=ch)
            else:
                yield dict(case, ms=ms)

    def exhaustive(self, depth):
        """every op sequence up to `depth` over a fixed alphabet, after one write"""
        for kind, contents in (('B', [b'ab\nc', b'\n\xc3\xa9\r\nx']), ('S', ['\xe9ab', 'a\r\n日\n', '\U0001f600\r\xe9', 'a\nb\r\n\rc'])):
            for content in contents:
                n = len(content)
                first = ['w', content.hex() if kind == 'B' else content]
                extra = ['w', b'y\n'.hex() if kind == 'B' else '\xe9\n']
                alpha = [['r', 1], ['r', 2], ['ra'], ['rl'], ['rs'], ['sk', 0], ['sk', 1], ['sk', 2], ['sk', n],
                         ['sc', 1], ['se', 0], ['t'], ['g'], ['l'], ['n'], ['it'], ['dr'], ['ro'], extra]
                alpha.append(['rL', 2] if kind == 'B' else ['r', 3])
                for d in range(depth + 1):
                    for seq in itertools.product(alpha, repeat=d):
                        case = {'k': kind, 'ops': [first] + [list(o) for o in seq] + [['g'], ['t']]}
                        if not reference(case)[0] or not reference(case)[1]:
                            continue
                        sizes = (1, n, 1000)
                        for ms in sizes:
                            if kind == 'S':
                                for ch in ((2, None) if d < 2 or not self.thorough else (2,)):
                                    yield dict(case, ms=ms, chunk=ch)
                            else:
                                yield dict(case, ms=ms)

    def random_history(self, rng, kind, long=False):
        text = kind == 'S'
        ref = io.StringIO(newline='') if text else io.BytesIO()
        units = S_UNITS if text else B_UNITS
        ops = []
        overwrite = False
        nops = rng.randint(1, 10)

        liney = rng.random() < 0.35
        spice = rng.random() < 0.3        # round 5: rejected calls, another instance, queries, other spellings
        xs = self.x_ops(kind)

        def payload():
            if liney:       # many short lines: the codec reader caches the lines of one chunk
                parts = [rng.choice(units[:5] if text else units[:3]) * rng.randint(0, 2) + rng.choice(units[5:8] if text else units[3:6])
                         for _ in range(rng.randint(2, 6))]
                if rng.random() < 0.5:
                    parts.append(rng.choice(units[:4]))
                return ''.join(parts) if text else b''.join(parts)
            if long and rng.random() < 0.6:
                n = rng.choice([70, 71, 72, 73, 74, 143, 144, 145, 150, 300])
                wide = S_WIDE if text else [b'a', b'\xc3\xa9']
                parts = [rng.choice(units if rng.random() < 0.03 else wide) for _ in range(n)]
            else:
                parts = [rng.choice(units) for _ in range(rng.randint(0, 6))]
            return ''.join(parts) if text else b''.join(parts)
        for i in range(nops):
            n = len(ref.getvalue())
            o = rng.choice(['w', 'w', 'r', 'r', 'ra', 'rl', 'rl', 'rs', 'sk', 'sk', 'sc', 'se', 't', 'g', 'l', 'n', 'n',
                            'it', 'dr', 'rL', 'ro', 'wl', 'tp', 'gb', 'lp', 'fn', 'rm'] if i else ['w', 'w', 'w', 'wl'])
            if o in ('w', 'wl'):
                if ref.tell() != n and not overwrite:
                    op = rng.choice([['sk', n], ['se', 0]])
                    ops.append(op)
                    apply_op(ref, op, kind, True)
                if o == 'w':
                    p = payload()
                    op = ['w', p if text else p.hex()]
                else:
                    ps = [payload() for _ in range(rng.choice([0, 1, 2, 3]))]
                    op = ['wl', [q if text else q.hex() for q in ps], rng.choice(WL_FORMS)]
            elif o == 'r':
                op = ['r', rng.choice([0, 1, 1, 2, 3, 4, rng.randint(0, n + 2)])]
            elif o == 'rL':
                op = ['rL', rng.randint(1, 5)] if not text else ['rl']
            elif o == 'sk':
                op = ['sk', rng.choice([0, n, rng.randint(0, n)])]
            elif o == 'sc':
                op = ['sc', rng.randint(0, n - ref.tell()) if rng.random() < 0.7 else 0]
            elif o == 'se':
                op = ['se', 0 if text or rng.random() < 0.4 else rng.randint(0, n)]
            else:
                op = [o]
            # round 5: another spelling of the same call
            if spice and rng.random() < 0.25:
                alt = {'r': ['rk'], 'sk': ['sk0', 'skk'], 'sc': ['sck'], 'rL': ['rLk'], 'l': ['ln'], 'n': ['nd'],
                       'rl': ['rln', 'rlk'], 'rs': ['rs0', 'rsk', 'rsm', 'rsn'], 'ra': ['rak'] + ([] if text else ['rn']),
                       'it': ['itr']}.get(op[0])
                if alt:
                    op = [rng.choice(alt)] + op[1:]
            ops.append(op)
            apply_op(ref, op, kind, True)
            # round 5: a rejected call / an op on another instance / a harmless query in between
            if spice and rng.random() < 0.3:
                r = rng.random()
                if r < 0.5:
                    sp = rng.choice(xs)
                    if written(sp, kind) and ref.tell() != len(ref.getvalue()):
                        sp = ['x', 'w', 'none']
                elif r < 0.8:
                    sp = ['o', rng.choice([['w', op[1]] if op[0] == 'w' else ['ra'], ['sk', 0], ['ro'], ['l'], ['cl'], ['rl'],
                                           rng.choice(xs)])]
                else:
                    sp = ['q', rng.choice(Q_NAMES)]
                for _ in range(rng.choice([1, 1, 2])):
                    ops.append(list(sp))
                    ref_special(ref, sp, kind)
        ops += [['g'], ['t']]
        case = {'k': kind, 'ops': ops}
        if spice:
            case['ctor'] = rng.randint(0, 3)
        if overwrite:
            case['ow'] = 1  # (not generated any more)
        return case

    def adversarial(self, rng, n):
        """SpooledStringIO histories aimed at the codec reader's buffers"""
        def lines_case(lens, ends, fill):
            text = ''.join(''.join(rng.choice(fill) for _ in range(ln)) + e for ln, e in zip(lens, ends))
            tail = rng.choice([[['sk', 0], ['rl'], ['t'], ['rl'], ['n'], ['l'], ['rl'], ['ra']],
                               [['sk', 0], ['rl'], ['ro'], ['rl'], ['n'], ['ra']],
                               [['sk', 0], ['n'], ['n'], ['g'], ['n'], ['it']],
                               [['sk', 0], ['rl'], ['r', 3], ['rl'], ['rs']],
                               [['sk', 1], ['dr']],
                               [['sk', 0], ['rl'], ['se', 0], ['w', 'z\r'], ['sk', 2], ['rl'], ['rl'], ['rl']]])
            return {'k': 'S', 'ops': [['w', text]] + tail + [['g'], ['t']]}
        for _ in range(n):
            edge = rng.choice([72, 144, 288])
            lens = [edge + rng.randint(-2, 2), rng.randint(0, 3), rng.randint(0, 80)]
            ends = [rng.choice(['\r\n', '\r', '\n', '\r\r\n']), rng.choice(['\n', '\r\n', '\r']), rng.choice(['', '\n', '\r'])]
            fill = rng.choice([['a'], ['a', '\xe9'], S_WIDE])
            for c in self.with_sizes(rng, lines_case(lens, ends, fill)):
                yield c
            # reads that stop inside / overshoot multi-byte characters, then every kind of follow-up
            text = ''.join(rng.choice(['a', '\xe9', '\xe9', '日', '\U0001f600', '\n']) for _ in range(rng.randint(3, 9)))
            k = rng.randint(1, 4)
            follow = rng.choice([[['ro'], ['ra']], [['ro'], ['rl'], ['t'], ['n']], [['l'], ['ra']], [['it']], [['rl'], ['t'], ['ra']], [['g'], ['r', 1], ['t'], ['dr']],
                                 [['n'], ['l'], ['n']], [['rs']], [['sc', 1], ['ra']] if len(text) > k else [['ra']],
                                 [['se', 0], ['w', '\xe9a'], ['sk', k], ['ra']]])
            case = {'k': 'S', 'ops': [['w', text], ['sk', 0], ['r', k]] + follow + [['g'], ['t']]}
            if reference(case)[0]:
                for c in self.with_sizes(rng, case):
                    yield c
        # texts longer than the real READ_CHUNK_SIZE (the chunked loops of seek / len with the real constant)
        real = getattr(self, '_chunk_const', 21333)
        for rep in range(8 if self.thorough else 3):
            unit = rng.choice(['ab\xe9\n', 'x日\r\ny', '\U0001f600\xe9'])
            text = unit * ((real + rng.randint(5, 900)) // len(unit) + 1)
            tgt = rng.randint(real - 3, min(len(text), real + 600))
            tail = [[['sk', tgt], ['r', 5], ['t'], ['l'], ['rl'], ['sk', real], ['r', 2], ['se', 0], ['w', 'tail'],
                     ['sk', len(text) - 1], ['ra'], ['t']],
                    [['sk', real - 1], ['r', 3], ['tp'], ['lp'], ['fn'], ['r', 2], ['sc', real // 2 if len(text) > 2 * real else 1],
                     ['rl'], ['t'], ['se', 0], ['wl', ['\xe9', 'z'], 'gen'], ['sk', real + 1], ['r', 4], ['t']],
                    [['sk', 0], ['rl'], ['sk', tgt], ['n'], ['t'], ['gb'], ['r', 1], ['sk', real], ['rs'], ['t']]][rep % 3]
            case = {'k': 'S', 'ops': [['w', text]] + tail}
            if reference(case)[0]:
                for ms in (1, 10 ** 7):
                    yield dict(case, ms=ms, chunk=None)
        # str.splitlines boundaries that io.StringIO does not treat as line ends (known finding)
        for _ in range(max(2, n // 3)):
            ex = rng.choice(EXOTIC)
            text = rng.choice(['a', '\xe9']) + ex + rng.choice(['b', 'b\n', '日\r\nc'])
            tail = rng.choice([[['rl']], [['n']], [['it']], [['dr']], [['rs']], [['ra']]])
            yield {'k': 'S', 'ms': rng.choice([1, 100]), 'chunk': rng.choice([2, None]),
                   'ops': [['w', text], ['sk', 0]] + tail + [['g'], ['t']]}

    def mfr_exhaustive(self, depth):
        alpha = [['r', 1], ['r', 2], ['r', 3], ['r', 9], ['ra'], ['r', 0], ['s']]
        for text, content in ((False, b'ab\xc3\xa9'), (True, 'a\xe9日b')):
            n = len(content)
            parts_sets = []
            for nf in range(0, 4):
                for cuts in itertools.combinations_with_replacement(range(n + 1), max(nf - 1, 0)):
                    if nf == 0:
                        if text:       # MultiFileReader() with no members joins with '' (all([]) is True)
                            parts_sets.append([])
                        continue
                    edges = [0] + list(cuts) + [n]
                    parts_sets.append([content[edges[i]:edges[i + 1]] for i in range(nf)])
            for parts in parts_sets:
                files = parts if text else [p.hex() for p in parts]
                for d in range(1, depth + 1):
                    for seq in itertools.product(alpha, repeat=d):
                        yield {'k': 'M', 'text': text, 'mk': 'io', 'files': list(files), 'ops': [list(o) for o in seq]}

    def random_mfr(self, rng):
        text = rng.random() < 0.5
        units = S_UNITS if text else B_UNITS
        parts = []
        for _ in range(rng.randint(0, 5)):
            p = [rng.choice(units) for _ in range(rng.choice([0, 1, 2, 3, 8]))]
            parts.append(''.join(p) if text else b''.join(p).hex())
        if not parts:
            text = True        # MultiFileReader() with no members is a text reader
        ops = []
        for _ in range(rng.randint(1, 9)):
            r = rng.random()
            if r < 0.6:
                ops.append(['r', rng.choice([1, 1, 2, 3, 5, 8, 40])])
            elif r < 0.75:
                ops.append(['ra'])
            elif r < 0.8:
                ops.append(['r', 0])
            else:
                ops.append(['s'])
        mk = rng.choice(['io', 'io', 'spooled', 'tmp', 'written'])
        if mk == 'tmp' and text:
            mk = 'spooled'
        case = {'k': 'M', 'text': text, 'mk': mk, 'files': parts, 'ops': ops}
        if parts and rng.random() < 0.4:    # members handed over at other positions than 0
            case['at'] = [rng.choice([0, 1, 2, 99, 99]) for _ in parts]
            case['at'] = mfr_at(case)
        if rng.random() < 0.3:              # rejected calls / other argument forms in between
            for _ in range(rng.randint(1, 3)):
                ops.insert(rng.randint(0, len(ops)), rng.choice([['x', 's1'], ['x', 'sc'], ['x', 'rb'], ['sw'], ['skk'],
                                                                 ['rk', rng.choice([1, 2, 5])], ['rn']]))
        return case

    # ------------------------------------------------------------------ model line
    def has_x(self, case):
        return any(op[0] == 'x' or (op[0] == 'o' and op[1][0] == 'x') for op in case['ops'])

    def line(self, case):
        if case['k'] != 'F' and self.has_x(case):
            k = self.key(case)
            if k not in getattr(self, '_ran_x', ()):
                self.impl(case)     # (the runner's shrinker asks for the line first) did the implementation accept it?
            if k in getattr(self, '_accepted', ()):
                return None         # a call generated as rejected was ACCEPTED: outside the model's domain
        if case['k'] == 'M':
            files = [hx(p.encode('utf-8')) for p in case['files']] if case['text'] else [p or '-' for p in case['files']]
            toks = ['M', 't' if mfr_text(case) else 'b', str(len(files))] + files
            if any(mfr_at(case)):           # `MO`: members at their own positions
                toks = ['MO'] + toks[1:] + [str(a) for a in mfr_at(case)]
            for op in case['ops']:
                if op[0] == 'x':
                    continue                # a rejected call is no event of the MultiFileReader model
                name = M_READ_ALIAS.get(op[0], op[0])
                toks.append('s' if name in M_SEEK_OPS else 'ra' if name == 'ra' else 'r%d' % op[1])
            return ' '.join(toks)
        if case['k'] == 'F':
            text = case['ft'] != 'b'
            toks = ['F', case['ft']]
        elif not reference(case)[0]:
            return None
        else:
            text = case['k'] == 'S'
            toks = [case['k'], str(case['ms'])]
        if case['k'] == 'S':
            toks.append('R' if case.get('chunk') is None else str(case['chunk']))
        for op in case['ops']:
            if op[0] == 'w':
                toks.append('w' + (hx(op[1].encode('utf-8')) if text else (op[1] or '-')))
            elif op[0] == 'wl':
                toks.append('W' + ','.join(hx(p.encode('utf-8')) if text else (p or '-') for p in op[1]))
            elif op[0] in ('o', 'q'):
                continue        # another instance / a no-op query: not an event of the model
            elif op[0] == 'x':
                toks.append(self.x_token(op, text))
            elif op[0] in ARG_OPS or op[0] in ARG_ALIAS:
                toks.append('%s%d' % (base(op), op[1]))
            else:
                toks.append(base(op))
        return ' '.join(toks)

    @staticmethod
    def x_token(op, text):
        """model token of a rejected call.  `x` = rejected (state unchanged); `xw<hex>` = a write whose payload the MODEL's
        own UTF-8 decoder must refuse (a lone surrogate, sent as its three 'surrogatepass' bytes); `xW<hex>,..,zz,..` =
        writelines: the model writes the pieces before the first one it cannot decode (`zz` = not a payload at all)"""
        def tok(piece):
            return hx(piece.encode('utf-8')) if text else (piece or '-')

        def bad(spec):
            return hx(spec[1].encode('utf-8', 'surrogatepass')) if isinstance(spec, list) else 'zz'
        if op[1] == 'w' and isinstance(op[2], list):
            return 'xw' + bad(op[2])
        if op[1] == 'wl':
            return 'xW' + ','.join([tok(p) for p in op[2]] + [bad(op[3]), tok('no' if text else b'no'.hex())])
        return 'x'

    # ------------------------------------------------------------------ implementation
    def impl(self, case):
        import boltons.ioutils as iu
        self.stats[case['k']] = self.stats.get(case['k'], 0) + 1
        if case['k'] != 'F' and self.has_x(case):
            if not hasattr(self, '_ran_x'):
                self._ran_x = set()
                self._accepted = set()
            self._ran_x.add(self.key(case))
        if case['k'] == 'M':
            return self.impl_mfr(case, iu)
        if case['k'] == 'F':
            return self.impl_file(case)
        kind = case['k']
        text = kind == 'S'
        out = []
        saved = iu.READ_CHUNK_SIZE
        f = None
        other = None
        try:
            with time_limit(self.case_limit()):
                if text and case.get('chunk') is not None:
                    iu.READ_CHUNK_SIZE = case['chunk']
                cls = iu.SpooledStringIO if text else iu.SpooledBytesIO
                ctor = case.get('ctor', 0)      # every form of the constructor
                f = (cls(max_size=case['ms']) if ctor == 0 else cls(case['ms']) if ctor == 1 else
                     cls(case['ms'], None) if ctor == 2 else cls(max_size=case['ms'], dir=None))
                for op in case['ops']:
                    self.stats['op:' + op[0]] = self.stats.get('op:' + op[0], 0) + 1
                    if op[0] == 'o':            # the op goes to ANOTHER instance; whatever happens there stays there
                        if other is None:
                            other = cls(max_size=1000 if case['ms'] == 1 else 1)
                        try:
                            if op[1][0] == 'cl':
                                other.close()
                            elif op[1][0] == 'x':
                                x_call(other, op[1], kind)
                            else:
                                apply_op(other, op[1], kind, False)
                        except Exception:
                            pass
                        out.append({'skip': 1})
                        continue
                    if op[0] == 'q':
                        q_call(f, op[1])
                        out.append({'r': ['Q'], 't': f.tell(), 'skip': 1})
                        continue
                    if op[0] == 'x':
                        try:
                            x_call(f, op, kind)
                        except CaseTimeout:
                            raise
                        except Exception as e:
                            self.stats['rejected:' + exc_name(e)] = self.stats.get('rejected:' + exc_name(e), 0) + 1
                            out.append({'r': ['N'], 't': f.tell(), 'rej': exc_name(e)})
                            continue
                        # the call was accepted: the case leaves the domain here (not judged, not sent to the model)
                        out.append({'acc': 1})
                        self._accepted.add(self.key(case))
                        self.stats['x_accepted'] = self.stats.get('x_accepted', 0) + 1
                        break
                    v = apply_op(f, op, kind, False)
                    if isinstance(v, list):
                        shown = canon(v, text)
                        v.append(v[0] if v else None)      # the caller spoils the list it was handed
                        v.reverse()
                        out.append({'r': shown, 't': f.tell()})
                        continue
                    if base(op) in ('w', 'wl', 'ro', 'fn'):
                        v = None        # what write() / writelines() / rollover() / fileno() return is not part of the statement
                    rec = ['STOP'] if v is StopIteration else canon(v, text)
                    out.append({'r': rec, 't': f.tell()})
                if f._rolled:
                    self.stats['rolled'] = self.stats.get('rolled', 0) + 1
        except CaseTimeout:
            out.append({'exc': 'CaseTimeout'})
            self._timeouts = getattr(self, '_timeouts', 0) + 1
            self.stats['exc:CaseTimeout'] = self.stats.get('exc:CaseTimeout', 0) + 1
        except Exception as e:  # judged by the oracle
            out.append({'exc': exc_name(e), 'msg': str(e)[:160]})
            self.stats['exc:' + exc_name(e)] = self.stats.get('exc:' + exc_name(e), 0) + 1
        finally:
            iu.READ_CHUNK_SIZE = saved
            for obj in (f, other):
                try:
                    if obj is not None:
                        obj.close()
                except Exception:
                    pass
        return out

    def impl_file(self, case):
        """the history on every real object the reference file stands for; one trace per object"""
        ft = case['ft']
        text = ft != 'b'
        traces = []
        for mk in ((io.BytesIO, tempfile.TemporaryFile) if ft == 'b' else
                   ((lambda: io.StringIO(newline='')),) if ft == 't' else (io.StringIO,)):
            out = []
            f = None
            try:
                with time_limit(self.case_limit()):
                    f = mk()
                    for op in case['ops']:
                        v = apply_raw(f, op, ft)
                        if op[0] in ('w', 'wl', 'ro', 'fn'):
                            v = None
                        out.append({'r': ['STOP'] if v is StopIteration else canon(v, text), 't': f.tell()})
                        self.stats['fop:' + op[0]] = self.stats.get('fop:' + op[0], 0) + 1
            except CaseTimeout:
                out.append({'exc': 'CaseTimeout'})
            except Exception as e:
                out.append({'exc': exc_name(e), 'msg': str(e)[:160]})
            finally:
                try:
                    if f is not None:
                        f.close()
                except Exception:
                    pass
            traces.append(out)
        return traces

    def case_limit(self):
        """seconds allowed for one history: generous at first, short once the implementation has been seen to
        hang (a mutated loop hangs on many histories; the run must still end)"""
        return 4 if getattr(self, '_timeouts', 0) < 2 else 0.4

    def impl_mfr(self, case, iu):
        text = case['text']
        out = []
        members = []
        try:
            with time_limit(self.case_limit()):
                for p, at in zip(case['files'], mfr_at(case)):
                    data = p if text else bytes.fromhex(p)
                    if case['mk'] == 'spooled':
                        m = (iu.SpooledStringIO if text else iu.SpooledBytesIO)(max_size=3)
                        m.write(data)
                    elif case['mk'] == 'tmp':
                        m = tempfile.TemporaryFile()
                        m.write(data)
                    elif case['mk'] == 'written':       # built the way a producer does: by writing to it
                        m = io.StringIO(newline='') if text else io.BytesIO()
                        m.write(data)
                    else:
                        m = io.StringIO(data, newline='') if text else io.BytesIO(data)
                    if case['mk'] != 'io' and at != len(data):
                        m.seek(0)
                    if at and (case['mk'] == 'io' or at != len(data)):
                        m.read(at)                       # a header already consumed
                    members.append(m)
                mfr = iu.MultiFileReader(*members)
                for op in case['ops']:
                    self.stats['mop:' + op[0]] = self.stats.get('mop:' + op[0], 0) + 1
                    if op[0] == 'x':
                        try:
                            if op[1] == 's1':
                                mfr.seek(1)
                            elif op[1] == 'sc':
                                mfr.seek(0, os.SEEK_CUR)
                            else:
                                mfr.read('a')
                        except CaseTimeout:
                            raise
                        except Exception:
                            out.append({'r': ['N'], 'skip': 1})
                            continue
                        out.append({'acc': 1})
                        self._accepted.add(self.key(case))
                        break
                    if op[0] == 's':
                        mfr.seek(0)
                        v = None
                    elif op[0] == 'sw':
                        mfr.seek(0, os.SEEK_SET)
                        v = None
                    elif op[0] == 'skk':
                        mfr.seek(offset=0, whence=os.SEEK_SET)
                        v = None
                    elif op[0] == 'ra':
                        v = mfr.read()
                    elif op[0] == 'rn':
                        v = mfr.read(None)
                    elif op[0] == 'rk':
                        v = mfr.read(amt=op[1])
                    else:
                        v = mfr.read(op[1])
                    out.append({'r': canon(v, mfr_text(case))})
        except CaseTimeout:
            out.append({'exc': 'CaseTimeout'})
        except Exception as e:
            out.append({'exc': exc_name(e), 'msg': str(e)[:160]})
            self.stats['exc:' + exc_name(e)] = self.stats.get('exc:' + exc_name(e), 0) + 1
        finally:
            for m in members:
                try:
                    m.close()
                except Exception:
                    pass
        return out

    def render(self, case, obs):
        recs = []
        if case['k'] == 'F':
            obs = obs[0]
        for o in obs:
            if 'skip' in o or 'acc' in o:
                continue
            if 'exc' in o:
                recs.append('X' + o['exc'])
            elif case['k'] == 'M':
                recs.append(show(o['r']))
            else:
                recs.append('%s@%s' % (show(o['r']), o['t']))
        return ';'.join(recs)

    # ------------------------------------------------------------------ oracle (independent of the model)
    def oracle(self, case, obs):
        self._nt = False
        if case['k'] == 'M':
            return self.oracle_mfr(case, obs)
        if case['k'] == 'F':
            return self.oracle_file(case, obs)
        in_domain, appending, exp = reference(case)
        if not in_domain or not appending:
            return None        # outside the statement
        text = case['k'] == 'S'
        seen_move = False
        useful = False
        for i, op in enumerate(case['ops']):
            if i >= len(obs):
                return self.fail('missing', 'no observation for op %d %r' % (i, op), i, op, None, exp[i][0])
            o = obs[i]
            if 'acc' in o:
                return None    # a call generated as "rejected" was accepted: the history leaves the judged domain here
            if exp[i] is None:
                continue       # ['o', ...]: the op went to another instance
            if 'exc' in o:
                return self.fail('raises', 'op %d %r raised %s: %s (io reference returns %s)' % (
                    i, op, o['exc'], o.get('msg'), show(exp[i][0])), i, op, None, exp[i][0])
            want, want_tell = exp[i]
            if op[0] == 'x' and o['t'] != want_tell:
                return self.fail('tell_after', 'tell() after the rejected call %d %r (raised %s) is %r; nothing was stored%s, '
                                 'io.%s (which skipped the call) is at %d (max_size=%s)' % (
                                     i, op, o.get('rej'), o['t'], ' but the pieces before the refused one' if x_ref_ops(op, case['k']) else '',
                                     'StringIO' if text else 'BytesIO', want_tell, case['ms']),
                                 i, op, o['t'], want_tell)
            if o['r'] != want:
                tag = ('lines' if base(op) in LINE_OPS else 'read' if base(op) in ('r', 'ra') else
                       'content' if base(op) == 'g' else 'position')
                return self.fail(tag, 'op %d %r returned %s, io.%s gives %s (max_size=%s)' % (
                    i, op, show(o['r']), 'StringIO' if text else 'BytesIO', show(want), case['ms']), i, op, o['r'], want)
            if o['t'] != want_tell:
                return self.fail('tell_after', 'tell() after op %d %r is %r, io.%s is at %d (max_size=%s)' % (
                    i, op, o['t'], 'StringIO' if text else 'BytesIO', want_tell, case['ms']), i, op, o['t'], want_tell)
            if base(op) in ('sk', 'sc', 'se', 'l', 'g', 'it'):
                seen_move = True
            if seen_move and base(op) in ('r', 'ra', 'rl', 'rL', 'rs', 'n', 'dr', 'it') and o['r'] not in (['D', '-'], ['L', []], ['STOP']):
                useful = True
        if text:
            # second reading of "io.StringIO": the default constructor, where the theorem about it applies
            dexp = default_reference(case)
            if dexp is not None:
                self.stats['default_StringIO_cases'] = self.stats.get('default_StringIO_cases', 0) + 1
                for i, op in enumerate(case['ops']):
                    if dexp[i] is None:
                        continue
                    if [obs[i]['r'], obs[i]['t']] != dexp[i]:
                        return self.fail('default_stringio', 'op %d %r: returned %s at %r, the default io.StringIO() gives '
                                         '%s at %r (no lone CR in what is read)' % (i, op, show(obs[i]['r']), obs[i]['t'],
                                                                                 show(dexp[i][0]), dexp[i][1]),
                                         i, op, obs[i]['r'], dexp[i][0])
        n = self.data_len(case)
        rolled = n >= case['ms']
        wide = text and any(ord(ch) > 127 for op in case['ops'] if op[0] in ('w', 'wl') for ch in written(op, 'S'))
        if any(op[0] == 'x' for op in case['ops']):
            self.stats['cases_with_rejected_call'] = self.stats.get('cases_with_rejected_call', 0) + 1
        self._nt = bool(useful and n and (rolled or wide))
        return None

    def fail(self, tag, what, i, op, got, want):
        f = Failure(tag, what)
        f.detail = {'i': i, 'op': op, 'got': got, 'want': want}
        return f

    def oracle_file(self, case, obs):
        """the environment assumption itself: io.BytesIO and tempfile.TemporaryFile are the same abstract file (for the
        text kinds there is one object; the correspondence with the Lean reference file is the check)"""
        for tr in obs:
            for i, o in enumerate(tr):
                if 'exc' in o:
                    return Failure('file_raises', 'plain file object raised %s at op %d %r: %s' % (
                        o['exc'], i, case['ops'][min(i, len(case['ops']) - 1)], o.get('msg')))
        for tr in obs[1:]:
            if tr != obs[0]:
                i = next((j for j in range(min(len(tr), len(obs[0]))) if tr[j] != obs[0][j]), 0)
                return Failure('file_equiv', 'io.BytesIO and tempfile.TemporaryFile differ at op %d %r: %r vs %r' % (
                    i, case['ops'][i], obs[0][i], tr[i]))
        ops = case['ops']
        moved = False
        nt = False
        for op in ops:
            if op[0] in ('sk', 'sc', 'se'):
                moved = True
            if moved and op[0] in ('w', 'wl', 'r', 'ra', 'rl', 'rL', 'rs', 'n', 'it', 'dr'):
                nt = True
        self._nt = nt
        return None

    def oracle_mfr(self, case, obs):
        exp = mfr_expected(case)
        if any(mfr_at(case)) and not any('acc' in o or 'exc' in o for o in obs) and len(obs) >= len(case['ops']):
            alt = mfr_expected(case, from_start=True)
            if alt != exp and [o['r'] for o in obs[:len(alt)]] == alt:
                exp = alt       # the whole history read under the other reading of "its files' contents"
                self.stats['mfr_from_start_reading'] = self.stats.get('mfr_from_start_reading', 0) + 1
        for i, op in enumerate(case['ops']):
            if i >= len(obs):
                return Failure('mfr_missing', 'no observation for op %d %r' % (i, op))
            o = obs[i]
            if 'acc' in o:
                return None
            if 'exc' in o:
                return Failure('mfr_raises', 'MultiFileReader op %d %r raised %s: %s' % (i, op, o['exc'], o.get('msg')))
            if o['r'] != exp[i]:
                return Failure('mfr_concat', 'MultiFileReader%r%s op %d %r returned %s, the concatenation gives %s' % (
                    tuple(case['files']), (' (members handed over at positions %r)' % (mfr_at(case),)) if any(mfr_at(case)) else '',
                    i, op, show(o['r']), show(exp[i])))
        sized = any(op[0] in ('r', 'rk') and op[1] > 0 for op in case['ops'])
        reseek = any(op[0] in M_SEEK_OPS for op in case['ops'][1:])
        self._nt = len(case['files']) >= 2 and (sized or reseek)
        return None

    def nontrivial(self, case, obs):
        return getattr(self, '_nt', False)

    # known finding (repaired by the round-3 `fix:` commit; the entry stays `known` until that commit is in the tree
    # under test): SpooledStringIO.readline / iteration cut lines at every str.splitlines boundary
    # (codecs.StreamReader.readline), io.StringIO only at LF / CR / CRLF.  Matched only when the text holds such a
    # character, the failing op is a line op of a SpooledStringIO and the returned line(s) are exactly the
    # str.splitlines refinement of what io.StringIO returns.  The model follows the REPAIRED code (Lean:
    # string_refines_StringIO, full clause), so on the unrepaired tree it disagrees with the implementation exactly on
    # these cases; the runner forgives a correspondence mismatch only on a case classified here.
    def finding_exotic_linebreak(self, case, failure):
        d = getattr(failure, 'detail', None)
        if case.get('k') != 'S' or failure.tag != 'lines' or not d or d['op'][0] not in ('rl', 'n', 'it', 'dr'):
            return False
        text_so_far = ''.join(written(op, 'S') for op in case['ops'][:d['i']] if op[0] in ('w', 'wl'))
        if not any(ch in EXOTIC for ch in text_so_far):
            return False
        got, want = d['got'], d['want']
        if not got or not want or got[0] != want[0] or got[0] not in ('D', 'L'):
            return False

        def txt(h):
            return bytes.fromhex('' if h == '-' else h).decode('utf-8')
        if got[0] == 'D':
            pieces = txt(want[1]).splitlines(True)
            return bool(pieces) and txt(got[1]) == pieces[0] and txt(got[1]) != txt(want[1]) and txt(got[1])[-1] in EXOTIC
        refined = [p for ln in want[1] for p in txt(ln).splitlines(True)]
        return [txt(x) for x in got[1]] == refined

    # known finding of round 5 (repaired by `fix:` 0b8bf8c on r5-c18-work; `known` until that commit is in the tree
    # under test): SpooledStringIO.seek(x) with x not an integer ('a', None) raises TypeError AFTER it has rewound the raw
    # stream: tell() keeps the old position, the next read starts at 0 (and the next write overwrites from 0).  Matched
    # only when (1) an ['x', 'sb', ..] call on a SpooledStringIO precedes the failing op, (2) that call DID leave the raw
    # stream somewhere else than tell() says (looked at directly: the raw offset was moved to 0 by the call), and (3) the
    # same history WITHOUT the rejected seeks passes the oracle on this implementation - the failure is theirs alone.
    def finding_seek_nonint_not_atomic(self, case, failure):
        d = getattr(failure, 'detail', None)
        if case.get('k') != 'S' or not d or getattr(self, '_in_finding', False):
            return False
        i = d['i']
        if not any(op[0] == 'x' and op[1] == 'sb' for op in case['ops'][:i]):
            return False
        if not self.seek_nonint_rewinds(case, i):
            return False
        without = dict(case, ops=[op for op in case['ops'] if not (op[0] == 'x' and op[1] == 'sb')])
        self._in_finding = True
        try:
            saved = dict(self.stats)
            ok = self.oracle(without, self.impl(without)) is None
            self.stats.clear()
            self.stats.update(saved)
        finally:
            self._in_finding = False
        self._nt = False
        return ok

    def seek_nonint_rewinds(self, case, upto):
        """replay the history up to op `upto`; True if some rejected seek('a') / seek(None) before it left the raw stream
        at offset 0 although it stood elsewhere before the call (the defect itself, observed on the object)"""
        import boltons.ioutils as iu
        saved = iu.READ_CHUNK_SIZE
        f = None
        try:
            with time_limit(self.case_limit()):
                if case.get('chunk') is not None:
                    iu.READ_CHUNK_SIZE = case['chunk']
                f = iu.SpooledStringIO(max_size=case['ms'])
                for op in case['ops'][:upto]:
                    if op[0] == 'o' or op[0] == 'q':
                        continue
                    if op[0] == 'x':
                        before = f.buffer.tell()
                        try:
                            x_call(f, op, 'S')
                        except Exception:
                            pass
                        if op[1] == 'sb' and before != 0 and f.buffer.tell() == 0:
                            return True
                        continue
                    apply_op(f, op, 'S', False)
        except Exception:
            return False
        finally:
            iu.READ_CHUNK_SIZE = saved
            try:
                if f is not None:
                    f.close()
            except Exception:
                pass
        return False

    # ------------------------------------------------------------------ shrinking
    def shrink(self, case):
        ops = case['ops']
        if case['k'] == 'M':
            for i in range(len(ops)):
                yield dict(case, ops=ops[:i] + ops[i + 1:])
            at = case.get('at')
            for i in range(len(case['files'])):
                c = dict(case, files=case['files'][:i] + case['files'][i + 1:])
                if at:
                    c['at'] = at[:i] + at[i + 1:]
                yield c
            if at:
                for i, a in enumerate(at):
                    if a:
                        yield dict(case, at=at[:i] + [0] + at[i + 1:])
            if case.get('mk') not in ('io', 'written'):
                yield dict(case, mk='written' if at and any(at) else 'io')
            for i, op in enumerate(ops):
                if op[0] in ('sw', 'skk'):
                    yield dict(case, ops=ops[:i] + [['s']] + ops[i + 1:])
                elif op[0] == 'rn':
                    yield dict(case, ops=ops[:i] + [['ra']] + ops[i + 1:])
                elif op[0] == 'rk':
                    yield dict(case, ops=ops[:i] + [['r', op[1]]] + ops[i + 1:])
            for i, p in enumerate(case['files']):
                step = 1 if case['text'] else 2
                for j in range(0, len(p), step):
                    q = p[:j] + p[j + step:]
                    if not case['text']:
                        try:
                            bytes.fromhex(q)
                        except ValueError:
                            continue
                    yield dict(case, files=case['files'][:i] + [q] + case['files'][i + 1:])
            for i, op in enumerate(ops):
                if op[0] in ('r', 'rk') and op[1] > 1:
                    yield dict(case, ops=ops[:i] + [[op[0], op[1] - 1]] + ops[i + 1:])
            return

        def ok(c):
            if c['k'] == 'F':
                return self.file_case_ok(c)
            d, a, _ = reference(c)
            return d and (a or c.get('ow'))
        for i in range(len(ops)):
            c = dict(case, ops=ops[:i] + ops[i + 1:])
            if ok(c):
                yield c
        for i, op in enumerate(ops):
            if op[0] == 'w':
                step = 1 if case['k'] == 'S' or case.get('ft') in ('t', 'd') else 2
                for j in range(0, len(op[1]), step):
                    c = dict(case, ops=ops[:i] + [['w', op[1][:j] + op[1][j + step:]]] + ops[i + 1:])
                    if ok(c):
                        yield c
            elif op[0] == 'wl' and case['k'] == 'F':
                cands = [['wl', op[1][:j] + op[1][j + 1:]] + op[2:] for j in range(len(op[1]))]
                for new in cands:
                    c = dict(case, ops=ops[:i] + [new] + ops[i + 1:])
                    if ok(c):
                        yield c
            elif op[0] == 'wl':
                cands = [['w', written(op, case['k']).hex() if case['k'] == 'B' else written(op, 'S')]]
                cands += [['wl', op[1][:j] + op[1][j + 1:]] + op[2:] for j in range(len(op[1]))]
                if len(op) > 2 and op[2] != 'list':
                    cands.append(['wl', op[1], 'list'])
                for new in cands:
                    c = dict(case, ops=ops[:i] + [new] + ops[i + 1:])
                    if ok(c):
                        yield c
            elif op[0] in ALIAS and case['k'] != 'F':
                c = dict(case, ops=ops[:i] + [[ALIAS[op[0]]]] + ops[i + 1:])
                if ok(c):
                    yield c
            elif op[0] in ARG_ALIAS and case['k'] != 'F':
                c = dict(case, ops=ops[:i] + [[ARG_ALIAS[op[0]], op[1]]] + ops[i + 1:])
                if ok(c):
                    yield c
            elif op[0] in ARG_OPS and op[1] > 0:
                for v in {0, op[1] // 2, op[1] - 1}:
                    if v < op[1]:
                        c = dict(case, ops=ops[:i] + [[op[0], v]] + ops[i + 1:])
                        if ok(c):
                            yield c
        if case.get('ctor'):
            yield dict(case, ctor=0)
        if case['k'] == 'S' and case.get('chunk') is None:
            yield dict(case, chunk=3)


PROPERTY = C18
